// verifdrv: builds the property test binary from /repo's current working tree,
// runs regress + sharded rapid search, merges evidence, prints the verdict.
//
//	verifdrv <ID> quick|thorough
//	verifdrv <ID> --replay <file>
//	verifdrv --setup
//
// exit 0 held / 1 violation (VIOLATION line) / 2 inconclusive (build error,
// timeout, harness failure).
package main

import (
	"bytes"
	"encoding/json"
	"fmt"
	"os"
	"os/exec"
	"path/filepath"
	"sort"
	"strconv"
	"strings"
	"sync"
	"time"

	"verif/internal/h"
)

type tierCfg struct {
	Shards  int
	Checks  int // rapid checks per shard
	Timeout time.Duration
}

type propCfg struct {
	ID       string
	Level    string
	Race     bool
	Quick    tierCfg
	Thorough tierCfg
	// Fuzz targets run in the thorough tier after the search (native go fuzzing).
	Fuzz     []string
	FuzzTime time.Duration
	// MemLimitKB: run shards under `ulimit -v` (the property has a memory clause).
	MemLimitKB int
	// DeathIsViolation: a shard that dies (fatal runtime error, OOM) while a
	// journaled case is in flight is a violation naming that case.
	DeathIsViolation bool
}

var props = map[string]propCfg{}

func reg(p propCfg) { props[p.ID] = p }

func init() {
	q := func(s, c int) tierCfg { return tierCfg{s, c, 15 * time.Minute} }
	th := func(s, c int) tierCfg { return tierCfg{s, c, 120 * time.Minute} }
	reg(propCfg{ID: "C01", Level: "exploration", Quick: q(16, 500), Thorough: th(16, 8000)})
	reg(propCfg{ID: "C02", Level: "exploration", Quick: q(16, 2000), Thorough: th(16, 30000)})
	reg(propCfg{ID: "C03", Level: "exploration", Quick: q(16, 2500), Thorough: th(16, 60000)})
	reg(propCfg{ID: "C04", Level: "exploration", Quick: q(16, 4000), Thorough: th(16, 100000), Fuzz: []string{"FuzzC04"}, FuzzTime: 60 * time.Second})
	reg(propCfg{ID: "C12", Level: "exploration", Quick: q(16, 2500), Thorough: th(16, 30000)})
	reg(propCfg{ID: "C13", Level: "exploration", Quick: q(16, 2000), Thorough: th(16, 40000)})
	reg(propCfg{ID: "C14", Level: "exploration", Quick: q(16, 1500), Thorough: th(16, 30000)})
	reg(propCfg{ID: "C15", Level: "exploration", Quick: q(16, 2000), Thorough: th(16, 40000)})
	reg(propCfg{ID: "C16", Level: "exploration", Quick: q(16, 2500), Thorough: th(16, 60000)})
	reg(propCfg{ID: "C17", Level: "exploration", Quick: q(16, 2000), Thorough: th(16, 40000)})
	reg(propCfg{ID: "C20", Level: "exploration", Quick: q(16, 400), Thorough: th(16, 6000)})
	reg(propCfg{ID: "C19", Level: "exploration", Quick: q(16, 1500), Thorough: th(16, 30000)})
	reg(propCfg{ID: "C18", Level: "exploration", Quick: q(16, 3000), Thorough: th(16, 80000)})
	reg(propCfg{ID: "C05", Level: "exploration", Quick: q(16, 3000), Thorough: th(16, 80000), Fuzz: []string{"FuzzC05"}, FuzzTime: 60 * time.Second})
	reg(propCfg{ID: "C06", Level: "exploration", Quick: q(16, 3000), Thorough: th(16, 50000), Fuzz: []string{"FuzzC06"}, FuzzTime: 60 * time.Second})
	reg(propCfg{ID: "C07", Level: "exploration", Quick: q(16, 2500), Thorough: th(16, 40000), Fuzz: []string{"FuzzC07"}, FuzzTime: 60 * time.Second})
	reg(propCfg{ID: "C08", Level: "fault_enumeration", Quick: q(16, 6000), Thorough: th(16, 150000), MemLimitKB: 4 << 20, DeathIsViolation: true, Fuzz: []string{"FuzzC08WKB", "FuzzC08TWKB", "FuzzC08WKT", "FuzzC08GeoJSON"}, FuzzTime: 45 * time.Second})
	reg(propCfg{ID: "C09", Level: "exploration", Quick: q(16, 800), Thorough: th(16, 10000)})
	reg(propCfg{ID: "C10", Level: "exploration", Race: true, Quick: q(16, 60), Thorough: th(16, 1500)})
	reg(propCfg{ID: "C11", Level: "exploration", Quick: q(16, 5000), Thorough: th(16, 60000)})
}

func verifDir() string { return h.VerifDir() }

func goEnv() []string {
	env := os.Environ()
	env = append(env, "GOFLAGS=-mod=mod", "GOPROXY=off", "GOSUMDB=off", "GOTOOLCHAIN=local")
	return env
}

func build(id string, race bool) (string, error) {
	bin := filepath.Join(verifDir(), "bin", "props."+id+".test")
	args := []string{"test", "-c", "-vet=off", "-tags", "verif", "-o", bin}
	if race {
		args = append(args, "-race")
	}
	args = append(args, "./props")
	cmd := exec.Command("go", args...)
	cmd.Dir = verifDir()
	cmd.Env = goEnv()
	out, err := cmd.CombinedOutput()
	if err != nil {
		return "", fmt.Errorf("build failed: %v\n%s", err, out)
	}
	return bin, nil
}

type shardResult struct {
	k        int
	part     *h.Part
	exit     int
	out      string
	timeout  bool
	inflight []byte
	libhang  string // name of the library call that did not return (watchdog)
	race     bool   // the race detector reported a data race (binary built with -race, halt_on_error)
}

func shardSeed(seed int64, k int) uint64 {
	v := (seed*1000003 + int64(k)) % (1 << 31)
	if v < 0 {
		v += 1 << 31
	}
	return uint64(1 + v)
}

func runShard(cfg propCfg, bin, id, tier string, k, n int, seed int64, checks int, timeout time.Duration, partsDir string) shardResult {
	partPath := filepath.Join(partsDir, fmt.Sprintf("%s.%d.json", id, k))
	os.Remove(partPath)
	inflight := filepath.Join(partsDir, fmt.Sprintf("%s.%d.inflight", id, k))
	os.Remove(inflight)
	args := []string{
		"-test.run", "^Test" + id + "$", "-test.timeout", timeout.String(), "-test.count", "1",
		"-rapid.checks", strconv.Itoa(checks), "-rapid.seed", strconv.FormatUint(shardSeed(seed, k), 10),
		"-rapid.nofailfile", "-rapid.shrinktime", "45s",
	}
	cmd := exec.Command(bin, args...)
	if cfg.MemLimitKB > 0 {
		sh := fmt.Sprintf("ulimit -v %d; exec \"$0\" \"$@\"", cfg.MemLimitKB)
		cmd = exec.Command("sh", append([]string{"-c", sh, bin}, args...)...)
	}
	cmd.Dir = filepath.Join(verifDir(), "props")
	cmd.Env = append(os.Environ(),
		"VERIF_INFLIGHT="+inflight, "GORACE=halt_on_error=1",
		"VERIF_MODE=search", "VERIF_TIER="+tier, "VERIF_SHARD="+strconv.Itoa(k), "VERIF_NSHARDS="+strconv.Itoa(n),
		"VERIF_SEED="+strconv.FormatInt(seed, 10), "VERIF_PART_OUT="+partPath, "VERIF_DIR="+verifDir(),
		"VERIF_CHECKS="+strconv.Itoa(checks))
	var buf bytes.Buffer
	cmd.Stdout, cmd.Stderr = &buf, &buf
	err := cmd.Run()
	res := shardResult{k: k, out: buf.String()}
	if err != nil {
		res.exit = 1
		if ee, ok := err.(*exec.ExitError); ok {
			res.exit = ee.ExitCode()
		}
	}
	if strings.Contains(res.out, "panic: test timed out") {
		res.timeout = true
	}
	if strings.Contains(res.out, "WARNING: DATA RACE") {
		res.race = true
	}
	if b, err := os.ReadFile(partPath); err == nil {
		var p h.Part
		if json.Unmarshal(b, &p) == nil {
			res.part = &p
		}
		os.Remove(partPath) // merged into the evidence file; the parts are only an inter-process channel
	}
	if res.exit != 0 && (res.part == nil || !res.part.Done) {
		if b, err := os.ReadFile(inflight); err == nil && len(bytes.TrimSpace(bytes.Trim(b, "\x00"))) > 0 {
			res.inflight = bytes.Trim(b, "\x00")
		}
	}
	if b, err := os.ReadFile(inflight + ".libhang"); err == nil {
		res.libhang = string(b)
		os.Remove(inflight + ".libhang")
	}
	os.Remove(inflight)
	return res
}

type evidence struct {
	PropertyID  string                 `json:"property_id"`
	Tier        string                 `json:"tier"`
	Seed        int64                  `json:"seed"`
	Level       string                 `json:"level"`
	Coverage    map[string]interface{} `json:"coverage"`
	Assumptions []string               `json:"assumptions"`
	WallS       float64                `json:"wall_s"`
	Violations  int                    `json:"violations"`
}

func clipLines(s string, n int) string {
	lines := strings.Split(s, "\n")
	if len(lines) > n {
		lines = lines[:n]
	}
	return strings.Join(lines, "\n")
}

func tail(s string, n int) string {
	lines := strings.Split(strings.TrimRight(s, "\n"), "\n")
	if len(lines) > n {
		lines = lines[len(lines)-n:]
	}
	return strings.Join(lines, "\n")
}

func main() {
	if len(os.Args) >= 2 && os.Args[1] == "--setup" {
		os.MkdirAll(filepath.Join(verifDir(), "bin"), 0o755)
		if _, err := build("setup", false); err != nil {
			fmt.Println(err)
			os.Exit(2)
		}
		os.Remove(filepath.Join(verifDir(), "bin", "props.setup.test"))
		fmt.Println("setup ok")
		return
	}
	if len(os.Args) < 3 {
		fmt.Println("usage: verifdrv <ID> quick|thorough | <ID> --replay <file> | --setup")
		os.Exit(2)
	}
	id := os.Args[1]
	cfg, ok := props[id]
	if !ok {
		fmt.Printf("unknown property %s\n", id)
		os.Exit(2)
	}
	os.MkdirAll(filepath.Join(verifDir(), "bin"), 0o755)

	if os.Args[2] == "--replay" {
		if len(os.Args) < 4 {
			fmt.Println("--replay needs a file")
			os.Exit(2)
		}
		os.Exit(replay(cfg, os.Args[3]))
	}
	tier := os.Args[2]
	if t := os.Getenv("VERIF_TIER"); t != "" && tier == "" {
		tier = t
	}
	if tier != "quick" && tier != "thorough" {
		fmt.Printf("unknown tier %q\n", tier)
		os.Exit(2)
	}
	seed := int64(1)
	if s := os.Getenv("VERIF_SEED"); s != "" {
		if v, err := strconv.ParseInt(s, 10, 64); err == nil {
			seed = v
		}
	}
	os.Exit(run(cfg, tier, seed))
}

func replay(cfg propCfg, file string) int {
	bin, err := build(cfg.ID, cfg.Race)
	if err != nil {
		fmt.Println(err)
		return 2
	}
	abs, _ := filepath.Abs(file)
	cmd := exec.Command(bin, "-test.run", "^Test"+cfg.ID+"$", "-test.count", "1", "-test.timeout", "10m")
	cmd.Dir = filepath.Join(verifDir(), "props")
	cmd.Env = append(os.Environ(), "VERIF_MODE=replay", "VERIF_REPLAY="+abs, "VERIF_DIR="+verifDir())
	if cfg.MemLimitKB > 0 {
		sh := fmt.Sprintf("ulimit -v %d; exec \"$0\" \"$@\"", cfg.MemLimitKB)
		c2 := exec.Command("sh", "-c", sh, bin, "-test.run", "^Test"+cfg.ID+"$", "-test.count", "1", "-test.timeout", "10m")
		c2.Dir, c2.Env = cmd.Dir, cmd.Env
		cmd = c2
	}
	out, err := cmd.CombinedOutput()
	fmt.Print(tail(string(out), 60))
	if cfg.DeathIsViolation && err != nil && !strings.Contains(string(out), "REPLAY-") {
		fmt.Printf("the replay process died\nVIOLATION property=%s replay=%s\n", cfg.ID, abs)
		return 1
	}
	if strings.Contains(string(out), "REPLAY-FAIL") || strings.Contains(string(out), "LIBRARY-CALL-HANG") {
		fmt.Printf("VIOLATION property=%s replay=%s\n", cfg.ID, abs)
		return 1
	}
	if err != nil || !strings.Contains(string(out), "REPLAY-PASS") {
		return 2
	}
	return 0
}

// replayHangs re-runs one case alone with a 120 s limit and reports whether it still does not finish.
func replayHangs(cfg propCfg, bin, path string) bool {
	cmd := exec.Command(bin, "-test.run", "^Test"+cfg.ID+"$", "-test.count", "1", "-test.timeout", "10m")
	cmd.Dir = filepath.Join(verifDir(), "props")
	cmd.Env = append(os.Environ(), "VERIF_MODE=replay", "VERIF_REPLAY="+path, "VERIF_DIR="+verifDir())
	out, _ := cmd.CombinedOutput()
	return strings.Contains(string(out), "LIBRARY-CALL-HANG")
}

// knownFindings re-runs every open known finding of the property and prints the
// KNOWN-FINDING line while it still reproduces.
func knownFindings(cfg propCfg, bin string) (lines []string, classes map[string]bool) {
	classes = map[string]bool{}
	for _, k := range h.LoadKnown() {
		if k.Property != cfg.ID || k.Status != "open" {
			continue
		}
		classes[k.Class] = true
		if len(k.Case) == 0 {
			continue
		}
		tmp, _ := os.CreateTemp("", "known-*.json")
		rf := h.ReplayFile{Property: cfg.ID, Class: k.Class, Case: k.Case}
		b, _ := json.Marshal(rf)
		tmp.Write(b)
		tmp.Close()
		cmd := exec.Command(bin, "-test.run", "^Test"+cfg.ID+"$", "-test.count", "1", "-test.timeout", "10m")
		cmd.Dir = filepath.Join(verifDir(), "props")
		cmd.Env = append(os.Environ(), "VERIF_MODE=known", "VERIF_REPLAY="+tmp.Name(), "VERIF_DIR="+verifDir())
		out, _ := cmd.CombinedOutput()
		os.Remove(tmp.Name())
		if strings.Contains(string(out), "KNOWN-REPRODUCES class="+k.Class) {
			lines = append(lines, fmt.Sprintf("KNOWN-FINDING: property=%s %s [%s] %s", cfg.ID, k.ID, k.Class, k.What))
		} else if strings.Contains(string(out), "KNOWN-PASSES") {
			lines = append(lines, fmt.Sprintf("NOTE: known finding %s [%s] no longer reproduces", k.ID, k.Class))
		} else if strings.Contains(string(out), "KNOWN-REPRODUCES") {
			lines = append(lines, fmt.Sprintf("NOTE: known finding %s input now fails with a different class: %s", k.ID, tail(string(out), 3)))
		}
	}
	return lines, classes
}

func run(cfg propCfg, tier string, seed int64) int {
	start := time.Now()
	evPath := filepath.Join(verifDir(), "evidence", cfg.ID+".json")
	os.MkdirAll(filepath.Dir(evPath), 0o755)
	bin, err := build(cfg.ID, cfg.Race)
	if err != nil {
		fmt.Println(err)
		return 2
	}
	tc := cfg.Quick
	if tier == "thorough" {
		tc = cfg.Thorough
	}
	if v := os.Getenv("VERIF_SHARD_TIMEOUT"); v != "" {
		if d, err := time.ParseDuration(v); err == nil {
			tc.Timeout = d
		}
	}
	if v := os.Getenv("VERIF_CHECKS_OVERRIDE"); v != "" {
		if n, err := strconv.Atoi(v); err == nil {
			tc.Checks = n
		}
	}
	// per-driver directory: two runs of the same property in one VERIF_DIR must not share their shard files
	partsDir := filepath.Join(verifDir(), "evidence", ".parts", strconv.Itoa(os.Getpid()))
	defer os.RemoveAll(partsDir)
	os.MkdirAll(partsDir, 0o755)

	knownLines, _ := knownFindings(cfg, bin)
	for _, l := range knownLines {
		fmt.Println(l)
	}

	results := make([]shardResult, tc.Shards)
	var wg sync.WaitGroup
	for k := 0; k < tc.Shards; k++ {
		wg.Add(1)
		go func(k int) {
			defer wg.Done()
			results[k] = runShard(cfg, bin, cfg.ID, tier, k, tc.Shards, seed, tc.Checks, tc.Timeout, partsDir)
		}(k)
	}
	wg.Wait()

	// merge
	hashes := map[string]struct{}{}
	cov := map[string]interface{}{}
	classes := map[string]int64{}
	skipped := map[string]int64{}
	counters := map[string]int64{}
	maxima := map[string]float64{}
	excluded := map[string]int64{}
	sets := map[string]map[string]bool{}
	var samples []interface{}
	var evals, nontriv int64
	var regress int
	var rule string
	var assumptions []string
	var exhaustive []string
	var failures []*h.FailureRec
	inconclusive := false
	capped := false
	var notes []string
	for _, r := range results {
		if r.race {
			dir := filepath.Join(verifDir(), "replays")
			os.MkdirAll(dir, 0o755)
			path := filepath.Join(dir, fmt.Sprintf("%s-race-shard%d.json", cfg.ID, r.k))
			report := r.out
			if i := strings.Index(report, "WARNING: DATA RACE"); i >= 0 {
				report = report[i:]
			}
			rf := h.ReplayFile{Property: cfg.ID, Class: "race", Msg: "the race detector reported a data race while this case was in flight:\n" + clipLines(report, 60), Case: json.RawMessage(r.inflight)}
			if len(r.inflight) == 0 {
				rf.Case = json.RawMessage("null")
			}
			b, _ := json.MarshalIndent(rf, "", " ")
			os.WriteFile(path, b, 0o644)
			failures = append(failures, &h.FailureRec{Class: "race", Msg: rf.Msg, Replay: path})
			continue
		}
		if (r.part == nil || !r.part.Done) && r.libhang != "" && len(r.inflight) > 0 {
			// the watchdog saw a call into the library run for more than its limit: confirm by
			// re-running the journaled case alone; only a repeat is reported
			dir := filepath.Join(verifDir(), "replays")
			os.MkdirAll(dir, 0o755)
			path := filepath.Join(dir, fmt.Sprintf("%s-hang-shard%d.json", cfg.ID, r.k))
			rf := h.ReplayFile{Property: cfg.ID, Class: "hang/" + r.libhang, Msg: "the library call " + r.libhang + " did not return within the watchdog limit, also when the case was re-run alone", Case: json.RawMessage(r.inflight)}
			b, _ := json.MarshalIndent(rf, "", " ")
			os.WriteFile(path, b, 0o644)
			if replayHangs(cfg, bin, path) {
				failures = append(failures, &h.FailureRec{Class: rf.Class, Msg: rf.Msg, Replay: path})
			} else {
				inconclusive = true
				notes = append(notes, fmt.Sprintf("shard %d: watchdog fired for %s but the case completes when run alone (%s)", r.k, r.libhang, path))
			}
			continue
		}
		if (r.part == nil || !r.part.Done) && r.timeout {
			inconclusive = true
			notes = append(notes, fmt.Sprintf("shard %d hit its deadline (slow harness or machine; not a violation)", r.k))
			continue
		}
		if (r.part == nil || !r.part.Done) && !r.timeout && cfg.DeathIsViolation && len(r.inflight) > 0 {
			dir := filepath.Join(verifDir(), "replays")
			os.MkdirAll(dir, 0o755)
			path := filepath.Join(dir, fmt.Sprintf("%s-died-shard%d.json", cfg.ID, r.k))
			rf := h.ReplayFile{Property: cfg.ID, Class: "process-died", Msg: "the test process died while this case was in flight:\n" + tail(r.out, 12), Case: json.RawMessage(r.inflight)}
			b, _ := json.MarshalIndent(rf, "", " ")
			os.WriteFile(path, b, 0o644)
			failures = append(failures, &h.FailureRec{Class: "process-died", Msg: rf.Msg, Replay: path})
			continue
		}
		if r.part == nil || !r.part.Done {
			inconclusive = true
			// keep what is needed to diagnose it: the whole output and the case that was in flight
			ldir := filepath.Join(verifDir(), "logs")
			os.MkdirAll(ldir, 0o755)
			outPath := filepath.Join(ldir, fmt.Sprintf("%s.%s.shard%d.out", cfg.ID, tier, r.k))
			os.WriteFile(outPath, []byte(r.out), 0o644)
			extra := " output: " + outPath
			if len(r.inflight) > 0 {
				cpath := filepath.Join(ldir, fmt.Sprintf("%s.%s.shard%d.inflight.json", cfg.ID, tier, r.k))
				rf := h.ReplayFile{Property: cfg.ID, Class: "inconclusive/in-flight", Msg: "case in flight when the shard stopped (not a verdict)", Case: json.RawMessage(r.inflight)}
				b, _ := json.MarshalIndent(rf, "", " ")
				os.WriteFile(cpath, b, 0o644)
				extra += " in-flight case: " + cpath
			}
			notes = append(notes, fmt.Sprintf("shard %d: no complete part file (exit %d, timeout=%v)%s\n%s", r.k, r.exit, r.timeout, extra, tail(r.out, 30)))
			continue
		}
		p := r.part
		evals += p.Evaluations
		nontriv += p.NonTrivial
		regress += p.Regress
		capped = capped || p.HashesCap
		for _, hs := range p.Hashes {
			hashes[hs] = struct{}{}
		}
		for k, v := range p.Classes {
			classes[k] += v
		}
		for k, v := range p.Skipped {
			skipped[k] += v
		}
		for k, v := range p.Counters {
			counters[k] += v
		}
		for k, v := range p.Excluded {
			excluded[k] += v
		}
		for k, v := range p.Maxima {
			if old, ok := maxima[k]; !ok || v > old {
				maxima[k] = v
			}
		}
		for k, l := range p.SetsOut {
			if sets[k] == nil {
				sets[k] = map[string]bool{}
			}
			for _, v := range l {
				sets[k][v] = true
			}
		}
		if len(samples) < 8 {
			for _, s := range p.Samples {
				if len(samples) < 8 {
					samples = append(samples, s)
				}
			}
		}
		if p.Rule != "" {
			rule = p.Rule
		}
		if len(p.Assumptions) > 0 {
			assumptions = p.Assumptions
		}
		if len(p.Exhaustive) > 0 {
			exhaustive = p.Exhaustive
		}
		if p.Failure != nil {
			failures = append(failures, p.Failure)
		} else if r.exit != 0 {
			inconclusive = true
			notes = append(notes, fmt.Sprintf("shard %d: exit %d without a recorded failure (timeout=%v)\n%s", r.k, r.exit, r.timeout, tail(r.out, 30)))
		}
		if r.exit == 0 && tc.Checks > 0 && !strings.Contains(r.out, "PASS") {
			inconclusive = true
		}
	}

	fuzzViol := 0
	var fuzzReplay string
	if tier == "thorough" && len(cfg.Fuzz) > 0 && len(failures) == 0 && !inconclusive {
		n, rp, fnotes, finc := runFuzz(cfg, bin, counters)
		fuzzViol, fuzzReplay = n, rp
		notes = append(notes, fnotes...)
		inconclusive = inconclusive || finc
	}

	setSizes := map[string]int{}
	for k, m := range sets {
		setSizes[k] = len(m)
	}
	cov["evaluations"] = evals
	cov["distinct_nontrivial"] = len(hashes)
	cov["nontrivial_evaluations"] = nontriv
	if capped {
		rule += " (distinct hashes capped per shard at 300000; distinct_nontrivial is a lower bound)"
	}
	cov["rule"] = rule
	if samples == nil {
		samples = []interface{}{}
	}
	cov["samples"] = samples
	cov["classes"] = classes
	cov["skipped"] = skipped
	cov["counters"] = counters
	cov["maxima"] = maxima
	cov["distinct_sets"] = setSizes
	cov["excluded_known_findings"] = excluded
	cov["exhaustive_subspaces"] = exhaustive
	cov["exhaustive"] = false
	cov["regress_cases_replayed"] = regress
	cov["shards"] = tc.Shards
	cov["budget"] = map[string]interface{}{"rapid_checks_per_shard": tc.Checks, "shards": tc.Shards}
	cov["known_findings_reported"] = knownLines
	cov["inconclusive"] = inconclusive
	if len(notes) > 0 {
		var ns []string
		for _, n := range notes {
			if len(n) > 3000 {
				n = n[:3000]
			}
			ns = append(ns, n)
		}
		cov["notes"] = ns
	}
	ev := evidence{PropertyID: cfg.ID, Tier: tier, Seed: seed, Level: cfg.Level, Coverage: cov,
		Assumptions: assumptions, WallS: time.Since(start).Seconds(), Violations: len(failures) + fuzzViol}
	if ev.Assumptions == nil {
		ev.Assumptions = []string{}
	}
	b, _ := json.MarshalIndent(ev, "", " ")
	os.WriteFile(evPath, b, 0o644)

	for _, n := range notes {
		fmt.Println(n)
	}
	fmt.Printf("%s %s seed=%d: evaluations=%d nontrivial=%d distinct=%d regress=%d wall=%.1fs\n",
		cfg.ID, tier, seed, evals, nontriv, len(hashes), regress, time.Since(start).Seconds())
	if len(failures) > 0 {
		sort.Slice(failures, func(i, j int) bool { return len(failures[i].Msg) < len(failures[j].Msg) })
		seen := map[string]bool{}
		for _, f := range failures {
			if seen[f.Class] {
				continue
			}
			seen[f.Class] = true
			fmt.Printf("--- failure class=%s\n%s\n", f.Class, f.Msg)
			fmt.Printf("VIOLATION property=%s replay=%s\n", cfg.ID, f.Replay)
		}
		return 1
	}
	if fuzzViol > 0 {
		fmt.Printf("VIOLATION property=%s replay=%s\n", cfg.ID, fuzzReplay)
		return 1
	}
	if inconclusive {
		fmt.Printf("INCONCLUSIVE property=%s\n", cfg.ID)
		return 2
	}
	fmt.Printf("OK property=%s\n", cfg.ID)
	return 0
}

// runFuzz runs bounded native fuzz campaigns; a crasher is converted into a
// violation with the saved input as the replay file.
func runFuzz(cfg propCfg, bin string, counters map[string]int64) (viol int, replayPath string, notes []string, inconclusive bool) {
	for _, target := range cfg.Fuzz {
		for attempt := 1; attempt <= 2; attempt++ {
			ft := cfg.FuzzTime
			if ft == 0 {
				ft = 60 * time.Second
			}
			cmd := exec.Command("go", "test", "-vet=off", "-tags", "verif", "-run", "^$", "-fuzz", "^"+target+"$",
				"-fuzztime", ft.String(), "./props")
			cmd.Dir = verifDir()
			cmd.Env = append(goEnv(), "VERIF_DIR="+verifDir())
			out, err := cmd.CombinedOutput()
			s := string(out)
			// count execs
			for _, l := range strings.Split(s, "\n") {
				if i := strings.Index(l, "execs: "); i >= 0 {
					f := strings.Fields(l[i+7:])
					if len(f) > 0 {
						if n, e := strconv.ParseInt(f[0], 10, 64); e == nil {
							counters["fuzz_execs_"+target] = n
						}
					}
				}
			}
			if err != nil {
				if i := strings.Index(s, "Failing input written to "); i >= 0 {
					rest := s[i+len("Failing input written to "):]
					rest = strings.SplitN(rest, "\n", 2)[0]
					src := filepath.Join(verifDir(), "props", strings.TrimSpace(rest))
					dstDir := filepath.Join(verifDir(), "replays")
					os.MkdirAll(dstDir, 0o755)
					dst := filepath.Join(dstDir, cfg.ID+"-fuzz-"+target+"-"+filepath.Base(src)+".json")
					if b, e := os.ReadFile(src); e == nil {
						os.WriteFile(dst, fuzzCrasherToReplay(cfg.ID, target, b), 0o644)
						os.Remove(src)
					}
					// A saved input is only a violation if it fails again when replayed alone through the property's
					// check: on a busy machine the fuzz coordinator declares a starved worker "hung or terminated" and
					// saves whatever input it was working on.
					rcmd := exec.Command(bin, "-test.run", "^Test"+cfg.ID+"$", "-test.count", "1", "-test.timeout", "10m")
					rcmd.Dir = filepath.Join(verifDir(), "props")
					rcmd.Env = append(os.Environ(), "VERIF_MODE=replay", "VERIF_REPLAY="+dst, "VERIF_DIR="+verifDir())
					rout, rerr := rcmd.CombinedOutput()
					rs := string(rout)
					confirmed := strings.Contains(rs, "REPLAY-FAIL") || strings.Contains(rs, "LIBRARY-CALL-HANG") ||
						(cfg.DeathIsViolation && rerr != nil && !strings.Contains(rs, "REPLAY-"))
					if confirmed {
						viol++
						replayPath = dst
						notes = append(notes, "fuzz target "+target+" failed:\n"+tail(s, 40)+"\nreplayed alone:\n"+tail(rs, 20))
						return
					}
					os.Remove(dst)
					notes = append(notes, fmt.Sprintf("fuzz target %s (attempt %d) reported a failing input that passes when replayed alone (worker starved or killed): not a violation\n%s", target, attempt, tail(s, 8)))
					if attempt == 2 {
						inconclusive = true
					}
					continue
				}
				inconclusive = true
				notes = append(notes, "fuzz target "+target+" errored without a failing input:\n"+tail(s, 40))
			}
			break
		}
	}
	return
}

// fuzzCrasherToReplay converts a Go fuzz corpus file ("go test fuzz v1" + one
// []byte line) into a replay case of the property.
func fuzzCrasherToReplay(id, target string, corpus []byte) []byte {
	var data []byte
	for _, l := range strings.Split(string(corpus), "\n") {
		l = strings.TrimSpace(l)
		if strings.HasPrefix(l, "[]byte(") && strings.HasSuffix(l, ")") {
			if u, err := strconv.Unquote(l[len("[]byte(") : len(l)-1]); err == nil {
				data = []byte(u)
			}
		}
	}
	hexs := fmt.Sprintf("%x", data)
	var c string
	if id == "C08" {
		format := map[string]string{"FuzzC08WKB": "wkb", "FuzzC08TWKB": "twkb", "FuzzC08WKT": "wkt", "FuzzC08GeoJSON": "geojson"}[target]
		c = fmt.Sprintf(`{"format":%q,"hex":%q,"fault":"native-fuzz"}`, format, hexs)
	} else {
		c = fmt.Sprintf(`{"raw_hex":%q}`, hexs)
	}
	rf := h.ReplayFile{Property: id, Class: "native-fuzz/" + target, Case: json.RawMessage(c)}
	b, _ := json.MarshalIndent(rf, "", " ")
	return b
}

// sfprobe: small debugging helper (not part of any check).
//
//	sfprobe wkb <hex>      decode with NoValidate, print WKT and Validate()
//	sfprobe wkt <text>     parse with NoValidate, print Validate()
package main

import (
	"encoding/hex"
	"fmt"
	"os"

	"github.com/peterstace/simplefeatures/geom"
)

func main() {
	var g geom.Geometry
	var err error
	switch os.Args[1] {
	case "wkb":
		b, _ := hex.DecodeString(os.Args[2])
		g, err = geom.UnmarshalWKB(b, geom.NoValidate{})
	case "wkt":
		g, err = geom.UnmarshalWKT(os.Args[2], geom.NoValidate{})
	}
	if err != nil {
		fmt.Println("decode error:", err)
		return
	}
	fmt.Println(g.AsText())
	defer func() {
		if r := recover(); r != nil {
			fmt.Println("Validate PANIC:", r)
		}
	}()
	fmt.Println("Validate:", g.Validate())
}

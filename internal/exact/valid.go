package exact

import (
	"fmt"
	"math"
	"math/big"
	"sort"

	"verif/internal/gm"
)

// Invalid describes why a geometry is invalid ("" Rule means valid).
type Invalid struct {
	Rule string
	Msg  string
}

func inv(rule, format string, args ...interface{}) *Invalid {
	return &Invalid{Rule: rule, Msg: fmt.Sprintf(format, args...)}
}

func finiteXY(fs []gm.F, ct int) bool {
	d := gm.Dim(ct)
	for i := 0; i+d <= len(fs); i += d {
		for k := 0; k < 2; k++ {
			v := float64(fs[i+k])
			if math.IsNaN(v) || math.IsInf(v, 0) {
				return false
			}
		}
	}
	return true
}

// Valid decides OGC validity by definition; nil means valid.
func Valid(g gm.G) *Invalid {
	g = g.Norm()
	switch g.T {
	case gm.Point:
		if !finiteXY(g.Co, g.CT) {
			return inv("non-finite", "point has a non-finite XY")
		}
		return nil
	case gm.LineString:
		return validLine(g)
	case gm.Polygon:
		return validPolygon(g)
	case gm.MultiPolygon:
		for i, m := range g.Mem {
			if v := validPolygon(m); v != nil {
				v.Msg = fmt.Sprintf("polygon %d: %s", i, v.Msg)
				return v
			}
		}
		return validMultiPolygon(g)
	default:
		for i, m := range g.Mem {
			if v := Valid(m); v != nil {
				v.Msg = fmt.Sprintf("member %d: %s", i, v.Msg)
				return v
			}
		}
		return nil
	}
}

func validLine(g gm.G) *Invalid {
	if len(g.Co) == 0 {
		return nil
	}
	if !finiteXY(g.Co, g.CT) {
		return inv("non-finite", "linestring has a non-finite XY")
	}
	pts, _ := seqPts(g.Co, g.CT)
	if len(dedup(pts)) < 2 {
		return inv("too-few-points", "non-empty linestring needs two distinct points")
	}
	return nil
}

// ChainSimple: the polyline (consecutive duplicates already removed) does not
// pass through the same point twice, except that its two end points may coincide.
func ChainSimple(pts []Pt) bool {
	n := len(pts) - 1 // segments
	if n < 1 {
		return true
	}
	closed := pts[0].Eq(pts[len(pts)-1])
	for i := 0; i < n; i++ {
		for j := i + 1; j < n; j++ {
			in := Intersect(pts[i], pts[i+1], pts[j], pts[j+1])
			if in.Kind == 0 {
				continue
			}
			if in.Kind == 2 {
				return false
			}
			if j == i+1 {
				// consecutive: may share only the common vertex
				if !in.P.Eq(pts[j]) {
					return false
				}
				continue
			}
			if closed && i == 0 && j == n-1 {
				if !in.P.Eq(pts[0]) {
					return false
				}
				continue
			}
			return false
		}
	}
	return true
}

func validPolygon(g gm.G) *Invalid {
	if len(g.Rings) == 0 {
		return nil
	}
	var rings [][]Pt
	for i, r := range g.Rings {
		if len(r) == 0 {
			return inv("ring-empty", "ring %d is empty", i)
		}
		if !finiteXY(r, g.CT) {
			return inv("non-finite", "ring %d has a non-finite XY", i)
		}
		pts, _ := seqPts(r, g.CT)
		if !pts[0].Eq(pts[len(pts)-1]) {
			return inv("ring-not-closed", "ring %d is not closed", i)
		}
		pts = dedup(pts)
		if len(pts) < 2 {
			return inv("too-few-points", "ring %d has a single distinct point", i)
		}
		if !ChainSimple(pts) {
			return inv("ring-not-simple", "ring %d is not simple", i)
		}
		rings = append(rings, pts)
	}
	// two rings meet in at most one point
	for i := 0; i < len(rings); i++ {
		for j := i + 1; j < len(rings); j++ {
			pts := map[string]bool{}
			for a := 0; a+1 < len(rings[i]); a++ {
				for b := 0; b+1 < len(rings[j]); b++ {
					in := Intersect(rings[i][a], rings[i][a+1], rings[j][b], rings[j][b+1])
					switch in.Kind {
					case 2:
						return inv("rings-multi-touch", "rings %d and %d overlap along a segment", i, j)
					case 1:
						pts[in.P.Key()] = true
					}
				}
			}
			if len(pts) > 1 {
				return inv("rings-multi-touch", "rings %d and %d meet in %d points", i, j, len(pts))
			}
		}
	}
	// holes inside the shell, not inside one another
	shell := [][]Pt{rings[0]}
	for h := 1; h < len(rings); h++ {
		for _, p := range ringSamples(rings[h]) {
			if !onRings(p, shell) && !pointInRings(p, shell) {
				return inv("hole-outside-shell", "hole %d has a point outside the shell", h)
			}
		}
		for o := 1; o < len(rings); o++ {
			if o == h {
				continue
			}
			other := [][]Pt{rings[o]}
			for _, p := range ringSamples(rings[h]) {
				if !onRings(p, other) && pointInRings(p, other) {
					return inv("hole-nested", "hole %d has a point inside hole %d", h, o)
				}
			}
		}
	}
	// connected interior
	part := Part{Kind: 2, Polys: [][][]Pt{rings}}
	if n := InteriorComponents(part); n != 1 {
		return inv("interior-disconnected", "polygon interior has %d components", n)
	}
	return nil
}

// ringSamples: vertices and edge midpoints.
func ringSamples(r []Pt) []Pt {
	var out []Pt
	for i := 0; i+1 < len(r); i++ {
		out = append(out, r[i], Mid(r[i], r[i+1]))
	}
	return out
}

// InteriorComponents counts the connected components of the interior of a
// polygon part, computed on the slab cells of its own ring arrangement.
func InteriorComponents(part Part) int {
	g := Geom{Parts: []Part{part}}
	ar := Arrange(g)
	var cells []int
	for i, f := range ar.Faces {
		if f.Area != nil && LocatePart(f.Probe, part) == Interior {
			cells = append(cells, i)
		}
	}
	if len(cells) == 0 {
		return 0
	}
	parent := map[int]int{}
	for _, c := range cells {
		parent[c] = c
	}
	var find func(x int) int
	find = func(x int) int {
		for parent[x] != x {
			parent[x] = parent[parent[x]]
			x = parent[x]
		}
		return x
	}
	bySlab := map[int][]int{}
	for _, c := range cells {
		bySlab[ar.Faces[c].Slab] = append(bySlab[ar.Faces[c].Slab], c)
	}
	type iv struct{ lo, hi *big.Rat }
	for s := 0; s+2 < len(ar.Xs)+0; s++ {
		left, right := bySlab[s], bySlab[s+1]
		if len(left) == 0 || len(right) == 0 {
			continue
		}
		x := ar.Xs[s+1]
		// vertical ring edges on the line x
		var walls []iv
		for _, e := range ar.Edges {
			if e.A.X.Cmp(x) == 0 && e.B.X.Cmp(x) == 0 {
				lo, hi := e.A.Y, e.B.Y
				if lo.Cmp(hi) > 0 {
					lo, hi = hi, lo
				}
				walls = append(walls, iv{lo, hi})
			}
		}
		sort.Slice(walls, func(i, j int) bool { return walls[i].lo.Cmp(walls[j].lo) < 0 })
		span := func(c int) iv {
			f := ar.Faces[c]
			return iv{yAt(ar.Edges[f.LoEdge], x), yAt(ar.Edges[f.HiEdge], x)}
		}
		for _, l := range left {
			ls := span(l)
			for _, r := range right {
				rs := span(r)
				lo, hi := ls.lo, ls.hi
				if rs.lo.Cmp(lo) > 0 {
					lo = rs.lo
				}
				if rs.hi.Cmp(hi) < 0 {
					hi = rs.hi
				}
				if lo.Cmp(hi) >= 0 {
					continue
				}
				// is (lo,hi) entirely covered by walls?
				cur := lo
				for _, w := range walls {
					if w.hi.Cmp(cur) <= 0 {
						continue
					}
					if w.lo.Cmp(cur) > 0 {
						break
					}
					cur = w.hi
				}
				if cur.Cmp(hi) < 0 {
					parent[find(l)] = find(r)
				}
			}
		}
	}
	roots := map[int]bool{}
	for _, c := range cells {
		roots[find(c)] = true
	}
	return len(roots)
}

func validMultiPolygon(g gm.G) *Invalid {
	var parts []Part
	for _, m := range g.Mem {
		if len(m.Rings) == 0 {
			parts = append(parts, Part{Kind: 2})
			continue
		}
		x := MustFromModel(m)
		parts = append(parts, x.Parts[0])
	}
	for i := 0; i < len(parts); i++ {
		for j := i + 1; j < len(parts); j++ {
			if len(parts[i].Polys) == 0 || len(parts[j].Polys) == 0 {
				continue
			}
			ar := Arrange(Geom{Parts: []Part{parts[i]}}, Geom{Parts: []Part{parts[j]}})
			for _, e := range ar.Edges {
				if LocatePart(e.Mid, parts[i]) == Boundary && LocatePart(e.Mid, parts[j]) == Boundary {
					return inv("multipolygon-boundaries-overlap", "polygons %d and %d share a boundary segment", i, j)
				}
			}
			for _, f := range ar.Faces {
				if LocatePart(f.Probe, parts[i]) == Interior && LocatePart(f.Probe, parts[j]) == Interior {
					return inv("multipolygon-interiors-intersect", "polygons %d and %d have intersecting interiors", i, j)
				}
			}
			// a boundary edge of one strictly inside the other also means the interiors meet
			for _, e := range ar.Edges {
				li, lj := LocatePart(e.Mid, parts[i]), LocatePart(e.Mid, parts[j])
				if (li == Boundary && lj == Interior) || (li == Interior && lj == Boundary) {
					return inv("multipolygon-interiors-intersect", "polygons %d and %d: a boundary passes through the other's interior", i, j)
				}
			}
		}
	}
	return nil
}

// ---- simplicity (IsSimple) by definition ----

// LineSimple: IsSimple of a LineString model.
func LineSimple(g gm.G) bool {
	pts, err := seqPts(g.Co, g.CT)
	if err != nil {
		return false
	}
	return ChainSimple(dedup(pts))
}

// LineClosed: non-empty and first == last.
func LineClosed(g gm.G) bool {
	pts, err := seqPts(g.Co, g.CT)
	return err == nil && len(pts) > 0 && pts[0].Eq(pts[len(pts)-1])
}

// MultiPointSimple: no two non-empty members coincide.
func MultiPointSimple(g gm.G) bool {
	seen := map[string]bool{}
	for _, m := range g.Mem {
		if len(m.Co) == 0 {
			continue
		}
		k := P(float64(m.Co[0]), float64(m.Co[1])).Key()
		if seen[k] {
			return false
		}
		seen[k] = true
	}
	return true
}

// MultiLineSimple: every member simple and any two members meet only in
// points that are boundary points of both.
func MultiLineSimple(g gm.G) bool {
	var lines [][]Pt
	for _, m := range g.Mem {
		pts, err := seqPts(m.Co, m.CT)
		if err != nil {
			return false
		}
		pts = dedup(pts)
		if len(pts) == 0 {
			continue
		}
		if !ChainSimple(pts) {
			return false
		}
		lines = append(lines, pts)
	}
	isBoundary := func(p Pt, l []Pt) bool {
		if l[0].Eq(l[len(l)-1]) {
			return false
		}
		return p.Eq(l[0]) || p.Eq(l[len(l)-1])
	}
	for i := 0; i < len(lines); i++ {
		for j := i + 1; j < len(lines); j++ {
			for a := 0; a+1 < len(lines[i]); a++ {
				for b := 0; b+1 < len(lines[j]); b++ {
					in := Intersect(lines[i][a], lines[i][a+1], lines[j][b], lines[j][b+1])
					if in.Kind == 2 {
						return false
					}
					if in.Kind == 1 && !(isBoundary(in.P, lines[i]) && isBoundary(in.P, lines[j])) {
						return false
					}
				}
			}
			if len(lines[i]) == 1 || len(lines[j]) == 1 {
				continue
			}
		}
	}
	return true
}

// Package exact is the definitional geometry kernel used as oracle: exact
// rational arithmetic, brute force, OGC definitions only. It shares no code and
// no algorithmic idea with the library under test.
package exact

import (
	"math"
	"math/big"
)

// Pt is an exact point.
type Pt struct {
	X, Y *big.Rat
}

func R(f float64) *big.Rat {
	r := new(big.Rat)
	if r.SetFloat64(f) == nil {
		panic("exact: non-finite ordinate")
	}
	return r
}

func P(x, y float64) Pt { return Pt{R(x), R(y)} }

func (p Pt) Eq(q Pt) bool { return p.X.Cmp(q.X) == 0 && p.Y.Cmp(q.Y) == 0 }

// Cmp orders points lexicographically.
func (p Pt) Cmp(q Pt) int {
	if c := p.X.Cmp(q.X); c != 0 {
		return c
	}
	return p.Y.Cmp(q.Y)
}

func (p Pt) Key() string { return p.X.RatString() + "," + p.Y.RatString() }

func (p Pt) Floats() (float64, float64) {
	x, _ := p.X.Float64()
	y, _ := p.Y.Float64()
	return x, y
}

func (p Pt) String() string {
	x, y := p.Floats()
	return "(" + fmtG(x) + " " + fmtG(y) + ")"
}

func fmtG(f float64) string {
	return new(big.Float).SetFloat64(f).Text('g', 12)
}

func sub(a, b *big.Rat) *big.Rat { return new(big.Rat).Sub(a, b) }
func add(a, b *big.Rat) *big.Rat { return new(big.Rat).Add(a, b) }
func mul(a, b *big.Rat) *big.Rat { return new(big.Rat).Mul(a, b) }
func quo(a, b *big.Rat) *big.Rat { return new(big.Rat).Quo(a, b) }

var (
	ratZero = new(big.Rat)
	ratOne  = big.NewRat(1, 1)
	ratHalf = big.NewRat(1, 2)
	ratTwo  = big.NewRat(2, 1)
)

// Mid is the midpoint of a and b.
func Mid(a, b Pt) Pt {
	return Pt{mul(add(a.X, b.X), ratHalf), mul(add(a.Y, b.Y), ratHalf)}
}

// Cross returns (b-a) x (c-a).
func Cross(a, b, c Pt) *big.Rat {
	l := mul(sub(b.X, a.X), sub(c.Y, a.Y))
	r := mul(sub(b.Y, a.Y), sub(c.X, a.X))
	return l.Sub(l, r)
}

// Orient is the sign of Cross: +1 left turn, -1 right turn, 0 collinear.
func Orient(a, b, c Pt) int { return Cross(a, b, c).Sign() }

// Dot returns (b-a).(c-a).
func Dot(a, b, c Pt) *big.Rat {
	l := mul(sub(b.X, a.X), sub(c.X, a.X))
	r := mul(sub(b.Y, a.Y), sub(c.Y, a.Y))
	return l.Add(l, r)
}

// Dist2 is the squared distance.
func Dist2(a, b Pt) *big.Rat {
	dx, dy := sub(a.X, b.X), sub(a.Y, b.Y)
	return dx.Mul(dx, dx).Add(dx, dy.Mul(dy, dy))
}

func between(a, b, v *big.Rat) bool {
	if a.Cmp(b) > 0 {
		a, b = b, a
	}
	return a.Cmp(v) <= 0 && v.Cmp(b) <= 0
}

// OnSegment: p lies on the closed segment ab.
func OnSegment(p, a, b Pt) bool {
	if Orient(a, b, p) != 0 {
		return false
	}
	return between(a.X, b.X, p.X) && between(a.Y, b.Y, p.Y)
}

// SegInter is the intersection of two closed segments.
type SegInter struct {
	Kind int // 0 none, 1 single point (P), 2 collinear overlap of positive length (P..Q)
	P, Q Pt
}

// Intersect computes the exact intersection of closed segments ab and cd.
// Zero-length segments are treated as points.
func Intersect(a, b, c, d Pt) SegInter {
	if a.Eq(b) {
		if OnSegment(a, c, d) {
			return SegInter{Kind: 1, P: a, Q: a}
		}
		return SegInter{}
	}
	if c.Eq(d) {
		if OnSegment(c, a, b) {
			return SegInter{Kind: 1, P: c, Q: c}
		}
		return SegInter{}
	}
	o1, o2 := Orient(a, b, c), Orient(a, b, d)
	if o1 == 0 && o2 == 0 {
		// collinear: project on the dominant axis via lexicographic order
		if a.Cmp(b) > 0 {
			a, b = b, a
		}
		if c.Cmp(d) > 0 {
			c, d = d, c
		}
		lo, hi := a, b
		if c.Cmp(lo) > 0 {
			lo = c
		}
		if d.Cmp(hi) < 0 {
			hi = d
		}
		switch lo.Cmp(hi) {
		case 1:
			return SegInter{}
		case 0:
			return SegInter{Kind: 1, P: lo, Q: lo}
		}
		return SegInter{Kind: 2, P: lo, Q: hi}
	}
	if o1*o2 > 0 {
		return SegInter{}
	}
	o3, o4 := Orient(c, d, a), Orient(c, d, b)
	if o3*o4 > 0 {
		return SegInter{}
	}
	// proper or touching intersection at a single point: solve a + t(b-a)
	// t = cross(c-a, d-c) / cross(b-a, d-c)
	rx, ry := sub(b.X, a.X), sub(b.Y, a.Y)
	sx, sy := sub(d.X, c.X), sub(d.Y, c.Y)
	den := sub(mul(rx, sy), mul(ry, sx))
	if den.Sign() == 0 {
		return SegInter{} // cannot happen (not collinear, not parallel-disjoint handled above)
	}
	qpx, qpy := sub(c.X, a.X), sub(c.Y, a.Y)
	t := quo(sub(mul(qpx, sy), mul(qpy, sx)), den)
	p := Pt{add(a.X, mul(t, rx)), add(a.Y, mul(t, ry))}
	return SegInter{Kind: 1, P: p, Q: p}
}

// PointSegDist2 is the squared distance from p to the closed segment ab.
func PointSegDist2(p, a, b Pt) *big.Rat {
	if a.Eq(b) {
		return Dist2(p, a)
	}
	d := Dot(a, b, p)
	l2 := Dist2(a, b)
	if d.Sign() <= 0 {
		return Dist2(p, a)
	}
	if d.Cmp(l2) >= 0 {
		return Dist2(p, b)
	}
	c := Cross(a, b, p)
	return quo(mul(c, c), l2)
}

// SegSegDist2 is the squared distance between two closed segments.
func SegSegDist2(a, b, c, d Pt) *big.Rat {
	if Intersect(a, b, c, d).Kind != 0 {
		return new(big.Rat)
	}
	m := PointSegDist2(a, c, d)
	for _, v := range []*big.Rat{PointSegDist2(b, c, d), PointSegDist2(c, a, b), PointSegDist2(d, a, b)} {
		if v.Cmp(m) < 0 {
			m = v
		}
	}
	return m
}

// Sqrt of a non-negative rational as float64 (200-bit intermediate).
func Sqrt(r *big.Rat) float64 {
	if r.Sign() <= 0 {
		return 0
	}
	f := new(big.Float).SetPrec(200).SetRat(r)
	f.Sqrt(f)
	v, _ := f.Float64()
	return v
}

func RatFloat(r *big.Rat) float64 {
	f := new(big.Float).SetPrec(200).SetRat(r)
	v, _ := f.Float64()
	return v
}

func finite(f float64) bool { return !math.IsNaN(f) && !math.IsInf(f, 0) }

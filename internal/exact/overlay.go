package exact

import (
	"math/big"
)

// Op is a Boolean combination of membership in A and B.
type Op func(inA, inB bool) bool

var (
	OpUnion   Op = func(a, b bool) bool { return a || b }
	OpInter   Op = func(a, b bool) bool { return a && b }
	OpDiff    Op = func(a, b bool) bool { return a && !b }
	OpRevDiff Op = func(a, b bool) bool { return b && !a }
	OpSymDiff Op = func(a, b bool) bool { return a != b }
)

// Overlay is the cell membership of the operands, computed once per pair and
// shared by all operations.
type Overlay struct {
	Ar     *Arrangement
	A, B   Geom
	FaceIn [][2]bool // per face: probe in A, in B
	EdgeIn [][2]bool // per edge: midpoint in A, in B
	EdgeL  [][2]bool // left face probe in A, in B
	EdgeR  [][2]bool
	VertIn [][2]bool
	VertF  [][2]bool // for vertices without incident edges: surrounding face probe in A, in B
	// FaceClear: float distance from each face probe to the nearest arrangement edge/vertex (-1 none)
	FaceClear []float64
}

func NewOverlay(a, b Geom) *Overlay {
	ar := Arrange(a, b)
	ov := &Overlay{Ar: ar, A: a, B: b}
	in2 := func(p Pt) [2]bool { return [2]bool{In(p, a), In(p, b)} }
	for _, f := range ar.Faces {
		ov.FaceIn = append(ov.FaceIn, in2(f.Probe))
	}
	for _, e := range ar.Edges {
		ov.EdgeIn = append(ov.EdgeIn, in2(e.Mid))
		ov.EdgeL = append(ov.EdgeL, in2(e.L))
		ov.EdgeR = append(ov.EdgeR, in2(e.R))
	}
	for i, v := range ar.Verts {
		ov.VertIn = append(ov.VertIn, in2(v))
		if len(ar.Inc[i]) == 0 {
			ov.VertF = append(ov.VertF, in2(ar.VertexProbe(i)))
		} else {
			ov.VertF = append(ov.VertF, [2]bool{})
		}
	}
	// float clearances of face probes
	type fe struct{ ax, ay, bx, by float64 }
	ef := make([]fe, len(ar.Edges))
	for i, e := range ar.Edges {
		ef[i].ax, ef[i].ay = e.A.Floats()
		ef[i].bx, ef[i].by = e.B.Floats()
	}
	for _, f := range ar.Faces {
		px, py := f.Probe.Floats()
		best := -1.0
		for _, e := range ef {
			d := pointSegDistF(px, py, e.ax, e.ay, e.bx, e.by)
			if best < 0 || d < best {
				best = d
			}
		}
		for i, v := range ar.Verts {
			if len(ar.Inc[i]) > 0 {
				continue
			}
			vx, vy := v.Floats()
			d := hyp(px-vx, py-vy)
			if best < 0 || d < best {
				best = d
			}
		}
		ov.FaceClear = append(ov.FaceClear, best)
	}
	return ov
}

// Expect is the expected result of one operation as cell sets and measures.
type Expect struct {
	Face []bool // face in cl(op)
	Edge []bool // edge in cl(op)
	// EdgeLine: edge belongs to the 1-dimensional remainder (in the result, no adjacent face in it)
	EdgeLine []bool
	Vert     []bool
	// VertPoint: vertex is an isolated point of the result
	VertPoint []bool
	Area      *big.Rat
	Length    *big.Float
	NumPoints int
	NumLines  int // number of remainder sub-edges
}

func (ov *Overlay) Expect(op Op) Expect {
	ar := ov.Ar
	ex := Expect{Area: new(big.Rat), Length: new(big.Float).SetPrec(200)}
	for i, f := range ar.Faces {
		in := op(ov.FaceIn[i][0], ov.FaceIn[i][1])
		ex.Face = append(ex.Face, in)
		if in && f.Area != nil {
			ex.Area.Add(ex.Area, f.Area)
		}
	}
	for i, e := range ar.Edges {
		l := op(ov.EdgeL[i][0], ov.EdgeL[i][1])
		r := op(ov.EdgeR[i][0], ov.EdgeR[i][1])
		self := op(ov.EdgeIn[i][0], ov.EdgeIn[i][1])
		ex.Edge = append(ex.Edge, self || l || r)
		line := self && !l && !r
		ex.EdgeLine = append(ex.EdgeLine, line)
		if line {
			ex.Length.Add(ex.Length, bigSqrt(Dist2(e.A, e.B)))
			ex.NumLines++
		}
	}
	for i := range ar.Verts {
		self := op(ov.VertIn[i][0], ov.VertIn[i][1])
		anyEdge := false
		for _, ei := range ar.Inc[i] {
			if ex.Edge[ei] {
				anyEdge = true
			}
		}
		faceAround := false
		if len(ar.Inc[i]) == 0 {
			faceAround = op(ov.VertF[i][0], ov.VertF[i][1])
		}
		ex.Vert = append(ex.Vert, self || anyEdge || faceAround)
		pt := self && !anyEdge && !faceAround
		ex.VertPoint = append(ex.VertPoint, pt)
		if pt {
			ex.NumPoints++
		}
	}
	return ex
}

// UnlabelledCell reports whether geometry x has a cell of its own ring
// arrangement that lies inside some areal member although no ring edge
// bounding that cell belongs to a member containing the cell (a hole of one
// member covered by another member, a void enclosed by several members and
// covered by a further one). This is the input class of known finding F17.
func UnlabelledCell(x Geom) bool {
	var areal []Part
	for _, p := range x.Parts {
		if p.Kind == 2 {
			// every polygon of a MultiPolygon is its own member for this purpose
			for _, poly := range p.Polys {
				areal = append(areal, Part{Kind: 2, Polys: [][][]Pt{poly}})
			}
		}
	}
	if len(areal) < 2 {
		return false
	}
	ar := Arrange(Geom{Parts: areal})
	// faces adjacent to an edge owned (as boundary) by a member that contains the face
	type key struct{ x, y string }
	labelled := map[int]bool{}
	faceOf := func(p Pt) int {
		// identify the slab face containing p by locating p against each face's slab and bounding edges
		for i, f := range ar.Faces {
			if f.Slab < 0 || f.Area == nil {
				continue
			}
			if p.X.Cmp(ar.Xs[f.Slab]) <= 0 || p.X.Cmp(ar.Xs[f.Slab+1]) >= 0 {
				continue
			}
			lo, hi := yAt(ar.Edges[f.LoEdge], p.X), yAt(ar.Edges[f.HiEdge], p.X)
			if p.Y.Cmp(lo) > 0 && p.Y.Cmp(hi) < 0 {
				return i
			}
		}
		return -1
	}
	_ = key{}
	// connected components of faces (not separated by any ring edge): flood via union-find over slab adjacency
	comp := faceComponents(ar)
	for _, e := range ar.Edges {
		for _, m := range areal {
			if LocatePart(e.Mid, m) != Boundary {
				continue
			}
			for _, side := range []Pt{e.L, e.R} {
				if LocatePart(side, m) == Interior {
					if fi := faceOf(side); fi >= 0 {
						labelled[comp[fi]] = true
					}
				}
			}
		}
	}
	for i, f := range ar.Faces {
		if f.Area == nil {
			continue
		}
		inside := false
		for _, m := range areal {
			if LocatePart(f.Probe, m) == Interior {
				inside = true
			}
		}
		if inside && !labelled[comp[i]] {
			return true
		}
	}
	return false
}

// faceComponents groups slab cells into the faces of the arrangement: two
// cells of neighbouring slabs belong to the same face when their spans on the
// common vertical line overlap in an interval not covered by vertical edges.
func faceComponents(ar *Arrangement) []int {
	parent := make([]int, len(ar.Faces))
	for i := range parent {
		parent[i] = i
	}
	var find func(int) int
	find = func(x int) int {
		for parent[x] != x {
			parent[x] = parent[parent[x]]
			x = parent[x]
		}
		return x
	}
	bySlab := map[int][]int{}
	for i, f := range ar.Faces {
		if f.Slab >= 0 && f.Area != nil {
			bySlab[f.Slab] = append(bySlab[f.Slab], i)
		}
	}
	type iv struct{ lo, hi *big.Rat }
	for s := 0; s+2 < len(ar.Xs); s++ {
		x := ar.Xs[s+1]
		var walls []iv
		for _, e := range ar.Edges {
			if e.A.X.Cmp(x) == 0 && e.B.X.Cmp(x) == 0 {
				lo, hi := e.A.Y, e.B.Y
				if lo.Cmp(hi) > 0 {
					lo, hi = hi, lo
				}
				walls = append(walls, iv{lo, hi})
			}
		}
		// sort walls by lo
		for i := 1; i < len(walls); i++ {
			for j := i; j > 0 && walls[j].lo.Cmp(walls[j-1].lo) < 0; j-- {
				walls[j], walls[j-1] = walls[j-1], walls[j]
			}
		}
		span := func(c int) iv {
			f := ar.Faces[c]
			return iv{yAt(ar.Edges[f.LoEdge], x), yAt(ar.Edges[f.HiEdge], x)}
		}
		for _, l := range bySlab[s] {
			ls := span(l)
			for _, r := range bySlab[s+1] {
				rs := span(r)
				lo, hi := ls.lo, ls.hi
				if rs.lo.Cmp(lo) > 0 {
					lo = rs.lo
				}
				if rs.hi.Cmp(hi) < 0 {
					hi = rs.hi
				}
				if lo.Cmp(hi) >= 0 {
					continue
				}
				cur := lo
				for _, w := range walls {
					if w.hi.Cmp(cur) <= 0 {
						continue
					}
					if w.lo.Cmp(cur) > 0 {
						break
					}
					cur = w.hi
				}
				if cur.Cmp(hi) < 0 {
					parent[find(l)] = find(r)
				}
			}
		}
	}
	out := make([]int, len(ar.Faces))
	for i := range out {
		out[i] = find(i)
	}
	return out
}

package exact

// Matrix is a DE-9IM matrix: entry [x][y] is the dimension (-1 = F) of the
// intersection of part x of A (Interior, Boundary, Exterior) with part y of B.
type Matrix [3][3]int

func (m Matrix) String() string {
	b := make([]byte, 0, 9)
	for i := 0; i < 3; i++ {
		for j := 0; j < 3; j++ {
			if m[i][j] < 0 {
				b = append(b, 'F')
			} else {
				b = append(b, byte('0'+m[i][j]))
			}
		}
	}
	return string(b)
}

func (m Matrix) Transpose() Matrix {
	var t Matrix
	for i := 0; i < 3; i++ {
		for j := 0; j < 3; j++ {
			t[j][i] = m[i][j]
		}
	}
	return t
}

// Relate computes the DE-9IM matrix from the cells of the arrangement: every
// vertex (dim 0), open sub-edge (dim 1) and open face (dim 2) lies entirely in
// one of I/B/E of each operand, so M[x][y] is the largest dimension of a cell
// located (x, y).
func Relate(a, b Geom) (Matrix, *Arrangement) {
	ar := Arrange(a, b)
	var m Matrix
	for i := range m {
		for j := range m[i] {
			m[i][j] = -1
		}
	}
	put := func(p Pt, dim int) {
		la, lb := Locate(p, a), Locate(p, b)
		if m[la][lb] < dim {
			m[la][lb] = dim
		}
	}
	for _, v := range ar.Verts {
		put(v, 0)
	}
	for _, e := range ar.Edges {
		put(e.Mid, 1)
	}
	for _, f := range ar.Faces {
		put(f.Probe, 2)
	}
	return m, ar
}

// MatchPattern evaluates a DE-9IM pattern (characters T F * 0 1 2) on a matrix.
func MatchPattern(m Matrix, pattern string) bool {
	if len(pattern) != 9 {
		return false
	}
	for k := 0; k < 9; k++ {
		v := m[k/3][k%3]
		switch pattern[k] {
		case '*':
		case 'T':
			if v < 0 {
				return false
			}
		case 'F':
			if v >= 0 {
				return false
			}
		case '0', '1', '2':
			if v != int(pattern[k]-'0') {
				return false
			}
		default:
			return false
		}
	}
	return true
}

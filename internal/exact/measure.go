package exact

import (
	"math/big"
)

// Intersects: the two point sets share a point.
func Intersects(a, b Geom) bool {
	if a.IsEmpty() || b.IsEmpty() {
		return false
	}
	sa, sb := a.Segs(), b.Segs()
	for _, x := range sa {
		for _, y := range sb {
			if Intersect(x.A, x.B, y.A, y.B).Kind != 0 {
				return true
			}
		}
	}
	for _, v := range a.Vertices() {
		if In(v, b) {
			return true
		}
	}
	for _, v := range b.Vertices() {
		if In(v, a) {
			return true
		}
	}
	return false
}

// Dist2 is the squared minimum distance between two non-empty geometries.
func GeomDist2(a, b Geom) *big.Rat {
	if Intersects(a, b) {
		return new(big.Rat)
	}
	var best *big.Rat
	upd := func(d *big.Rat) {
		if best == nil || d.Cmp(best) < 0 {
			best = d
		}
	}
	sa, sb := a.Segs(), b.Segs()
	pa, pb := a.AllPoints(), b.AllPoints()
	for _, x := range sa {
		for _, y := range sb {
			upd(SegSegDist2(x.A, x.B, y.A, y.B))
		}
		for _, p := range pb {
			upd(PointSegDist2(p, x.A, x.B))
		}
	}
	for _, y := range sb {
		for _, p := range pa {
			upd(PointSegDist2(p, y.A, y.B))
		}
	}
	for _, p := range pa {
		for _, q := range pb {
			upd(Dist2(p, q))
		}
	}
	return best
}

// ringArea2 is twice the signed area of a closed ring.
func ringArea2(r []Pt) *big.Rat {
	s := new(big.Rat)
	for i := 0; i+1 < len(r); i++ {
		s.Add(s, sub(mul(r[i].X, r[i+1].Y), mul(r[i+1].X, r[i].Y)))
	}
	return s
}

// RingSignedArea: positive for counter-clockwise rings.
func RingSignedArea(r []Pt) *big.Rat { return mul(ringArea2(r), ratHalf) }

// Area of the areal parts (valid polygons assumed): |shell| - sum |holes|.
func (g Geom) Area() *big.Rat {
	total := new(big.Rat)
	for _, p := range g.Parts {
		for _, poly := range p.Polys {
			for i, r := range poly {
				a := new(big.Rat).Abs(RingSignedArea(r))
				if i == 0 {
					total.Add(total, a)
				} else {
					total.Sub(total, a)
				}
			}
		}
	}
	return total
}

// SlabArea: area of a polygon part computed from trapezoids (not the shoelace formula).
func SlabArea(part Part) *big.Rat {
	ar := Arrange(Geom{Parts: []Part{part}})
	total := new(big.Rat)
	for _, f := range ar.Faces {
		if f.Area != nil && LocatePart(f.Probe, part) == Interior {
			total.Add(total, f.Area)
		}
	}
	return total
}

func bigSqrt(r *big.Rat) *big.Float {
	f := new(big.Float).SetPrec(200).SetRat(r)
	if f.Sign() <= 0 {
		return new(big.Float).SetPrec(200)
	}
	return f.Sqrt(f)
}

// Length of the lineal parts (200-bit).
func (g Geom) Length() *big.Float {
	total := new(big.Float).SetPrec(200)
	for _, p := range g.Parts {
		for _, l := range p.Lines {
			for i := 0; i+1 < len(l); i++ {
				total.Add(total, bigSqrt(Dist2(l[i], l[i+1])))
			}
		}
	}
	return total
}

// Perimeter of the areal parts.
func (g Geom) Perimeter() *big.Float {
	total := new(big.Float).SetPrec(200)
	for _, p := range g.Parts {
		for _, poly := range p.Polys {
			for _, r := range poly {
				for i := 0; i+1 < len(r); i++ {
					total.Add(total, bigSqrt(Dist2(r[i], r[i+1])))
				}
			}
		}
	}
	return total
}

func bf(r *big.Rat) *big.Float { return new(big.Float).SetPrec(200).SetRat(r) }

// Centroid of the highest-dimensional non-empty part: area-weighted, else
// length-weighted, else the point average. ok=false for an empty geometry.
func (g Geom) Centroid() (x, y float64, ok bool) {
	switch g.Dim() {
	case 2:
		sx, sy, sa := new(big.Rat), new(big.Rat), new(big.Rat)
		for _, p := range g.Parts {
			for _, poly := range p.Polys {
				for i, r := range poly {
					// ring centroid * signed area, orientation-normalised: shell +, holes -
					a2 := ringArea2(r)
					cx, cy := new(big.Rat), new(big.Rat)
					for k := 0; k+1 < len(r); k++ {
						cr := sub(mul(r[k].X, r[k+1].Y), mul(r[k+1].X, r[k].Y))
						cx.Add(cx, mul(add(r[k].X, r[k+1].X), cr))
						cy.Add(cy, mul(add(r[k].Y, r[k+1].Y), cr))
					}
					// cx = 6*A*Cx (signed): normalise the sign so that shells count +, holes -
					sign := big.NewRat(1, 1)
					if (a2.Sign() < 0) != (i > 0) {
						sign = big.NewRat(-1, 1)
					}
					if a2.Sign() == 0 {
						continue
					}
					sx.Add(sx, mul(cx, sign))
					sy.Add(sy, mul(cy, sign))
					sa.Add(sa, mul(a2, sign))
				}
			}
		}
		if sa.Sign() == 0 {
			return 0, 0, false
		}
		// Cx = sum(cx) / (3 * sum(a2))
		den := mul(sa, big.NewRat(3, 1))
		return RatFloat(quo(sx, den)), RatFloat(quo(sy, den)), true
	case 1:
		sx, sy, sl := new(big.Float).SetPrec(200), new(big.Float).SetPrec(200), new(big.Float).SetPrec(200)
		for _, p := range g.Parts {
			for _, l := range p.Lines {
				for i := 0; i+1 < len(l); i++ {
					ln := bigSqrt(Dist2(l[i], l[i+1]))
					m := Mid(l[i], l[i+1])
					sx.Add(sx, new(big.Float).SetPrec(200).Mul(ln, bf(m.X)))
					sy.Add(sy, new(big.Float).SetPrec(200).Mul(ln, bf(m.Y)))
					sl.Add(sl, ln)
				}
			}
		}
		if sl.Sign() == 0 {
			return 0, 0, false
		}
		fx, _ := new(big.Float).SetPrec(200).Quo(sx, sl).Float64()
		fy, _ := new(big.Float).SetPrec(200).Quo(sy, sl).Float64()
		return fx, fy, true
	case 0:
		sx, sy := new(big.Rat), new(big.Rat)
		n := 0
		for _, p := range g.AllPoints() {
			sx.Add(sx, p.X)
			sy.Add(sy, p.Y)
			n++
		}
		d := big.NewRat(int64(n), 1)
		return RatFloat(quo(sx, d)), RatFloat(quo(sy, d)), true
	}
	return 0, 0, false
}

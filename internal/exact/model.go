package exact

import (
	"fmt"
	"math"

	"verif/internal/gm"
)

// Part is one non-collection member: a point set, a line set or a polygon set.
type Part struct {
	Kind   int      // 0 points, 1 lines, 2 polygons
	Points []Pt     // Kind 0
	Lines  [][]Pt   // Kind 1: each line with consecutive duplicates removed (>= 2 points, else dropped)
	Polys  [][][]Pt // Kind 2: rings (closed, duplicates removed); ring 0 is the shell
	Type   string
}

// Geom is a flattened geometry: collections are expanded recursively.
type Geom struct {
	Parts []Part
}

// Seg is a segment of a line or ring, tagged with its origin.
type Seg struct {
	A, B Pt
	Part int // index into Geom.Parts
	Kind int // 1 line, 2 ring
}

func dedup(pts []Pt) []Pt {
	var out []Pt
	for _, p := range pts {
		if len(out) == 0 || !out[len(out)-1].Eq(p) {
			out = append(out, p)
		}
	}
	return out
}

func seqPts(fs []gm.F, ct int) ([]Pt, error) {
	d := gm.Dim(ct)
	var out []Pt
	for i := 0; i+d <= len(fs); i += d {
		x, y := float64(fs[i]), float64(fs[i+1])
		if math.IsNaN(x) || math.IsInf(x, 0) || math.IsNaN(y) || math.IsInf(y, 0) {
			return nil, fmt.Errorf("non-finite ordinate")
		}
		out = append(out, P(x, y))
	}
	return out, nil
}

// FromModel flattens a model. Non-finite XY is an error.
func FromModel(g gm.G) (Geom, error) {
	var out Geom
	err := addModel(&out, g.Norm())
	return out, err
}

// MustFromModel panics on non-finite input (generators only produce finite values).
func MustFromModel(g gm.G) Geom {
	x, err := FromModel(g)
	if err != nil {
		panic(err)
	}
	return x
}

func addModel(out *Geom, g gm.G) error {
	switch g.T {
	case gm.Point, gm.MultiPoint:
		p := Part{Kind: 0, Type: g.T}
		members := []gm.G{g}
		if g.T == gm.MultiPoint {
			members = g.Mem
		}
		for _, m := range members {
			pts, err := seqPts(m.Co, m.CT)
			if err != nil {
				return err
			}
			p.Points = append(p.Points, pts...)
		}
		out.Parts = append(out.Parts, p)
	case gm.LineString, gm.MultiLineString:
		p := Part{Kind: 1, Type: g.T}
		members := []gm.G{g}
		if g.T == gm.MultiLineString {
			members = g.Mem
		}
		for _, m := range members {
			pts, err := seqPts(m.Co, m.CT)
			if err != nil {
				return err
			}
			pts = dedup(pts)
			if len(pts) >= 2 {
				p.Lines = append(p.Lines, pts)
			}
		}
		out.Parts = append(out.Parts, p)
	case gm.Polygon, gm.MultiPolygon:
		p := Part{Kind: 2, Type: g.T}
		members := []gm.G{g}
		if g.T == gm.MultiPolygon {
			members = g.Mem
		}
		for _, m := range members {
			var rings [][]Pt
			for _, r := range m.Rings {
				pts, err := seqPts(r, m.CT)
				if err != nil {
					return err
				}
				rings = append(rings, dedup(pts))
			}
			if len(rings) > 0 {
				p.Polys = append(p.Polys, rings)
			}
		}
		out.Parts = append(out.Parts, p)
	case gm.GeometryCollection:
		for _, m := range g.Mem {
			if err := addModel(out, m); err != nil {
				return err
			}
		}
	default:
		return fmt.Errorf("exact: bad type %q", g.T)
	}
	return nil
}

// IsEmpty: no points at all.
func (g Geom) IsEmpty() bool {
	for _, p := range g.Parts {
		if len(p.Points) > 0 || len(p.Lines) > 0 || len(p.Polys) > 0 {
			return false
		}
	}
	return true
}

// Dim is the topological dimension ignoring empty parts (-1 when empty).
func (g Geom) Dim() int {
	d := -1
	for _, p := range g.Parts {
		switch {
		case len(p.Polys) > 0:
			d = 2
		case len(p.Lines) > 0 && d < 1:
			d = 1
		case len(p.Points) > 0 && d < 0:
			d = 0
		}
	}
	return d
}

// Segs returns all segments.
func (g Geom) Segs() []Seg {
	var out []Seg
	for pi, p := range g.Parts {
		for _, l := range p.Lines {
			for i := 0; i+1 < len(l); i++ {
				out = append(out, Seg{A: l[i], B: l[i+1], Part: pi, Kind: 1})
			}
		}
		for _, poly := range p.Polys {
			for _, r := range poly {
				for i := 0; i+1 < len(r); i++ {
					out = append(out, Seg{A: r[i], B: r[i+1], Part: pi, Kind: 2})
				}
			}
		}
	}
	return out
}

// AllPoints returns the isolated points (Kind 0 parts).
func (g Geom) AllPoints() []Pt {
	var out []Pt
	for _, p := range g.Parts {
		out = append(out, p.Points...)
	}
	return out
}

// Vertices returns every control point.
func (g Geom) Vertices() []Pt {
	out := g.AllPoints()
	for _, p := range g.Parts {
		for _, l := range p.Lines {
			out = append(out, l...)
		}
		for _, poly := range p.Polys {
			for _, r := range poly {
				out = append(out, r...)
			}
		}
	}
	return out
}

// Location of a point relative to a geometry.
const (
	Interior = 0
	Boundary = 1
	Exterior = 2
)

var locNames = [3]string{"I", "B", "E"}

func LocName(l int) string { return locNames[l] }

// pointInRings: crossing parity of p against all rings (p must not lie on a ring).
func pointInRings(p Pt, rings [][]Pt) bool {
	inside := false
	for _, r := range rings {
		for i := 0; i+1 < len(r); i++ {
			a, b := r[i], r[i+1]
			ay, by := a.Y.Cmp(p.Y) > 0, b.Y.Cmp(p.Y) > 0
			if ay == by {
				continue
			}
			// x of the edge at height p.Y
			t := quo(sub(p.Y, a.Y), sub(b.Y, a.Y))
			x := add(a.X, mul(t, sub(b.X, a.X)))
			if x.Cmp(p.X) > 0 {
				inside = !inside
			}
		}
	}
	return inside
}

func onRings(p Pt, rings [][]Pt) bool {
	for _, r := range rings {
		for i := 0; i+1 < len(r); i++ {
			if OnSegment(p, r[i], r[i+1]) {
				return true
			}
		}
		if len(r) == 1 && r[0].Eq(p) {
			return true
		}
	}
	return false
}

// LocatePart locates p relative to one part, by the OGC definitions.
func LocatePart(p Pt, part Part) int {
	switch part.Kind {
	case 0:
		for _, q := range part.Points {
			if q.Eq(p) {
				return Interior
			}
		}
		return Exterior
	case 1:
		on := false
		ends := 0
		for _, l := range part.Lines {
			closed := l[0].Eq(l[len(l)-1])
			for i := 0; i+1 < len(l); i++ {
				if OnSegment(p, l[i], l[i+1]) {
					on = true
					break
				}
			}
			if !closed {
				if l[0].Eq(p) {
					ends++
				}
				if l[len(l)-1].Eq(p) {
					ends++
				}
			}
		}
		if !on {
			return Exterior
		}
		if ends%2 == 1 {
			return Boundary
		}
		return Interior
	default:
		for _, poly := range part.Polys {
			if onRings(p, poly) {
				return Boundary
			}
		}
		for _, poly := range part.Polys {
			if pointInRings(p, poly) {
				return Interior
			}
		}
		return Exterior
	}
}

// Locate combines the parts: interior if interior to any part, else boundary
// if on the boundary of any part, else exterior. (For collections with pairwise
// disjoint members this is the OGC location; for overlapping members only
// membership, Locate != Exterior, is meaningful.)
func Locate(p Pt, g Geom) int {
	res := Exterior
	for _, part := range g.Parts {
		switch LocatePart(p, part) {
		case Interior:
			return Interior
		case Boundary:
			res = Boundary
		}
	}
	return res
}

// In reports membership of p in the point set of g.
func In(p Pt, g Geom) bool { return Locate(p, g) != Exterior }

package exact

import (
	"testing"

	"github.com/peterstace/simplefeatures/geom"

	"verif/internal/gm"
)

func m(t *testing.T, wkt string) gm.G {
	g, err := geom.UnmarshalWKT(wkt, geom.NoValidate{})
	if err != nil {
		t.Fatalf("%s: %v", wkt, err)
	}
	return gm.FromGeom(g)
}

func TestRelateHandCases(t *testing.T) {
	// pairs with matrices from the OGC / JTS documentation
	cases := []struct{ a, b, want string }{
		{"POLYGON((0 0,4 0,4 4,0 4,0 0))", "POLYGON((2 2,6 2,6 6,2 6,2 2))", "212101212"},
		{"POLYGON((0 0,4 0,4 4,0 4,0 0))", "POLYGON((4 0,8 0,8 4,4 4,4 0))", "FF2F11212"},
		{"POLYGON((0 0,4 0,4 4,0 4,0 0))", "POLYGON((4 4,8 4,8 8,4 8,4 4))", "FF2F01212"},
		{"POLYGON((0 0,4 0,4 4,0 4,0 0))", "POLYGON((1 1,2 1,2 2,1 2,1 1))", "212FF1FF2"},
		{"POLYGON((0 0,4 0,4 4,0 4,0 0))", "POLYGON((0 0,4 0,4 4,0 4,0 0))", "2FFF1FFF2"},
		{"LINESTRING(0 0,4 4)", "LINESTRING(0 4,4 0)", "0F1FF0102"},
		{"LINESTRING(0 0,2 2)", "LINESTRING(1 1,3 3)", "1010F0102"},
		{"POINT(1 1)", "POLYGON((0 0,4 0,4 4,0 4,0 0))", "0FFFFF212"},
		{"POINT(0 2)", "POLYGON((0 0,4 0,4 4,0 4,0 0))", "F0FFFF212"},
		{"POINT(9 9)", "POLYGON((0 0,4 0,4 4,0 4,0 0))", "FF0FFF212"},
		{"LINESTRING(-1 2,5 2)", "POLYGON((0 0,4 0,4 4,0 4,0 0))", "101FF0212"},
		{"MULTILINESTRING((0 0,1 1),(1 1,2 0))", "POINT(1 1)", "0F1FF0FF2"},
		{"MULTILINESTRING((0 0,1 1),(1 1,2 0),(1 1,1 5))", "POINT(1 1)", "FF10F0FF2"},
		{"POINT EMPTY", "POINT(1 1)", "FFFFFF0F2"},
	}
	for _, c := range cases {
		a, b := MustFromModel(m(t, c.a)), MustFromModel(m(t, c.b))
		got, _ := Relate(a, b)
		if got.String() != c.want {
			t.Errorf("Relate(%s, %s) = %s, want %s", c.a, c.b, got, c.want)
		}
		rev, _ := Relate(b, a)
		if rev != got.Transpose() {
			t.Errorf("transpose mismatch for %s / %s", c.a, c.b)
		}
	}
}

func TestValidHandCases(t *testing.T) {
	cases := []struct {
		wkt  string
		rule string
	}{
		{"POLYGON((0 0,4 0,4 4,0 4,0 0))", ""},
		{"POLYGON((0 0,4 0,4 4,0 4,0 0),(1 1,2 1,2 2,1 2,1 1))", ""},
		{"POLYGON((0 0,4 0,4 4,0 4,0 0),(0 0,2 1,1 2,0 0))", ""},                                      // hole touches shell at a vertex
		{"POLYGON((0 0,4 0,4 4,0 4,0 0),(0 0,2 1,4 4,1 2,0 0))", "rings-multi-touch"},                 // hole touches shell twice -> two touch points
		{"POLYGON((0 0,4 4,4 0,0 4,0 0))", "ring-not-simple"},                                         // bow-tie
		{"POLYGON((0 0,4 0,4 4,0 4,0 0),(5 5,6 5,6 6,5 6,5 5))", "hole-outside-shell"},                // hole outside
		{"POLYGON((0 0,10 0,10 10,0 10,0 0),(1 1,9 1,9 9,1 9,1 1),(1 1,3 2,2 3,1 1))", "hole-nested"}, // F2 input
		{"POLYGON((0 0,10 0,10 10,0 10,0 0),(1 1,9 1,9 9,1 9,1 1),(3 3,4 3,4 4,3 4,3 3))", "hole-nested"},
		{"POLYGON((0 0,4 0,4 4,0 4,0 0),(2 0,4 2,2 4,0 2,2 0))", "rings-multi-touch"}, // diamond touching shell at 4 points
		{"POLYGON((0 0,6 0,6 6,0 6,0 0),(0 3,3 3,2 4,0 3),(3 3,6 3,4 2,3 3))", "interior-disconnected"},
		{"POLYGON((0 0,6 0,6 6,0 6,0 0),(0 3,3 3,2 4,0 3),(3 3,5 3,4 2,3 3))", ""},
		{"POLYGON((0 0,4 0,4 4,0 4))", "ring-not-closed"},
		{"LINESTRING(1 1,1 1)", "too-few-points"},
		{"MULTIPOLYGON(((0 0,4 0,4 4,0 4,0 0)),((4 0,8 0,8 4,4 4,4 0)))", "multipolygon-boundaries-overlap"},
		{"MULTIPOLYGON(((0 0,4 0,4 4,0 4,0 0)),((4 4,8 4,8 8,4 8,4 4)))", ""},
		{"MULTIPOLYGON(((0 0,4 0,4 4,0 4,0 0)),((2 2,8 2,8 8,2 8,2 2)))", "multipolygon-interiors-intersect"},
		{"MULTIPOLYGON(((0 0,9 0,9 9,0 9,0 0),(2 2,6 2,6 6,2 6,2 2)),((3 3,5 3,5 5,3 5,3 3)))", ""}, // island in a hole
		{"MULTIPOLYGON(((0 0,9 0,9 9,0 9,0 0)),((3 3,5 3,5 5,3 5,3 3)))", "multipolygon-interiors-intersect"},
	}
	for _, c := range cases {
		v := Valid(m(t, c.wkt))
		got := ""
		if v != nil {
			got = v.Rule
		}
		if got != c.rule {
			t.Errorf("Valid(%s) = %q, want %q (%v)", c.wkt, got, c.rule, v)
		}
	}
}

package exact

import (
	"fmt"
	"math"
	"math/big"
	"sort"
)

// Edge is a sub-edge of the arrangement (between two consecutive vertices of a segment).
type Edge struct {
	A, B Pt
	Mid  Pt
	// L, R: probes strictly inside the faces to the left / right of A->B.
	L, R Pt
}

// Face is one trapezoidal cell of the slab decomposition.
type Face struct {
	Probe Pt
	Area  *big.Rat // nil for unbounded cells
	// Clear2: squared distance from the probe to the nearest arrangement edge/vertex (nil if none)
	Clear2 *big.Rat
	// Slab index (into Arrangement.Xs: the cell spans Xs[Slab]..Xs[Slab+1]) and the
	// edges bounding it from below/above (-1: unbounded). Slab == -1 for the far probe.
	Slab           int
	LoEdge, HiEdge int
}

// Arrangement of the segments and points of one or two geometries.
type Arrangement struct {
	Verts []Pt
	Edges []Edge
	Faces []Face
	Xs    []*big.Rat // distinct vertex abscissae, sorted
	// IsoProbe[i]: a probe strictly inside the face around vertex i (for isolated vertices)
	vertKey map[string]int
	// incident edges per vertex
	Inc [][]int
	// NumProper: number of vertices that are not input vertices (proper crossings)
	Crossings int
	// Overlaps: number of collinear overlaps of positive length between segments of different operands
	Overlaps int
	// SharedVerts: input vertices of one operand lying on the other operand's skeleton
	Touches int
}

type segRec struct {
	a, b Pt
	op   int
	cuts []Pt
}

// KernelBug is panicked when an internal assertion of the kernel fails; the
// harness turns it into an inconclusive run, never a violation.
type KernelBug string

func (k KernelBug) Error() string { return "exact kernel bug: " + string(k) }

// IsHarnessBug marks the panic as an oracle failure for the harness.
func (k KernelBug) IsHarnessBug() bool { return true }

// Arrange builds the arrangement of the given geometries (operands 0, 1, ...).
func Arrange(gs ...Geom) *Arrangement {
	var segs []*segRec
	type isoPt struct {
		p  Pt
		op int
	}
	var iso []isoPt
	inputKey := map[string]bool{}
	for op, g := range gs {
		for _, s := range g.Segs() {
			if s.A.Eq(s.B) {
				continue
			}
			a, b := s.A, s.B
			if a.Cmp(b) > 0 {
				a, b = b, a
			}
			segs = append(segs, &segRec{a: a, b: b, op: op, cuts: []Pt{a, b}})
			inputKey[a.Key()] = true
			inputKey[b.Key()] = true
		}
		for _, p := range g.AllPoints() {
			iso = append(iso, isoPt{p, op})
			inputKey[p.Key()] = true
		}
	}
	ar := &Arrangement{vertKey: map[string]int{}}
	addVert := func(p Pt) int {
		k := p.Key()
		if i, ok := ar.vertKey[k]; ok {
			return i
		}
		ar.vertKey[k] = len(ar.Verts)
		ar.Verts = append(ar.Verts, p)
		ar.Inc = append(ar.Inc, nil)
		return len(ar.Verts) - 1
	}
	// pairwise intersections
	for i := 0; i < len(segs); i++ {
		si := segs[i]
		for j := i + 1; j < len(segs); j++ {
			sj := segs[j]
			// bounding box rejection (lexicographic order makes a.X <= b.X)
			if si.b.X.Cmp(sj.a.X) < 0 || sj.b.X.Cmp(si.a.X) < 0 {
				continue
			}
			in := Intersect(si.a, si.b, sj.a, sj.b)
			switch in.Kind {
			case 1:
				si.cuts = append(si.cuts, in.P)
				sj.cuts = append(sj.cuts, in.P)
				if si.op != sj.op {
					if !inputKey[in.P.Key()] {
						ar.Crossings++
					} else {
						ar.Touches++
					}
				}
			case 2:
				si.cuts = append(si.cuts, in.P, in.Q)
				sj.cuts = append(sj.cuts, in.P, in.Q)
				if si.op != sj.op {
					ar.Overlaps++
				}
			}
		}
	}
	for _, ip := range iso {
		addVert(ip.p)
		for _, s := range segs {
			if OnSegment(ip.p, s.a, s.b) {
				s.cuts = append(s.cuts, ip.p)
				if s.op != ip.op {
					ar.Touches++
				}
			}
		}
	}
	// sub-edges
	edgeSeen := map[string]bool{}
	type rawEdge struct{ a, b Pt }
	var raw []rawEdge
	for _, s := range segs {
		sort.Slice(s.cuts, func(i, j int) bool { return s.cuts[i].Cmp(s.cuts[j]) < 0 })
		var prev *Pt
		for k := range s.cuts {
			c := s.cuts[k]
			if prev != nil && prev.Eq(c) {
				continue
			}
			if prev != nil {
				key := prev.Key() + "|" + c.Key()
				if !edgeSeen[key] {
					edgeSeen[key] = true
					raw = append(raw, rawEdge{*prev, c})
				}
			}
			cc := c
			prev = &cc
		}
	}
	for _, e := range raw {
		ia, ib := addVert(e.a), addVert(e.b)
		idx := len(ar.Edges)
		ar.Edges = append(ar.Edges, Edge{A: e.a, B: e.b, Mid: Mid(e.a, e.b)})
		ar.Inc[ia] = append(ar.Inc[ia], idx)
		ar.Inc[ib] = append(ar.Inc[ib], idx)
	}
	ar.buildFaces()
	ar.buildEdgeProbes()
	return ar
}

// yAt: ordinate of the (non-vertical) edge at abscissa x.
func yAt(e Edge, x *big.Rat) *big.Rat {
	t := quo(sub(x, e.A.X), sub(e.B.X, e.A.X))
	return add(e.A.Y, mul(t, sub(e.B.Y, e.A.Y)))
}

func (ar *Arrangement) buildFaces() {
	if len(ar.Verts) == 0 {
		ar.Faces = append(ar.Faces, Face{Probe: P(0, 0), Slab: -1, LoEdge: -1, HiEdge: -1})
		return
	}
	xsMap := map[string]*big.Rat{}
	for _, v := range ar.Verts {
		xsMap[v.X.RatString()] = v.X
	}
	var xs []*big.Rat
	for _, x := range xsMap {
		xs = append(xs, x)
	}
	sort.Slice(xs, func(i, j int) bool { return xs[i].Cmp(xs[j]) < 0 })
	ar.Xs = xs
	// far exterior probe
	ar.Faces = append(ar.Faces, Face{Probe: Pt{sub(xs[0], ratOne), new(big.Rat).Set(ar.Verts[0].Y)}, Slab: -1, LoEdge: -1, HiEdge: -1})
	for i := 0; i+1 < len(xs); i++ {
		x0, x1 := xs[i], xs[i+1]
		xm := mul(add(x0, x1), ratHalf)
		width := sub(x1, x0)
		type act struct {
			y *big.Rat
			e int
		}
		var ys []act
		for ei, e := range ar.Edges {
			if e.A.X.Cmp(e.B.X) == 0 {
				continue // vertical
			}
			if e.A.X.Cmp(x0) <= 0 && e.B.X.Cmp(x1) >= 0 {
				ys = append(ys, act{yAt(e, xm), ei})
			}
		}
		sort.Slice(ys, func(a, b int) bool { return ys[a].y.Cmp(ys[b].y) < 0 })
		for k := 0; k+1 < len(ys); k++ {
			if ys[k].y.Cmp(ys[k+1].y) == 0 {
				panic(KernelBug(fmt.Sprintf("two sub-edges coincide inside slab %s..%s", x0.RatString(), x1.RatString())))
			}
		}
		if len(ys) == 0 {
			ar.Faces = append(ar.Faces, Face{Probe: Pt{xm, new(big.Rat).Set(ar.Verts[0].Y)}, Slab: i, LoEdge: -1, HiEdge: -1})
			continue
		}
		ar.Faces = append(ar.Faces, Face{Probe: Pt{xm, sub(ys[0].y, ratOne)}, Slab: i, LoEdge: -1, HiEdge: ys[0].e})
		ar.Faces = append(ar.Faces, Face{Probe: Pt{xm, add(ys[len(ys)-1].y, ratOne)}, Slab: i, LoEdge: ys[len(ys)-1].e, HiEdge: -1})
		for k := 0; k+1 < len(ys); k++ {
			gap := sub(ys[k+1].y, ys[k].y)
			ar.Faces = append(ar.Faces, Face{
				Probe:  Pt{xm, mul(add(ys[k].y, ys[k+1].y), ratHalf)},
				Area:   mul(width, gap),
				Slab:   i,
				LoEdge: ys[k].e, HiEdge: ys[k+1].e,
			})
		}
	}
}

// clear2 returns the squared distance from p to the nearest edge or vertex,
// skipping edges/vertices for which skip returns true. nil if nothing remains.
func (ar *Arrangement) clear2(p Pt, skipEdge func(i int) bool, skipVert func(i int) bool) *big.Rat {
	var best *big.Rat
	for i, e := range ar.Edges {
		if skipEdge != nil && skipEdge(i) {
			continue
		}
		d := PointSegDist2(p, e.A, e.B)
		if best == nil || d.Cmp(best) < 0 {
			best = d
		}
	}
	for i, v := range ar.Verts {
		if skipVert != nil && skipVert(i) {
			continue
		}
		if len(ar.Inc[i]) > 0 {
			continue // covered by its edges
		}
		d := Dist2(p, v)
		if best == nil || d.Cmp(best) < 0 {
			best = d
		}
	}
	return best
}

// FaceClearance fills Face.Clear2 for every face (lazily computed by callers that need it).
func (ar *Arrangement) FaceClearance() {
	for i := range ar.Faces {
		if ar.Faces[i].Clear2 == nil {
			ar.Faces[i].Clear2 = ar.clear2(ar.Faces[i].Probe, nil, nil)
		}
	}
}

// epsFor returns eps = 2^-k with eps^2 * n2 < d2/4.
func epsFor(d2, n2 *big.Rat) *big.Rat {
	eps := big.NewRat(1, 1)
	lim := mul(d2, big.NewRat(1, 4))
	for {
		v := mul(mul(eps, eps), n2)
		if v.Cmp(lim) < 0 {
			return eps
		}
		eps.Mul(eps, ratHalf)
	}
}

func (ar *Arrangement) buildEdgeProbes() {
	for i := range ar.Edges {
		e := &ar.Edges[i]
		dx, dy := sub(e.B.X, e.A.X), sub(e.B.Y, e.A.Y)
		nx, ny := new(big.Rat).Neg(dy), dx // left normal
		n2 := add(mul(nx, nx), mul(ny, ny))
		ia, ib := ar.vertKey[e.A.Key()], ar.vertKey[e.B.Key()]
		// distance from the midpoint to everything except this edge; the
		// edge's end vertices are at distance |e|/2, included via other
		// incident edges or explicitly below.
		d2 := ar.clear2(e.Mid, func(k int) bool { return k == i }, func(k int) bool { return k == ia || k == ib })
		half2 := Dist2(e.Mid, e.A)
		if d2 == nil || half2.Cmp(d2) < 0 {
			d2 = half2
		}
		eps := epsFor(d2, n2)
		e.L = Pt{add(e.Mid.X, mul(eps, nx)), add(e.Mid.Y, mul(eps, ny))}
		e.R = Pt{sub(e.Mid.X, mul(eps, nx)), sub(e.Mid.Y, mul(eps, ny))}
	}
}

// VertexProbe returns a point strictly inside the face surrounding an isolated
// vertex (one without incident edges).
func (ar *Arrangement) VertexProbe(i int) Pt {
	v := ar.Verts[i]
	d2 := ar.clear2(v, nil, func(k int) bool { return k == i })
	if d2 == nil {
		return Pt{add(v.X, ratOne), new(big.Rat).Set(v.Y)}
	}
	eps := epsFor(d2, ratOne)
	return Pt{add(v.X, eps), new(big.Rat).Set(v.Y)}
}

// MinClearanceFloat estimates (in float64) the minimum distance between any
// arrangement vertex and any edge not incident to it / any other vertex.
func (ar *Arrangement) MinClearanceFloat() float64 {
	best := -1.0
	type fp struct{ x, y float64 }
	vf := make([]fp, len(ar.Verts))
	for i, v := range ar.Verts {
		vf[i].x, vf[i].y = v.Floats()
	}
	type fe struct{ ax, ay, bx, by float64 }
	ef := make([]fe, len(ar.Edges))
	for i, e := range ar.Edges {
		ef[i].ax, ef[i].ay = e.A.Floats()
		ef[i].bx, ef[i].by = e.B.Floats()
	}
	upd := func(d float64) {
		if best < 0 || d < best {
			best = d
		}
	}
	for i := range vf {
		inc := map[int]bool{}
		for _, k := range ar.Inc[i] {
			inc[k] = true
		}
		for k, e := range ef {
			if inc[k] {
				continue
			}
			upd(pointSegDistF(vf[i].x, vf[i].y, e.ax, e.ay, e.bx, e.by))
		}
		for j := i + 1; j < len(vf); j++ {
			dx, dy := vf[i].x-vf[j].x, vf[i].y-vf[j].y
			upd(hyp(dx, dy))
		}
	}
	return best
}

func hyp(dx, dy float64) float64 { return math.Hypot(dx, dy) }

func pointSegDistF(px, py, ax, ay, bx, by float64) float64 {
	dx, dy := bx-ax, by-ay
	l2 := dx*dx + dy*dy
	if l2 == 0 {
		return hyp(px-ax, py-ay)
	}
	t := ((px-ax)*dx + (py-ay)*dy) / l2
	if t < 0 {
		t = 0
	} else if t > 1 {
		t = 1
	}
	return hyp(px-(ax+t*dx), py-(ay+t*dy))
}

// Magnitude is the largest absolute ordinate among the vertices (float).
func (ar *Arrangement) Magnitude() float64 {
	m := 0.0
	for _, v := range ar.Verts {
		x, y := v.Floats()
		if x < 0 {
			x = -x
		}
		if y < 0 {
			y = -y
		}
		if x > m {
			m = x
		}
		if y > m {
			m = y
		}
	}
	return m
}

// Package gm is the harness-side geometry model: a plain value tree that can be
// serialised losslessly (all float64 bit patterns), converted to geom.Geometry
// through the public constructors only, and read back through public accessors.
package gm

import (
	"encoding/json"
	"fmt"
	"math"
	"strconv"
	"strings"

	"github.com/peterstace/simplefeatures/geom"
)

// F is a float64 that survives JSON (NaN payloads, infinities, -0).
type F float64

func (f F) MarshalJSON() ([]byte, error) {
	v := float64(f)
	switch {
	case math.IsNaN(v):
		return []byte(fmt.Sprintf("\"nan:%016x\"", math.Float64bits(v))), nil
	case math.IsInf(v, 1):
		return []byte("\"inf\""), nil
	case math.IsInf(v, -1):
		return []byte("\"-inf\""), nil
	}
	return []byte(strconv.FormatFloat(v, 'g', -1, 64)), nil
}

func (f *F) UnmarshalJSON(b []byte) error {
	s := string(b)
	if strings.HasPrefix(s, "\"") {
		s = strings.Trim(s, "\"")
		switch {
		case s == "inf":
			*f = F(math.Inf(1))
		case s == "-inf":
			*f = F(math.Inf(-1))
		case strings.HasPrefix(s, "nan:"):
			u, err := strconv.ParseUint(s[4:], 16, 64)
			if err != nil {
				return err
			}
			*f = F(math.Float64frombits(u))
		default:
			return fmt.Errorf("bad float %q", s)
		}
		return nil
	}
	v, err := strconv.ParseFloat(s, 64)
	if err != nil {
		return err
	}
	*f = F(v)
	return nil
}

const (
	Point              = "Point"
	LineString         = "LineString"
	Polygon            = "Polygon"
	MultiPoint         = "MultiPoint"
	MultiLineString    = "MultiLineString"
	MultiPolygon       = "MultiPolygon"
	GeometryCollection = "GeometryCollection"
)

var Types = []string{Point, LineString, Polygon, MultiPoint, MultiLineString, MultiPolygon, GeometryCollection}

// G is a geometry model. Invariant kept by the generators: all members/rings
// share the parent's CT.
type G struct {
	T     string `json:"t"`
	CT    int    `json:"ct"`              // 0 XY, 1 XYZ, 2 XYM, 3 XYZM (== geom.CoordinatesType)
	Co    []F    `json:"co,omitempty"`    // Point (one position or none = empty), LineString (flat)
	Rings [][]F  `json:"rings,omitempty"` // Polygon
	Mem   []G    `json:"mem,omitempty"`   // Multi*, GeometryCollection
	// Zero: build as the Go zero value of the concrete type (T) or, with
	// T == "Geometry", as geom.Geometry{}. CT must be 0.
	Zero bool `json:"zero,omitempty"`
}

func Dim(ct int) int { return [4]int{2, 3, 3, 4}[ct] }

var ctNames = [4]string{"XY", "XYZ", "XYM", "XYZM"}

func CTName(ct int) string { return ctNames[ct] }

func floats(fs []F) []float64 {
	out := make([]float64, len(fs))
	for i, f := range fs {
		out[i] = float64(f)
	}
	return out
}

func Fs(fs ...float64) []F {
	out := make([]F, len(fs))
	for i, f := range fs {
		out[i] = F(f)
	}
	return out
}

func coordsAt(fs []F, i, ct int) geom.Coordinates {
	d := Dim(ct)
	c := geom.Coordinates{Type: geom.CoordinatesType(ct)}
	c.X, c.Y = float64(fs[i*d]), float64(fs[i*d+1])
	switch ct {
	case 1:
		c.Z = float64(fs[i*d+2])
	case 2:
		c.M = float64(fs[i*d+2])
	case 3:
		c.Z, c.M = float64(fs[i*d+2]), float64(fs[i*d+3])
	}
	return c
}

// ToGeom builds the library value through public constructors, no validation.
func (g G) ToGeom() geom.Geometry {
	ct := geom.CoordinatesType(g.CT)
	if g.Zero {
		switch g.T {
		case "Geometry":
			return geom.Geometry{}
		case Point:
			return geom.Point{}.AsGeometry()
		case LineString:
			return geom.LineString{}.AsGeometry()
		case Polygon:
			return geom.Polygon{}.AsGeometry()
		case MultiPoint:
			return geom.MultiPoint{}.AsGeometry()
		case MultiLineString:
			return geom.MultiLineString{}.AsGeometry()
		case MultiPolygon:
			return geom.MultiPolygon{}.AsGeometry()
		case GeometryCollection:
			return geom.GeometryCollection{}.AsGeometry()
		}
	}
	switch g.T {
	case Point:
		return g.toPoint().AsGeometry()
	case LineString:
		return g.toLineString().AsGeometry()
	case Polygon:
		return g.toPolygon().AsGeometry()
	case MultiPoint:
		if len(g.Mem) == 0 {
			return geom.MultiPoint{}.ForceCoordinatesType(ct).AsGeometry()
		}
		pts := make([]geom.Point, len(g.Mem))
		for i, m := range g.Mem {
			pts[i] = m.toPoint()
		}
		return geom.NewMultiPoint(pts).AsGeometry()
	case MultiLineString:
		if len(g.Mem) == 0 {
			return geom.MultiLineString{}.ForceCoordinatesType(ct).AsGeometry()
		}
		ls := make([]geom.LineString, len(g.Mem))
		for i, m := range g.Mem {
			ls[i] = m.toLineString()
		}
		return geom.NewMultiLineString(ls).AsGeometry()
	case MultiPolygon:
		if len(g.Mem) == 0 {
			return geom.MultiPolygon{}.ForceCoordinatesType(ct).AsGeometry()
		}
		ps := make([]geom.Polygon, len(g.Mem))
		for i, m := range g.Mem {
			ps[i] = m.toPolygon()
		}
		return geom.NewMultiPolygon(ps).AsGeometry()
	case GeometryCollection:
		if len(g.Mem) == 0 {
			return geom.GeometryCollection{}.ForceCoordinatesType(ct).AsGeometry()
		}
		gs := make([]geom.Geometry, len(g.Mem))
		for i, m := range g.Mem {
			gs[i] = m.ToGeom()
		}
		return geom.NewGeometryCollection(gs).AsGeometry()
	}
	panic("gm: bad type " + g.T)
}

func (g G) toPoint() geom.Point {
	if len(g.Co) == 0 {
		return geom.NewEmptyPoint(geom.CoordinatesType(g.CT))
	}
	return geom.NewPoint(coordsAt(g.Co, 0, g.CT))
}

func (g G) toLineString() geom.LineString {
	return geom.NewLineString(geom.NewSequence(floats(g.Co), geom.CoordinatesType(g.CT)))
}

func (g G) toPolygon() geom.Polygon {
	ct := geom.CoordinatesType(g.CT)
	if len(g.Rings) == 0 {
		return geom.Polygon{}.ForceCoordinatesType(ct)
	}
	rings := make([]geom.LineString, len(g.Rings))
	for i, r := range g.Rings {
		rings[i] = geom.NewLineString(geom.NewSequence(floats(r), ct))
	}
	return geom.NewPolygon(rings)
}

func seqFloats(s geom.Sequence) []F {
	n := s.Length()
	ct := s.CoordinatesType()
	out := make([]F, 0, n*ct.Dimension())
	for i := 0; i < n; i++ {
		out = appendCoords(out, s.Get(i), ct)
	}
	return out
}

func appendCoords(out []F, c geom.Coordinates, ct geom.CoordinatesType) []F {
	out = append(out, F(c.X), F(c.Y))
	if ct.Is3D() {
		out = append(out, F(c.Z))
	}
	if ct.IsMeasured() {
		out = append(out, F(c.M))
	}
	return out
}

// FromGeom reads a library geometry through public accessors. The CT recorded at
// every level is what that level itself reports.
func FromGeom(g geom.Geometry) G {
	switch g.Type() {
	case geom.TypePoint:
		return fromPoint(g.MustAsPoint())
	case geom.TypeLineString:
		return fromLineString(g.MustAsLineString())
	case geom.TypePolygon:
		return fromPolygon(g.MustAsPolygon())
	case geom.TypeMultiPoint:
		mp := g.MustAsMultiPoint()
		out := G{T: MultiPoint, CT: int(mp.CoordinatesType())}
		for i := 0; i < mp.NumPoints(); i++ {
			out.Mem = append(out.Mem, fromPoint(mp.PointN(i)))
		}
		return out
	case geom.TypeMultiLineString:
		m := g.MustAsMultiLineString()
		out := G{T: MultiLineString, CT: int(m.CoordinatesType())}
		for i := 0; i < m.NumLineStrings(); i++ {
			out.Mem = append(out.Mem, fromLineString(m.LineStringN(i)))
		}
		return out
	case geom.TypeMultiPolygon:
		m := g.MustAsMultiPolygon()
		out := G{T: MultiPolygon, CT: int(m.CoordinatesType())}
		for i := 0; i < m.NumPolygons(); i++ {
			out.Mem = append(out.Mem, fromPolygon(m.PolygonN(i)))
		}
		return out
	case geom.TypeGeometryCollection:
		c := g.MustAsGeometryCollection()
		out := G{T: GeometryCollection, CT: int(c.CoordinatesType())}
		for i := 0; i < c.NumGeometries(); i++ {
			out.Mem = append(out.Mem, FromGeom(c.GeometryN(i)))
		}
		return out
	}
	panic("gm: unknown geometry type")
}

func fromPoint(p geom.Point) G {
	out := G{T: Point, CT: int(p.CoordinatesType())}
	if c, ok := p.Coordinates(); ok {
		out.Co = appendCoords(nil, c, p.CoordinatesType())
	}
	return out
}

func fromLineString(l geom.LineString) G {
	return G{T: LineString, CT: int(l.CoordinatesType()), Co: seqFloats(l.Coordinates())}
}

func fromPolygon(p geom.Polygon) G {
	out := G{T: Polygon, CT: int(p.CoordinatesType())}
	if p.IsEmpty() {
		return out
	}
	out.Rings = append(out.Rings, seqFloats(p.ExteriorRing().Coordinates()))
	for i := 0; i < p.NumInteriorRings(); i++ {
		out.Rings = append(out.Rings, seqFloats(p.InteriorRingN(i).Coordinates()))
	}
	return out
}

func bitsEq(a, b []F) bool {
	if len(a) != len(b) {
		return false
	}
	for i := range a {
		if math.Float64bits(float64(a[i])) != math.Float64bits(float64(b[i])) {
			return false
		}
	}
	return true
}

// Equal: same type, coordinate type at every level, structure, and bit-identical
// ordinates. Zero-value models compare as their explicit empty equivalents.
func Equal(a, b G) bool { return Diff(a, b) == "" }

// Norm replaces Zero models by their explicit empty equivalent.
func (g G) Norm() G {
	if g.Zero {
		t := g.T
		if t == "Geometry" {
			t = GeometryCollection
		}
		return G{T: t}
	}
	return g
}

// Diff describes the first structural difference, "" if none.
func Diff(a, b G) string {
	a, b = a.Norm(), b.Norm()
	if a.T != b.T {
		return fmt.Sprintf("type %s vs %s", a.T, b.T)
	}
	if a.CT != b.CT {
		return fmt.Sprintf("%s: coordinate type %s vs %s", a.T, ctNames[a.CT], ctNames[b.CT])
	}
	if !bitsEq(a.Co, b.Co) {
		return fmt.Sprintf("%s: ordinates %v vs %v", a.T, a.Co, b.Co)
	}
	if len(a.Rings) != len(b.Rings) {
		return fmt.Sprintf("%s: %d rings vs %d", a.T, len(a.Rings), len(b.Rings))
	}
	for i := range a.Rings {
		if !bitsEq(a.Rings[i], b.Rings[i]) {
			return fmt.Sprintf("%s ring %d: ordinates %v vs %v", a.T, i, a.Rings[i], b.Rings[i])
		}
	}
	if len(a.Mem) != len(b.Mem) {
		return fmt.Sprintf("%s: %d members vs %d", a.T, len(a.Mem), len(b.Mem))
	}
	for i := range a.Mem {
		if d := Diff(a.Mem[i], b.Mem[i]); d != "" {
			return fmt.Sprintf("%s member %d: %s", a.T, i, d)
		}
	}
	return ""
}

// IsEmpty: contains no position at all.
func (g G) IsEmpty() bool {
	if g.Zero {
		return true
	}
	if len(g.Co) > 0 {
		return false
	}
	for _, r := range g.Rings {
		if len(r) > 0 {
			return false
		}
	}
	for _, m := range g.Mem {
		if !m.IsEmpty() {
			return false
		}
	}
	return true
}

// Depth is the nesting depth (a non-collection is 1).
func (g G) Depth() int {
	d := 0
	for _, m := range g.Mem {
		if md := m.Depth(); md > d {
			d = md
		}
	}
	return d + 1
}

// Walk calls fn on every node (pre-order).
func (g G) Walk(fn func(G)) {
	fn(g)
	for _, m := range g.Mem {
		m.Walk(fn)
	}
}

// AllOrdinates returns every ordinate in the tree.
func (g G) AllOrdinates() []F {
	var out []F
	g.Walk(func(n G) {
		out = append(out, n.Co...)
		for _, r := range n.Rings {
			out = append(out, r...)
		}
	})
	return out
}

// NumPositions counts positions.
func (g G) NumPositions() int {
	n := 0
	g.Walk(func(x G) {
		d := Dim(x.CT)
		n += len(x.Co) / d
		for _, r := range x.Rings {
			n += len(r) / d
		}
	})
	return n
}

// MapOrdinates returns a deep copy with fn applied to every position
// (fn receives and returns a slice of Dim(ct) values).
func (g G) MapPositions(fn func(pos []F, ct int) []F) G {
	out := g
	d := Dim(g.CT)
	mapFlat := func(fs []F) []F {
		if fs == nil {
			return nil
		}
		res := make([]F, 0, len(fs))
		for i := 0; i+d <= len(fs); i += d {
			res = append(res, fn(append([]F(nil), fs[i:i+d]...), g.CT)...)
		}
		return res
	}
	out.Co = mapFlat(g.Co)
	if g.Rings != nil {
		out.Rings = make([][]F, len(g.Rings))
		for i, r := range g.Rings {
			out.Rings[i] = mapFlat(r)
		}
	}
	if g.Mem != nil {
		out.Mem = make([]G, len(g.Mem))
		for i, m := range g.Mem {
			out.Mem[i] = m.MapPositions(fn)
		}
	}
	return out
}

// Clone is a deep copy.
func (g G) Clone() G {
	return g.MapPositions(func(p []F, ct int) []F { return p })
}

func fmtF(f F) string {
	v := float64(f)
	if math.IsNaN(v) {
		return "NaN"
	}
	if math.IsInf(v, 0) {
		if v > 0 {
			return "Inf"
		}
		return "-Inf"
	}
	return strconv.FormatFloat(v, 'g', -1, 64)
}

func seqText(fs []F, ct int) string {
	d := Dim(ct)
	var sb strings.Builder
	if len(fs) == 0 {
		return "EMPTY" // an empty ring inside a non-empty polygon
	}
	sb.WriteByte('(')
	for i := 0; i+d <= len(fs); i += d {
		if i > 0 {
			sb.WriteByte(',')
		}
		for j := 0; j < d; j++ {
			if j > 0 {
				sb.WriteByte(' ')
			}
			sb.WriteString(fmtF(fs[i+j]))
		}
	}
	sb.WriteByte(')')
	return sb.String()
}

// String is a WKT-like rendering for messages and samples (not an oracle).
func (g G) String() string {
	if g.Zero {
		return "zero(" + g.T + ")"
	}
	tag := strings.ToUpper(g.T)
	if g.CT != 0 {
		tag += " " + ctNames[g.CT][2:]
	}
	return tag + " " + g.body()
}

func (g G) body() string {
	switch g.T {
	case Point, LineString:
		if len(g.Co) == 0 {
			return "EMPTY"
		}
		return seqText(g.Co, g.CT)
	case Polygon:
		if len(g.Rings) == 0 {
			return "EMPTY"
		}
		parts := make([]string, len(g.Rings))
		for i, r := range g.Rings {
			parts[i] = seqText(r, g.CT)
		}
		return "(" + strings.Join(parts, ",") + ")"
	case GeometryCollection:
		if len(g.Mem) == 0 {
			return "EMPTY"
		}
		parts := make([]string, len(g.Mem))
		for i, m := range g.Mem {
			parts[i] = m.String()
		}
		return "(" + strings.Join(parts, ",") + ")"
	default:
		if len(g.Mem) == 0 {
			return "EMPTY"
		}
		parts := make([]string, len(g.Mem))
		for i, m := range g.Mem {
			parts[i] = m.body()
		}
		return "(" + strings.Join(parts, ",") + ")"
	}
}

func (g G) JSON() string {
	b, _ := json.Marshal(g)
	return string(b)
}

// Package apienum treats the public read API of package geom as data: it
// enumerates exported methods by reflection, lists the free functions in a
// table, synthesises arguments per parameter type from a pool of geometries and
// a stream of small integers, and renders results canonically so that they can
// be compared bit for bit.
package apienum

import (
	"encoding/hex"
	"fmt"
	"math"
	"reflect"
	"sort"
	"strings"

	"github.com/peterstace/simplefeatures/geom"
)

// Call is one callable: a bound method or a free function.
type Call struct {
	Name string
	Fn   reflect.Value
	// Recv is the receiver (invalid for free functions); used to find valid indices.
	Recv reflect.Value
}

// Result of invoking a call.
type Result struct {
	Name     string
	Skipped  string // non-empty: not invoked (documented precondition cannot be met)
	Panic    interface{}
	Out      []reflect.Value
	ArgsRepr string
}

var (
	tGeometry = reflect.TypeOf(geom.Geometry{})
	tPoint    = reflect.TypeOf(geom.Point{})
	tLS       = reflect.TypeOf(geom.LineString{})
	tPoly     = reflect.TypeOf(geom.Polygon{})
	tMP       = reflect.TypeOf(geom.MultiPoint{})
	tMLS      = reflect.TypeOf(geom.MultiLineString{})
	tMPoly    = reflect.TypeOf(geom.MultiPolygon{})
	tGC       = reflect.TypeOf(geom.GeometryCollection{})
	tEnv      = reflect.TypeOf(geom.Envelope{})
	tSeq      = reflect.TypeOf(geom.Sequence{})
	tXY       = reflect.TypeOf(geom.XY{})
	tCT       = reflect.TypeOf(geom.CoordinatesType(0))
	tCoords   = reflect.TypeOf(geom.Coordinates{})
	tErr      = reflect.TypeOf((*error)(nil)).Elem()
	tFnXY     = reflect.TypeOf(func(geom.XY) geom.XY { return geom.XY{} })
	tBytes    = reflect.TypeOf([]byte(nil))
	tNullGeom = reflect.TypeOf(geom.NullGeometry{})
)

// Receivers returns the values whose method sets are enumerated for g: the
// Geometry itself, its concrete type, its envelope, and (for line strings) its sequence.
func Receivers(g geom.Geometry) []reflect.Value {
	out := []reflect.Value{reflect.ValueOf(g)}
	switch g.Type() {
	case geom.TypePoint:
		out = append(out, reflect.ValueOf(g.MustAsPoint()))
	case geom.TypeLineString:
		out = append(out, reflect.ValueOf(g.MustAsLineString()), reflect.ValueOf(g.MustAsLineString().Coordinates()))
	case geom.TypePolygon:
		out = append(out, reflect.ValueOf(g.MustAsPolygon()))
	case geom.TypeMultiPoint:
		out = append(out, reflect.ValueOf(g.MustAsMultiPoint()))
	case geom.TypeMultiLineString:
		out = append(out, reflect.ValueOf(g.MustAsMultiLineString()))
	case geom.TypeMultiPolygon:
		out = append(out, reflect.ValueOf(g.MustAsMultiPolygon()))
	case geom.TypeGeometryCollection:
		out = append(out, reflect.ValueOf(g.MustAsGeometryCollection()))
	}
	out = append(out, reflect.ValueOf(g.Envelope()))
	return out
}

// Methods lists the exported value-receiver methods of recv, sorted by name.
func Methods(recv reflect.Value) []Call {
	t := recv.Type()
	var out []Call
	for i := 0; i < t.NumMethod(); i++ {
		m := t.Method(i)
		out = append(out, Call{Name: t.Name() + "." + m.Name, Fn: recv.Method(i), Recv: recv})
	}
	sort.Slice(out, func(i, j int) bool { return out[i].Name < out[j].Name })
	return out
}

// Funcs is the table of exported free functions taking geometries.
func Funcs() []Call {
	f := func(name string, fn interface{}) Call { return Call{Name: "func " + name, Fn: reflect.ValueOf(fn)} }
	return []Call{
		f("Union", geom.Union), f("Intersection", geom.Intersection), f("Difference", geom.Difference),
		f("SymmetricDifference", geom.SymmetricDifference), f("UnaryUnion", geom.UnaryUnion), f("UnionMany", geom.UnionMany),
		f("Relate", geom.Relate), f("Equals", geom.Equals), f("Disjoint", geom.Disjoint), f("Touches", geom.Touches),
		f("Contains", geom.Contains), f("Covers", geom.Covers), f("Within", geom.Within), f("CoveredBy", geom.CoveredBy),
		f("Crosses", geom.Crosses), f("Overlaps", geom.Overlaps), f("Intersects", geom.Intersects), f("Distance", geom.Distance),
		f("ExactEquals", geom.ExactEquals),
		f("RotatedMinimumAreaBoundingRectangle", geom.RotatedMinimumAreaBoundingRectangle),
		f("RotatedMinimumWidthBoundingRectangle", geom.RotatedMinimumWidthBoundingRectangle),
		f("MarshalTWKB", geom.MarshalTWKB),
		f("NewGeometryCollection", geom.NewGeometryCollection), f("NewMultiPoint", geom.NewMultiPoint),
		f("NewMultiLineString", geom.NewMultiLineString), f("NewMultiPolygon", geom.NewMultiPolygon),
		f("NewPolygon", geom.NewPolygon), f("NewLineString", geom.NewLineString),
	}
}

// FuncNames returns the names covered by Funcs (for the uncovered-API report).
func FuncNames() map[string]bool {
	m := map[string]bool{}
	for _, c := range Funcs() {
		m[strings.TrimPrefix(c.Name, "func ")] = true
	}
	return m
}

// Args is the argument source: a pool of geometries and a stream of small integers.
type Args struct {
	Pool []geom.Geometry
	Ints []int
	gi   int
	ii   int
}

func (a *Args) nextGeom() geom.Geometry {
	if len(a.Pool) == 0 {
		return geom.Geometry{}
	}
	g := a.Pool[a.gi%len(a.Pool)]
	a.gi++
	return g
}

func (a *Args) nextInt() int {
	if len(a.Ints) == 0 {
		return 0
	}
	v := a.Ints[a.ii%len(a.Ints)]
	a.ii++
	if v < 0 {
		v = -v
	}
	return v
}

// concrete returns a value of concrete type t taken from the pool (first match
// from the current position), else the zero value of t.
func (a *Args) concrete(t reflect.Type) reflect.Value {
	for k := 0; k < len(a.Pool); k++ {
		g := a.Pool[(a.gi+k)%len(a.Pool)]
		var v interface{}
		switch {
		case t == tPoint && g.IsPoint():
			v = g.MustAsPoint()
		case t == tLS && g.IsLineString():
			v = g.MustAsLineString()
		case t == tPoly && g.IsPolygon():
			v = g.MustAsPolygon()
		case t == tMP && g.IsMultiPoint():
			v = g.MustAsMultiPoint()
		case t == tMLS && g.IsMultiLineString():
			v = g.MustAsMultiLineString()
		case t == tMPoly && g.IsMultiPolygon():
			v = g.MustAsMultiPolygon()
		case t == tGC && g.IsGeometryCollection():
			v = g.MustAsGeometryCollection()
		}
		if v != nil {
			a.gi += k + 1
			return reflect.ValueOf(v)
		}
	}
	return reflect.Zero(t)
}

func affine(p geom.XY) geom.XY { return geom.XY{X: 2*p.X - p.Y + 1, Y: p.X + p.Y - 2} }

var indexCount = map[string]string{
	"PointN": "NumPoints", "LineStringN": "NumLineStrings", "PolygonN": "NumPolygons", "GeometryN": "NumGeometries",
	"InteriorRingN": "NumInteriorRings", "Get": "Length", "GetXY": "Length",
}

// Invoke synthesises arguments and calls c, recovering panics.
func Invoke(c Call, a *Args) (res Result) {
	res.Name = c.Name
	ft := c.Fn.Type()
	short := c.Name[strings.LastIndexAny(c.Name, ". ")+1:]
	var in []reflect.Value
	var reprs []string
	for i := 0; i < ft.NumIn(); i++ {
		pt := ft.In(i)
		if ft.IsVariadic() && i == ft.NumIn()-1 {
			// options: none, except IgnoreOrder for ExactEquals every other time
			if short == "ExactEquals" && a.nextInt()%2 == 1 {
				in = append(in, reflect.ValueOf(geom.ExactEqualsOption(geom.IgnoreOrder)))
				reprs = append(reprs, "IgnoreOrder")
			}
			break
		}
		var v reflect.Value
		switch {
		case pt == tGeometry:
			v = reflect.ValueOf(a.nextGeom())
		case pt == tPoint || pt == tLS || pt == tPoly || pt == tMP || pt == tMLS || pt == tMPoly || pt == tGC:
			v = a.concrete(pt)
		case pt == tEnv:
			v = reflect.ValueOf(a.nextGeom().Envelope())
		case pt == tSeq:
			lv := a.concrete(tLS).Interface().(geom.LineString)
			v = reflect.ValueOf(lv.Coordinates())
		case pt == tCT:
			v = reflect.ValueOf(geom.CoordinatesType(a.nextInt() % 4))
		case pt == tXY:
			v = reflect.ValueOf(geom.XY{X: float64(a.nextInt()%7) - 2, Y: float64(a.nextInt()%5) - 1})
		case pt == tCoords:
			v = reflect.ValueOf(geom.Coordinates{XY: geom.XY{X: float64(a.nextInt() % 5), Y: 1}, Type: geom.DimXY})
		case pt == tFnXY:
			v = reflect.ValueOf(affine)
		case pt == tBytes:
			v = reflect.ValueOf([]byte("x("))
		case pt.Kind() == reflect.Int:
			switch {
			case indexCount[short] != "" && c.Recv.IsValid():
				cm := c.Recv.MethodByName(indexCount[short])
				if !cm.IsValid() {
					res.Skipped = "no count method"
					return
				}
				n := int(cm.Call(nil)[0].Int())
				if n == 0 {
					res.Skipped = "index out of range is a documented panic; no valid index exists"
					return
				}
				v = reflect.ValueOf(a.nextInt() % n)
			case short == "Slice":
				n := int(c.Recv.MethodByName("Length").Call(nil)[0].Int())
				lo := a.nextInt() % (n + 1)
				if i == 0 {
					v = reflect.ValueOf(lo)
				} else {
					prev := int(in[0].Int())
					v = reflect.ValueOf(prev + a.nextInt()%(n-prev+1))
				}
			case short == "SnapToGrid":
				v = reflect.ValueOf(a.nextInt()%6 - 2)
			case short == "MarshalTWKB":
				v = reflect.ValueOf(a.nextInt()%4 - 1)
			default:
				v = reflect.ValueOf(a.nextInt() % 5)
			}
		case pt.Kind() == reflect.Float64:
			switch short {
			case "Densify":
				// relative to the receiver's extent: an absolute distance on a geometry millions of units wide
				// asks for millions of points (a slow, memory-hungry call, not a defect)
				d := 0.5 + float64(a.nextInt()%4)
				if c.Recv.IsValid() {
					if em := c.Recv.MethodByName("Envelope"); em.IsValid() && em.Type().NumIn() == 0 {
						if env, ok := em.Call(nil)[0].Interface().(geom.Envelope); ok {
							if ext := env.Width() + env.Height(); ext > 16 {
								d *= ext / 16
							}
						}
					}
				}
				v = reflect.ValueOf(d)
			case "Simplify":
				v = reflect.ValueOf(float64(a.nextInt()%4) / 2)
			case "InterpolatePoint":
				v = reflect.ValueOf(float64(a.nextInt()%7-1) / 4)
			default:
				v = reflect.ValueOf(float64(a.nextInt()%5) - 1)
			}
		case pt.Kind() == reflect.Slice && pt.Elem() == tGeometry:
			n := a.nextInt() % 3
			s := reflect.MakeSlice(pt, 0, n)
			for k := 0; k < n; k++ {
				s = reflect.Append(s, reflect.ValueOf(a.nextGeom()))
			}
			v = s
		case pt.Kind() == reflect.Slice && (pt.Elem() == tPoint || pt.Elem() == tLS || pt.Elem() == tPoly):
			n := a.nextInt() % 3
			s := reflect.MakeSlice(pt, 0, n)
			for k := 0; k < n; k++ {
				s = reflect.Append(s, a.concrete(pt.Elem()))
			}
			v = s
		case pt.Kind() == reflect.Interface && pt.NumMethod() == 0:
			v = reflect.ValueOf(a.nextGeom().AsBinary())
		case pt.Kind() == reflect.String:
			v = reflect.ValueOf([]string{"FF*FF****", "T********", "0FFFFFFF2"}[a.nextInt()%3])
		default:
			res.Skipped = "no argument synthesis for " + pt.String()
			return
		}
		if !v.IsValid() {
			res.Skipped = "no value for " + pt.String()
			return
		}
		if pt.Kind() == reflect.Interface && v.Type() != pt {
			nv := reflect.New(pt).Elem()
			nv.Set(v)
			v = nv
		}
		in = append(in, v)
		reprs = append(reprs, Repr(v))
	}
	// documented panics
	if strings.HasPrefix(short, "MustAs") && c.Recv.IsValid() && c.Recv.Type() == tGeometry {
		g := c.Recv.Interface().(geom.Geometry)
		if "MustAs"+g.Type().String() != short {
			res.Skipped = "MustAsX on another type is a documented panic"
			return
		}
	}
	res.ArgsRepr = strings.Join(reprs, ", ")
	func() {
		defer func() {
			if r := recover(); r != nil {
				res.Panic = r
			}
		}()
		res.Out = c.Fn.Call(in)
	}()
	return res
}

func fbits(f float64) string {
	if f == 0 {
		if math.Signbit(f) {
			return "-0"
		}
		return "0"
	}
	return fmt.Sprintf("%v(%016x)", f, math.Float64bits(f))
}

// Repr renders a value canonically (bit-exact for floats, WKB for geometries).
func Repr(v reflect.Value) string {
	if !v.IsValid() {
		return "<invalid>"
	}
	switch x := v.Interface().(type) {
	case geom.Geometry:
		return x.Type().String() + ":" + x.CoordinatesType().String() + ":" + hex.EncodeToString(x.AsBinary())
	case geom.Point:
		return Repr(reflect.ValueOf(x.AsGeometry()))
	case geom.LineString:
		return Repr(reflect.ValueOf(x.AsGeometry()))
	case geom.Polygon:
		return Repr(reflect.ValueOf(x.AsGeometry()))
	case geom.MultiPoint:
		return Repr(reflect.ValueOf(x.AsGeometry()))
	case geom.MultiLineString:
		return Repr(reflect.ValueOf(x.AsGeometry()))
	case geom.MultiPolygon:
		return Repr(reflect.ValueOf(x.AsGeometry()))
	case geom.GeometryCollection:
		return Repr(reflect.ValueOf(x.AsGeometry()))
	case geom.Envelope:
		mn, mx, ok := x.MinMaxXYs()
		if !ok {
			return "ENVELOPE EMPTY"
		}
		return fmt.Sprintf("ENVELOPE(%s %s,%s %s)", fbits(mn.X), fbits(mn.Y), fbits(mx.X), fbits(mx.Y))
	case geom.Sequence:
		parts := []string{"SEQ:" + x.CoordinatesType().String()}
		for i := 0; i < x.Length(); i++ {
			c := x.Get(i)
			parts = append(parts, fmt.Sprintf("%s %s %s %s", fbits(c.X), fbits(c.Y), fbits(c.Z), fbits(c.M)))
		}
		return strings.Join(parts, "|")
	case geom.XY:
		return "XY(" + fbits(x.X) + " " + fbits(x.Y) + ")"
	case geom.Coordinates:
		return fmt.Sprintf("C[%s](%s %s %s %s)", x.Type, fbits(x.X), fbits(x.Y), fbits(x.Z), fbits(x.M))
	case float64:
		return fbits(x)
	case error:
		if x == nil {
			return "<nil error>"
		}
		return "error:" + x.Error()
	case []byte:
		return "bytes:" + hex.EncodeToString(x)
	case string:
		return fmt.Sprintf("%q", x)
	}
	switch v.Kind() {
	case reflect.Slice:
		if v.IsNil() {
			return "[]"
		}
		parts := make([]string, v.Len())
		for i := range parts {
			parts[i] = Repr(v.Index(i))
		}
		return "[" + strings.Join(parts, "; ") + "]"
	case reflect.Interface, reflect.Ptr:
		if v.IsNil() {
			return "<nil>"
		}
		return Repr(v.Elem())
	case reflect.Func:
		if v.IsNil() {
			return "<nil func>"
		}
		return "<func>"
	case reflect.Struct:
		// e.g. Interval, ExtendedEnvelope: use %+v (floats are printed shortest round-trip)
		return fmt.Sprintf("%+v", v.Interface())
	}
	return fmt.Sprintf("%v", v.Interface())
}

// ReprResults renders all outputs (or the panic) of a result.
func ReprResults(r Result) string {
	if r.Skipped != "" {
		return "skipped"
	}
	if r.Panic != nil {
		return fmt.Sprintf("PANIC: %v", r.Panic)
	}
	parts := make([]string, len(r.Out))
	for i, o := range r.Out {
		if o.Type() == tErr && o.IsNil() {
			parts[i] = "<nil error>"
			continue
		}
		parts[i] = Repr(o)
	}
	return strings.Join(parts, " , ")
}

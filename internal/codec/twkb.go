package codec

import (
	"errors"
	"fmt"
)

// TWKBNode is the integer-level content of one TWKB geometry, as read by an
// independent varint-level reader written from the TWKB specification.
type TWKBNode struct {
	Type    int // 1..7
	PrecXY  int
	HasZ    bool
	HasM    bool
	PrecZ   int
	PrecM   int
	Empty   bool
	HasSize bool
	Size    uint64 // value of the size header
	SizeAt  int    // offset just after the size varint (bytes "that follow it" start here)
	HasBBox bool
	BBox    []int64 // per dimension: min, delta
	HasIDs  bool
	IDs     []int64
	// Absolute (un-delta'd) integer ordinates:
	Pos     [][]int64     // Point: 1 position; LineString: n positions; MultiPoint: n positions
	Rings   [][][]int64   // Polygon: rings of positions (as stored, i.e. possibly unclosed); MultiLineString: lines
	Polys   [][][][]int64 // MultiPolygon
	Members []TWKBNode    // GeometryCollection
	Start   int
	End     int // offset after the last byte of this geometry
}

func (n *TWKBNode) Dims() int {
	d := 2
	if n.HasZ {
		d++
	}
	if n.HasM {
		d++
	}
	return d
}

type twkbReader struct {
	b   []byte
	pos int
}

var errTWKBShort = errors.New("twkb: unexpected end of input")

func (r *twkbReader) byte() (byte, error) {
	if r.pos >= len(r.b) {
		return 0, errTWKBShort
	}
	c := r.b[r.pos]
	r.pos++
	return c, nil
}

func (r *twkbReader) uvarint() (uint64, error) {
	var v uint64
	var shift uint
	for i := 0; ; i++ {
		c, err := r.byte()
		if err != nil {
			return 0, err
		}
		if i == 9 && c > 1 {
			return 0, errors.New("twkb: varint overflows 64 bits")
		}
		v |= uint64(c&0x7f) << shift
		if c&0x80 == 0 {
			return v, nil
		}
		shift += 7
		if i >= 9 {
			return 0, errors.New("twkb: varint too long")
		}
	}
}

func (r *twkbReader) svarint() (int64, error) {
	u, err := r.uvarint()
	if err != nil {
		return 0, err
	}
	return int64(u>>1) ^ -int64(u&1), nil
}

// ReadTWKB decodes one TWKB geometry starting at b[0].
func ReadTWKB(b []byte) (TWKBNode, error) {
	r := &twkbReader{b: b}
	return r.geometry()
}

const twkbMaxCount = 1 << 24

func (r *twkbReader) positions(n uint64, dims int, ref []int64) ([][]int64, error) {
	if n > twkbMaxCount || n*uint64(dims) > uint64(len(r.b)-r.pos) {
		return nil, fmt.Errorf("twkb: point count %d exceeds remaining input", n)
	}
	out := make([][]int64, 0, n)
	for i := uint64(0); i < n; i++ {
		p := make([]int64, dims)
		for d := 0; d < dims; d++ {
			dv, err := r.svarint()
			if err != nil {
				return nil, err
			}
			ref[d] += dv
			p[d] = ref[d]
		}
		out = append(out, p)
	}
	return out, nil
}

func (r *twkbReader) idlist(n uint64) ([]int64, error) {
	if n > uint64(len(r.b)-r.pos) {
		return nil, fmt.Errorf("twkb: id count %d exceeds remaining input", n)
	}
	ids := make([]int64, 0, n)
	for i := uint64(0); i < n; i++ {
		v, err := r.svarint()
		if err != nil {
			return nil, err
		}
		ids = append(ids, v)
	}
	return ids, nil
}

func (r *twkbReader) geometry() (TWKBNode, error) {
	var n TWKBNode
	n.Start = r.pos
	tp, err := r.byte()
	if err != nil {
		return n, err
	}
	n.Type = int(tp & 0x0f)
	if n.Type < 1 || n.Type > 7 {
		return n, fmt.Errorf("twkb: bad geometry type %d", n.Type)
	}
	zz := uint64(tp >> 4)
	n.PrecXY = int(int64(zz>>1) ^ -int64(zz&1))
	meta, err := r.byte()
	if err != nil {
		return n, err
	}
	n.HasBBox = meta&1 != 0
	n.HasSize = meta&2 != 0
	n.HasIDs = meta&4 != 0
	hasExt := meta&8 != 0
	n.Empty = meta&16 != 0
	if hasExt {
		e, err := r.byte()
		if err != nil {
			return n, err
		}
		n.HasZ = e&1 != 0
		n.HasM = e&2 != 0
		n.PrecZ = int(e >> 2 & 7)
		n.PrecM = int(e >> 5 & 7)
	}
	if n.HasSize {
		n.Size, err = r.uvarint()
		if err != nil {
			return n, err
		}
		n.SizeAt = r.pos
	}
	dims := n.Dims()
	if n.HasBBox {
		for d := 0; d < dims; d++ {
			mn, err := r.svarint()
			if err != nil {
				return n, err
			}
			dl, err := r.svarint()
			if err != nil {
				return n, err
			}
			n.BBox = append(n.BBox, mn, dl)
		}
	}
	if n.Empty {
		n.End = r.pos
		return n, nil
	}
	ref := make([]int64, dims)
	ring := func() ([][]int64, error) {
		c, err := r.uvarint()
		if err != nil {
			return nil, err
		}
		return r.positions(c, dims, ref)
	}
	rings := func() ([][][]int64, error) {
		c, err := r.uvarint()
		if err != nil {
			return nil, err
		}
		if c > uint64(len(r.b)-r.pos) {
			return nil, fmt.Errorf("twkb: ring count %d exceeds remaining input", c)
		}
		var out [][][]int64
		for i := uint64(0); i < c; i++ {
			rg, err := ring()
			if err != nil {
				return nil, err
			}
			out = append(out, rg)
		}
		return out, nil
	}
	switch n.Type {
	case 1:
		n.Pos, err = r.positions(1, dims, ref)
	case 2:
		n.Pos, err = ring()
	case 3:
		n.Rings, err = rings()
	case 4, 5, 6, 7:
		var c uint64
		c, err = r.uvarint()
		if err != nil {
			return n, err
		}
		if c > uint64(len(r.b)-r.pos) && c > 0 {
			return n, fmt.Errorf("twkb: member count %d exceeds remaining input", c)
		}
		if n.HasIDs {
			n.IDs, err = r.idlist(c)
			if err != nil {
				return n, err
			}
		}
		switch n.Type {
		case 4:
			n.Pos, err = r.positions(c, dims, ref)
		case 5:
			for i := uint64(0); i < c && err == nil; i++ {
				var l [][]int64
				l, err = ring()
				n.Rings = append(n.Rings, l)
			}
		case 6:
			for i := uint64(0); i < c && err == nil; i++ {
				var p [][][]int64
				p, err = rings()
				n.Polys = append(n.Polys, p)
			}
		case 7:
			for i := uint64(0); i < c && err == nil; i++ {
				var m TWKBNode
				m, err = r.geometry()
				n.Members = append(n.Members, m)
			}
		}
	}
	n.End = r.pos
	return n, err
}

// Package codec contains encoders/decoders written from the format
// specifications, independent of the library under test.
package codec

import (
	"encoding/binary"
	"errors"
	"fmt"
	"math"

	"verif/internal/gm"
)

var wkbCode = map[string]uint32{gm.Point: 1, gm.LineString: 2, gm.Polygon: 3, gm.MultiPoint: 4, gm.MultiLineString: 5, gm.MultiPolygon: 6, gm.GeometryCollection: 7}
var wkbType = map[uint32]string{1: gm.Point, 2: gm.LineString, 3: gm.Polygon, 4: gm.MultiPoint, 5: gm.MultiLineString, 6: gm.MultiPolygon, 7: gm.GeometryCollection}

// WKBField describes one header/count field in an encoding (for fault enumeration).
type WKBField struct {
	Off  int
	Len  int
	Kind string // "order" | "type" | "count"
	BE   bool
}

// WKBWriter encodes a model as ISO WKB with a byte order chosen per element:
// element i (pre-order, every geometry header incl. nested members) is
// big-endian iff orders[i % len(orders)].
type WKBWriter struct {
	Orders []bool
	Buf    []byte
	Fields []WKBField
	n      int
}

func (w *WKBWriter) nextOrder() binary.ByteOrder {
	be := false
	if len(w.Orders) > 0 {
		be = w.Orders[w.n%len(w.Orders)]
	}
	w.n++
	if be {
		return binary.BigEndian
	}
	return binary.LittleEndian
}

func (w *WKBWriter) u32(bo binary.ByteOrder, v uint32, kind string) {
	var b [4]byte
	bo.PutUint32(b[:], v)
	w.Fields = append(w.Fields, WKBField{Off: len(w.Buf), Len: 4, Kind: kind, BE: bo == binary.BigEndian})
	w.Buf = append(w.Buf, b[:]...)
}

func (w *WKBWriter) f64(bo binary.ByteOrder, v float64) {
	var b [8]byte
	bo.PutUint64(b[:], math.Float64bits(v))
	w.Buf = append(w.Buf, b[:]...)
}

func (w *WKBWriter) seq(bo binary.ByteOrder, fs []gm.F, ct int) {
	w.u32(bo, uint32(len(fs)/gm.Dim(ct)), "count")
	for _, f := range fs {
		w.f64(bo, float64(f))
	}
}

// Write appends the encoding of g.
func (w *WKBWriter) Write(g gm.G) {
	g = g.Norm()
	bo := w.nextOrder()
	w.Fields = append(w.Fields, WKBField{Off: len(w.Buf), Len: 1, Kind: "order"})
	if bo == binary.BigEndian {
		w.Buf = append(w.Buf, 0)
	} else {
		w.Buf = append(w.Buf, 1)
	}
	w.u32(bo, uint32(g.CT)*1000+wkbCode[g.T], "type")
	switch g.T {
	case gm.Point:
		if len(g.Co) == 0 {
			for i := 0; i < gm.Dim(g.CT); i++ {
				w.f64(bo, math.NaN())
			}
			return
		}
		for _, f := range g.Co {
			w.f64(bo, float64(f))
		}
	case gm.LineString:
		w.seq(bo, g.Co, g.CT)
	case gm.Polygon:
		w.u32(bo, uint32(len(g.Rings)), "count")
		for _, r := range g.Rings {
			w.seq(bo, r, g.CT)
		}
	default:
		w.u32(bo, uint32(len(g.Mem)), "count")
		for _, m := range g.Mem {
			w.Write(m)
		}
	}
}

// EncodeWKB encodes with the given per-element byte orders (nil = little endian).
func EncodeWKB(g gm.G, orders []bool) []byte {
	w := &WKBWriter{Orders: orders}
	w.Write(g)
	return w.Buf
}

var errWKBShort = errors.New("wkb: unexpected end of input")

type wkbReader struct {
	b []byte
}

// DecodeWKB is a strict reader; returns the model and the number of bytes consumed.
func DecodeWKB(b []byte) (gm.G, int, error) {
	r := &wkbReader{b: b}
	g, err := r.geom()
	return g, len(b) - len(r.b), err
}

func (r *wkbReader) u32(bo binary.ByteOrder) (uint32, error) {
	if len(r.b) < 4 {
		return 0, errWKBShort
	}
	v := bo.Uint32(r.b)
	r.b = r.b[4:]
	return v, nil
}

func (r *wkbReader) f64(bo binary.ByteOrder) (float64, error) {
	if len(r.b) < 8 {
		return 0, errWKBShort
	}
	v := math.Float64frombits(bo.Uint64(r.b))
	r.b = r.b[8:]
	return v, nil
}

func (r *wkbReader) seq(bo binary.ByteOrder, ct int) ([]gm.F, error) {
	n, err := r.u32(bo)
	if err != nil {
		return nil, err
	}
	total := uint64(n) * uint64(gm.Dim(ct))
	if total*8 > uint64(len(r.b)) {
		return nil, errWKBShort
	}
	out := make([]gm.F, 0, total)
	for i := uint64(0); i < total; i++ {
		v, _ := r.f64(bo)
		out = append(out, gm.F(v))
	}
	return out, nil
}

func (r *wkbReader) geom() (gm.G, error) {
	if len(r.b) < 1 {
		return gm.G{}, errWKBShort
	}
	var bo binary.ByteOrder
	switch r.b[0] {
	case 0:
		bo = binary.BigEndian
	case 1:
		bo = binary.LittleEndian
	default:
		return gm.G{}, fmt.Errorf("wkb: bad byte order %d", r.b[0])
	}
	r.b = r.b[1:]
	code, err := r.u32(bo)
	if err != nil {
		return gm.G{}, err
	}
	typ, ok := wkbType[code%1000]
	if !ok || code/1000 > 3 {
		return gm.G{}, fmt.Errorf("wkb: bad type code %d", code)
	}
	g := gm.G{T: typ, CT: int(code / 1000)}
	switch typ {
	case gm.Point:
		for i := 0; i < gm.Dim(g.CT); i++ {
			v, err := r.f64(bo)
			if err != nil {
				return gm.G{}, err
			}
			g.Co = append(g.Co, gm.F(v))
		}
		if math.IsNaN(float64(g.Co[0])) && math.IsNaN(float64(g.Co[1])) {
			g.Co = nil
		}
	case gm.LineString:
		g.Co, err = r.seq(bo, g.CT)
		if err != nil {
			return gm.G{}, err
		}
		if len(g.Co) == 0 {
			g.Co = nil
		}
	case gm.Polygon:
		n, err := r.u32(bo)
		if err != nil {
			return gm.G{}, err
		}
		for i := uint32(0); i < n; i++ {
			ring, err := r.seq(bo, g.CT)
			if err != nil {
				return gm.G{}, err
			}
			g.Rings = append(g.Rings, ring)
		}
	default:
		n, err := r.u32(bo)
		if err != nil {
			return gm.G{}, err
		}
		for i := uint32(0); i < n; i++ {
			m, err := r.geom()
			if err != nil {
				return gm.G{}, err
			}
			g.Mem = append(g.Mem, m)
		}
	}
	return g, nil
}

package codec

import (
	"fmt"
	"strconv"
	"strings"

	"verif/internal/gm"
)

// WKTTok is one token of a WKT text.
type WKTTok struct {
	Kind string // "id" | "num" | "(" | ")" | ","
	Text string
}

// TokenizeWKT splits a text into tokens. A '-' directly followed by a digit or
// '.' is part of the numeral. Anything else is an error.
func TokenizeWKT(s string) ([]WKTTok, error) {
	var toks []WKTTok
	i := 0
	isDigit := func(c byte) bool { return c >= '0' && c <= '9' }
	isAlpha := func(c byte) bool { return c >= 'a' && c <= 'z' || c >= 'A' && c <= 'Z' }
	for i < len(s) {
		c := s[i]
		switch {
		case c == ' ' || c == '\t' || c == '\n' || c == '\r':
			i++
		case c == '(' || c == ')' || c == ',':
			toks = append(toks, WKTTok{string(c), string(c)})
			i++
		case isAlpha(c):
			j := i
			for j < len(s) && isAlpha(s[j]) {
				j++
			}
			toks = append(toks, WKTTok{"id", s[i:j]})
			i = j
		case isDigit(c) || c == '.' || (c == '-' && i+1 < len(s) && (isDigit(s[i+1]) || s[i+1] == '.')):
			j := i + 1
			for j < len(s) && (isDigit(s[j]) || s[j] == '.' || s[j] == 'e' || s[j] == 'E' ||
				((s[j] == '+' || s[j] == '-') && (s[j-1] == 'e' || s[j-1] == 'E'))) {
				j++
			}
			toks = append(toks, WKTTok{"num", s[i:j]})
			i = j
		default:
			return nil, fmt.Errorf("wkt: unexpected character %q at %d", c, i)
		}
	}
	return toks, nil
}

// WKTInfo reports spelling facts about a parsed text.
type WKTInfo struct {
	Numerals        []string
	BareMultiPoints int // MultiPoint members written without parentheses
}

type wktParser struct {
	toks []WKTTok
	pos  int
	info WKTInfo
}

func (p *wktParser) peek() WKTTok {
	if p.pos < len(p.toks) {
		return p.toks[p.pos]
	}
	return WKTTok{"eof", ""}
}
func (p *wktParser) next() WKTTok { t := p.peek(); p.pos++; return t }
func (p *wktParser) expect(kind string) error {
	if t := p.next(); t.Kind != kind {
		return fmt.Errorf("wkt: expected %s, got %q", kind, t.Text)
	}
	return nil
}

var wktKeyword = map[string]string{
	"POINT": gm.Point, "LINESTRING": gm.LineString, "POLYGON": gm.Polygon, "MULTIPOINT": gm.MultiPoint,
	"MULTILINESTRING": gm.MultiLineString, "MULTIPOLYGON": gm.MultiPolygon, "GEOMETRYCOLLECTION": gm.GeometryCollection,
}

// ParseWKT parses the OGC grammar (plus bare MultiPoint members and
// exponent-form numerals). Type keywords are case-insensitive; Z/M/ZM/EMPTY
// must be upper case.
func ParseWKT(s string) (gm.G, WKTInfo, error) {
	toks, err := TokenizeWKT(s)
	if err != nil {
		return gm.G{}, WKTInfo{}, err
	}
	p := &wktParser{toks: toks}
	g, err := p.geometry()
	if err != nil {
		return gm.G{}, WKTInfo{}, err
	}
	if p.pos != len(p.toks) {
		return gm.G{}, WKTInfo{}, fmt.Errorf("wkt: trailing tokens")
	}
	return g, p.info, nil
}

func (p *wktParser) geometry() (gm.G, error) {
	t := p.next()
	if t.Kind != "id" {
		return gm.G{}, fmt.Errorf("wkt: expected geometry type, got %q", t.Text)
	}
	typ, ok := wktKeyword[strings.ToUpper(t.Text)]
	if !ok {
		return gm.G{}, fmt.Errorf("wkt: unknown geometry type %q", t.Text)
	}
	g := gm.G{T: typ}
	if t := p.peek(); t.Kind == "id" {
		switch t.Text {
		case "Z":
			g.CT = 1
			p.next()
		case "M":
			g.CT = 2
			p.next()
		case "ZM":
			g.CT = 3
			p.next()
		}
	}
	err := p.body(&g)
	return g, err
}

func (p *wktParser) isEmpty() bool {
	if t := p.peek(); t.Kind == "id" && t.Text == "EMPTY" {
		p.next()
		return true
	}
	return false
}

func (p *wktParser) position(ct int) ([]gm.F, error) {
	var out []gm.F
	for i := 0; i < gm.Dim(ct); i++ {
		t := p.next()
		if t.Kind != "num" {
			return nil, fmt.Errorf("wkt: expected numeral, got %q", t.Text)
		}
		v, err := strconv.ParseFloat(t.Text, 64)
		if err != nil {
			return nil, err
		}
		p.info.Numerals = append(p.info.Numerals, t.Text)
		out = append(out, gm.F(v))
	}
	return out, nil
}

func (p *wktParser) seq(ct int) ([]gm.F, error) {
	if p.isEmpty() {
		// an empty ring of a non-empty polygon (callers handle EMPTY for whole geometries before coming here)
		return []gm.F{}, nil
	}
	if err := p.expect("("); err != nil {
		return nil, err
	}
	var out []gm.F
	for {
		pos, err := p.position(ct)
		if err != nil {
			return nil, err
		}
		out = append(out, pos...)
		if p.peek().Kind == "," {
			p.next()
			continue
		}
		return out, p.expect(")")
	}
}

func (p *wktParser) list(item func() error) error {
	if err := p.expect("("); err != nil {
		return err
	}
	for {
		if err := item(); err != nil {
			return err
		}
		if p.peek().Kind == "," {
			p.next()
			continue
		}
		return p.expect(")")
	}
}

func (p *wktParser) body(g *gm.G) error {
	if p.isEmpty() {
		return nil
	}
	ct := g.CT
	switch g.T {
	case gm.Point:
		if err := p.expect("("); err != nil {
			return err
		}
		pos, err := p.position(ct)
		if err != nil {
			return err
		}
		g.Co = pos
		return p.expect(")")
	case gm.LineString:
		co, err := p.seq(ct)
		g.Co = co
		return err
	case gm.Polygon:
		return p.list(func() error {
			r, err := p.seq(ct)
			g.Rings = append(g.Rings, r)
			return err
		})
	case gm.MultiPoint:
		return p.list(func() error {
			m := gm.G{T: gm.Point, CT: ct}
			if p.isEmpty() {
				g.Mem = append(g.Mem, m)
				return nil
			}
			paren := p.peek().Kind == "("
			if paren {
				p.next()
			} else {
				p.info.BareMultiPoints++
			}
			pos, err := p.position(ct)
			if err != nil {
				return err
			}
			m.Co = pos
			g.Mem = append(g.Mem, m)
			if paren {
				return p.expect(")")
			}
			return nil
		})
	case gm.MultiLineString:
		return p.list(func() error {
			m := gm.G{T: gm.LineString, CT: ct}
			if !p.isEmpty() {
				co, err := p.seq(ct)
				if err != nil {
					return err
				}
				m.Co = co
			}
			g.Mem = append(g.Mem, m)
			return nil
		})
	case gm.MultiPolygon:
		return p.list(func() error {
			m := gm.G{T: gm.Polygon, CT: ct}
			g.Mem = append(g.Mem, m)
			if p.isEmpty() {
				return nil
			}
			i := len(g.Mem) - 1
			return p.list(func() error {
				r, err := p.seq(ct)
				g.Mem[i].Rings = append(g.Mem[i].Rings, r)
				return err
			})
		})
	case gm.GeometryCollection:
		return p.list(func() error {
			m, err := p.geometry()
			if err != nil {
				return err
			}
			if m.CT != ct {
				return fmt.Errorf("wkt: member coordinate type %s inside %s collection", gm.CTName(m.CT), gm.CTName(ct))
			}
			g.Mem = append(g.Mem, m)
			return nil
		})
	}
	return fmt.Errorf("wkt: bad type")
}

// NumeralIsShortestPlain reports whether s is a plain decimal numeral (no
// exponent, no superfluous zeros) and the shortest digit string that parses to
// the float64 it denotes.
func NumeralIsShortestPlain(s string) error {
	body := strings.TrimPrefix(s, "-")
	if body == "" {
		return fmt.Errorf("empty numeral")
	}
	intPart, frac := body, ""
	hasDot := false
	if i := strings.IndexByte(body, '.'); i >= 0 {
		intPart, frac, hasDot = body[:i], body[i+1:], true
	}
	for _, c := range intPart + frac {
		if c < '0' || c > '9' {
			return fmt.Errorf("numeral %q is not a plain decimal", s)
		}
	}
	if intPart == "" || (len(intPart) > 1 && intPart[0] == '0') {
		return fmt.Errorf("numeral %q has a malformed integer part", s)
	}
	if hasDot && (frac == "" || frac[len(frac)-1] == '0') {
		return fmt.Errorf("numeral %q has superfluous fraction zeros", s)
	}
	v, err := strconv.ParseFloat(body, 64)
	if err != nil {
		return err
	}
	// digit string and decimal exponent: value = 0.D * 10^exp
	digits := strings.TrimLeft(intPart+frac, "0")
	exp := len(intPart)
	if strings.Trim(intPart, "0") == "" {
		// 0.000ddd
		exp = -(len(frac) - len(strings.TrimLeft(frac, "0")))
	}
	digits = strings.TrimRight(digits, "0")
	if digits == "" {
		return nil // zero
	}
	if len(digits) == 1 {
		return nil
	}
	// candidates with one digit fewer: truncation and truncation+1
	n := len(digits) - 1
	trunc := digits[:n]
	cands := []string{"0." + trunc + "e" + strconv.Itoa(exp)}
	// increment trunc as a decimal string
	b := []byte(trunc)
	k := len(b) - 1
	for k >= 0 {
		if b[k] == '9' {
			b[k] = '0'
			k--
			continue
		}
		b[k]++
		break
	}
	if k < 0 {
		cands = append(cands, "0.1"+string(b)+"e"+strconv.Itoa(exp+1))
	} else {
		cands = append(cands, "0."+string(b)+"e"+strconv.Itoa(exp))
	}
	for _, c := range cands {
		if cv, err := strconv.ParseFloat(c, 64); err == nil && cv == v {
			return fmt.Errorf("numeral %q is not the shortest: %s denotes the same float64", s, c)
		}
	}
	return nil
}

// Respelling options for PrintTokens.
type Respell struct {
	// Seps[i] is the separator written before token i (cycled). A separator
	// may be empty only where two tokens cannot merge; PrintTokens enforces a
	// blank where one is required.
	Seps []string
	// KeywordCase[i]: bit i decides the case of the i-th letter of type keywords.
	KeywordCase uint32
	// BareMultiPoint: drop the parentheses around MultiPoint members.
	BareMultiPoint bool
	// ParenMask: with BareMultiPoint, the k-th MultiPoint member of the text (counted across the whole
	// text, mod 32) keeps its parentheses when bit k is set, so bare and parenthesised members mix.
	ParenMask uint32 `json:"paren_mask,omitempty"`
	// ExpNumerals: numerals are re-written in exponent form when possible.
	ExpNumerals int // 0 keep, 1 'e' lower, 2 'E' upper
	// PlainMask: with ExpNumerals, the k-th numeral (mod 32) stays in plain form when bit k is set.
	PlainMask uint32 `json:"plain_mask,omitempty"`
}

// WKTTokens renders a model to tokens with the OGC grammar.
func WKTTokens(g gm.G, r Respell) []WKTTok {
	var out []WKTTok
	emit := func(k, t string) { out = append(out, WKTTok{k, t}) }
	nNum, nMem := uint(0), uint(0)
	num := func(f gm.F) {
		v := float64(f)
		s := strconv.FormatFloat(v, 'f', -1, 64)
		plain := r.PlainMask>>(nNum%32)&1 == 1
		nNum++
		if r.ExpNumerals != 0 && !plain {
			s = strconv.FormatFloat(v, 'e', -1, 64)
			if r.ExpNumerals == 2 {
				s = strings.ToUpper(s)
			}
		}
		emit("num", s)
	}
	var pos func(fs []gm.F)
	pos = func(fs []gm.F) {
		for _, f := range fs {
			num(f)
		}
	}
	seq := func(fs []gm.F, ct int) {
		if len(fs) == 0 {
			emit("id", "EMPTY")
			return
		}
		emit("(", "(")
		d := gm.Dim(ct)
		for i := 0; i+d <= len(fs); i += d {
			if i > 0 {
				emit(",", ",")
			}
			pos(fs[i : i+d])
		}
		emit(")", ")")
	}
	kw := func(s string) string {
		b := []byte(strings.ToUpper(s))
		for i := range b {
			if r.KeywordCase>>(uint(i)%32)&1 == 1 {
				b[i] = b[i] | 0x20
			}
		}
		return string(b)
	}
	var geomFn func(g gm.G)
	var body func(g gm.G)
	body = func(g gm.G) {
		switch g.T {
		case gm.Point:
			if len(g.Co) == 0 {
				emit("id", "EMPTY")
				return
			}
			emit("(", "(")
			pos(g.Co)
			emit(")", ")")
		case gm.LineString:
			if len(g.Co) == 0 {
				emit("id", "EMPTY")
				return
			}
			seq(g.Co, g.CT)
		case gm.Polygon:
			if len(g.Rings) == 0 {
				emit("id", "EMPTY")
				return
			}
			emit("(", "(")
			for i, rg := range g.Rings {
				if i > 0 {
					emit(",", ",")
				}
				seq(rg, g.CT)
			}
			emit(")", ")")
		default:
			if len(g.Mem) == 0 {
				emit("id", "EMPTY")
				return
			}
			emit("(", "(")
			for i, m := range g.Mem {
				if i > 0 {
					emit(",", ",")
				}
				switch {
				case g.T == gm.GeometryCollection:
					geomFn(m)
				case g.T == gm.MultiPoint && r.BareMultiPoint && len(m.Co) > 0:
					paren := r.ParenMask>>(nMem%32)&1 == 1
					nMem++
					if paren {
						body(m)
					} else {
						pos(m.Co)
					}
				default:
					body(m)
				}
			}
			emit(")", ")")
		}
	}
	geomFn = func(g gm.G) {
		g = g.Norm()
		emit("id", kw(g.T))
		if g.CT != 0 {
			emit("id", [4]string{"", "Z", "M", "ZM"}[g.CT])
		}
		body(g)
	}
	geomFn(g)
	return out
}

// JoinWKT joins tokens with the given separators, forcing a blank wherever two
// adjacent tokens would otherwise merge.
func JoinWKT(toks []WKTTok, seps []string) string {
	var sb strings.Builder
	for i, t := range toks {
		sep := ""
		if len(seps) > 0 {
			sep = seps[i%len(seps)]
		}
		if i > 0 && sep == "" {
			a, b := toks[i-1].Kind, t.Kind
			if (a == "id" || a == "num") && (b == "id" || b == "num") {
				sep = " "
			}
		}
		if i == 0 && sep == "" {
			sep = ""
		}
		sb.WriteString(sep)
		sb.WriteString(t.Text)
	}
	return sb.String()
}

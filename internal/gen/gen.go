// Package gen holds the rapid generators over gm models: float64 coordinate
// classes and arbitrary (not necessarily valid) geometry structures.
package gen

import (
	"math"

	"pgregory.net/rapid"

	"verif/internal/gm"
)

var special = []float64{
	0, math.Copysign(0, -1), 5e-324, -5e-324, 2.2250738585072014e-308, 2.225073858507201e-308,
	1.7976931348623157e308, -1.7976931348623157e308, 9007199254740991, 9007199254740992, 9007199254740993,
	1e21, 1e22, 1e23, 9.999999999999999e22, 1e-7, 1e-6, 123456789012345680, 0.1, 0.2, 0.30000000000000004,
	1.0000000000000002, 0.9999999999999999, 4.35, 2.675, 1e15, 1e16, 1e17, 1e300, 1e-300, 1e-320,
	math.Pi, -math.E, 100, 1e5, 1234.5678, 0.000123,
}

// FiniteFloat draws a finite float64 from explicit classes.
func FiniteFloat(t *rapid.T, label string) float64 {
	switch rapid.IntRange(0, 7).Draw(t, label+"_class") {
	case 0, 1:
		return float64(rapid.IntRange(-20, 20).Draw(t, label))
	case 2:
		return special[rapid.IntRange(0, len(special)-1).Draw(t, label)]
	case 3: // decimal grid k/10^q
		k := rapid.Int64Range(-1<<40, 1<<40).Draw(t, label)
		q := rapid.IntRange(0, 7).Draw(t, label+"_q")
		return float64(k) / math.Pow(10, float64(q))
	case 4: // arbitrary finite bit pattern
		u := rapid.Uint64().Draw(t, label)
		f := math.Float64frombits(u)
		if math.IsNaN(f) || math.IsInf(f, 0) {
			f = math.Float64frombits(u &^ (1 << 62))
		}
		return f
	case 5: // neighbours of a power of ten / two
		base := math.Pow(10, float64(rapid.IntRange(-30, 30).Draw(t, label+"_e")))
		if rapid.Bool().Draw(t, label+"_two") {
			base = math.Ldexp(1, rapid.IntRange(-60, 60).Draw(t, label+"_e2"))
		}
		switch rapid.IntRange(0, 2).Draw(t, label+"_nb") {
		case 0:
			return math.Nextafter(base, 0)
		case 1:
			return math.Nextafter(base, math.Inf(1))
		}
		return -base
	case 6: // subnormals
		return math.Float64frombits(rapid.Uint64Range(1, 1<<52-1).Draw(t, label)) * float64(1-2*rapid.IntRange(0, 1).Draw(t, label+"_s"))
	default: // moderate reals with many digits
		return rapid.Float64Range(-1e6, 1e6).Draw(t, label)
	}
}

// AnyFloat additionally produces NaN (several payloads) and infinities.
func AnyFloat(t *rapid.T, label string) float64 {
	if rapid.IntRange(0, 5).Draw(t, label+"_nf") == 0 {
		switch rapid.IntRange(0, 4).Draw(t, label+"_nfk") {
		case 0:
			return math.Inf(1)
		case 1:
			return math.Inf(-1)
		case 2:
			return math.NaN()
		case 3:
			return math.Float64frombits(0x7ff0000000000001) // signalling NaN payload
		default:
			return math.Float64frombits(0xfff8000000000abc)
		}
	}
	return FiniteFloat(t, label)
}

// Opts controls the structure generator.
type Opts struct {
	XY        func(t *rapid.T, label string) float64
	ZM        func(t *rapid.T, label string) float64
	MaxDepth  int  // nesting depth of collections (>=1)
	MaxMem    int  // members per collection
	MaxPts    int  // positions per line/ring
	AllowZero bool // Go zero values as nodes
	CT        int  // -1: draw
	Type      string
	// ClosedRings: rings are closed (first==last) and have >= 4 positions.
	ClosedRings bool
	// NoEmptyPointInMulti: never put an empty Point inside a MultiPoint.
	NoEmptyPointInMulti bool
	// ValidShapes: every generated geometry is OGC-valid by construction: XY
	// are small integers, lines are x-monotone, polygons are rectangles with
	// 0..2 rectangular holes, members of a MultiPolygon occupy disjoint
	// columns. Z/M still come from ZM.
	ValidShapes bool
	col         int // next free column for ValidShapes polygons
}

func (o *Opts) defaults() {
	if o.XY == nil {
		o.XY = FiniteFloat
	}
	if o.ZM == nil {
		o.ZM = o.XY
	}
	if o.MaxDepth == 0 {
		o.MaxDepth = 4
	}
	if o.MaxMem == 0 {
		o.MaxMem = 4
	}
	if o.MaxPts == 0 {
		o.MaxPts = 6
	}
}

// Structure draws an arbitrary geometry structure (validity not considered).
func Structure(t *rapid.T, o Opts) gm.G {
	o.defaults()
	ct := o.CT
	if ct < 0 {
		ct = rapid.IntRange(0, 3).Draw(t, "ct")
	}
	typ := o.Type
	if typ == "" {
		typ = rapid.SampledFrom(gm.Types).Draw(t, "type")
	}
	return node(t, &o, typ, ct, 1, true)
}

func pos(t *rapid.T, o *Opts, ct int) []gm.F {
	out := []gm.F{gm.F(o.XY(t, "x")), gm.F(o.XY(t, "y"))}
	for i := 2; i < gm.Dim(ct); i++ {
		out = append(out, gm.F(o.ZM(t, "zm")))
	}
	return out
}

func node(t *rapid.T, o *Opts, typ string, ct, depth int, top bool) gm.G {
	if o.AllowZero && ct == 0 && rapid.IntRange(0, 11).Draw(t, "zero") == 0 {
		if top && rapid.Bool().Draw(t, "zerogeom") {
			return gm.G{T: "Geometry", Zero: true}
		}
		return gm.G{T: typ, Zero: true}
	}
	g := gm.G{T: typ, CT: ct}
	emptyRoll := rapid.IntRange(0, 5).Draw(t, "empty") == 0
	switch typ {
	case gm.Point:
		if !emptyRoll {
			g.Co = pos(t, o, ct)
		}
	case gm.LineString:
		if !emptyRoll && o.ValidShapes {
			n := rapid.IntRange(2, o.MaxPts).Draw(t, "npts")
			x := rapid.IntRange(-20, 20).Draw(t, "x0")
			for i := 0; i < n; i++ {
				x += rapid.IntRange(1, 5).Draw(t, "dx")
				g.Co = append(g.Co, gm.F(x), gm.F(rapid.IntRange(-20, 20).Draw(t, "y")))
				for k := 2; k < gm.Dim(ct); k++ {
					g.Co = append(g.Co, gm.F(o.ZM(t, "zm")))
				}
			}
		} else if !emptyRoll {
			n := rapid.IntRange(1, o.MaxPts).Draw(t, "npts")
			for i := 0; i < n; i++ {
				g.Co = append(g.Co, pos(t, o, ct)...)
			}
		}
	case gm.Polygon:
		if !emptyRoll && o.ValidShapes {
			g.Rings = validRects(t, o, ct)
		} else if !emptyRoll {
			nr := rapid.IntRange(1, 3).Draw(t, "nrings")
			for r := 0; r < nr; r++ {
				n := rapid.IntRange(1, o.MaxPts).Draw(t, "nring")
				var ring []gm.F
				if o.ClosedRings {
					if n < 3 {
						n = 3
					}
				}
				for i := 0; i < n; i++ {
					ring = append(ring, pos(t, o, ct)...)
				}
				if o.ClosedRings || rapid.Bool().Draw(t, "close") {
					ring = append(ring, ring[:gm.Dim(ct)]...)
				}
				g.Rings = append(g.Rings, ring)
			}
		}
	case gm.MultiPoint, gm.MultiLineString, gm.MultiPolygon:
		if !emptyRoll {
			mt := map[string]string{gm.MultiPoint: gm.Point, gm.MultiLineString: gm.LineString, gm.MultiPolygon: gm.Polygon}[typ]
			n := rapid.IntRange(1, o.MaxMem).Draw(t, "nmem")
			for i := 0; i < n; i++ {
				oo := *o
				oo.AllowZero = false
				m := node(t, &oo, mt, ct, depth+1, false)
				o.col = oo.col
				if typ == gm.MultiPoint && o.NoEmptyPointInMulti && len(m.Co) == 0 {
					m.Co = pos(t, o, ct)
				}
				g.Mem = append(g.Mem, m)
			}
		}
	case gm.GeometryCollection:
		if !emptyRoll {
			n := rapid.IntRange(1, o.MaxMem).Draw(t, "nmem")
			for i := 0; i < n; i++ {
				var mt string
				if depth < o.MaxDepth {
					mt = rapid.SampledFrom(gm.Types).Draw(t, "mtype")
				} else {
					mt = rapid.SampledFrom(gm.Types[:6]).Draw(t, "mtype")
				}
				oo := *o
				oo.AllowZero = false
				g.Mem = append(g.Mem, node(t, &oo, mt, ct, depth+1, false))
				o.col = oo.col
			}
		}
	}
	return g
}

// validRects: a rectangle shell in the next free column with 0..2 disjoint
// rectangular holes strictly inside; CCW/CW orientation drawn.
func validRects(t *rapid.T, o *Opts, ct int) [][]gm.F {
	x0 := o.col * 40
	o.col++
	y0 := rapid.IntRange(-20, 20).Draw(t, "y0")
	w := rapid.IntRange(6, 30).Draw(t, "w")
	hh := rapid.IntRange(6, 30).Draw(t, "h")
	rect := func(ax, ay, bx, by int) []gm.F {
		pts := [][2]int{{ax, ay}, {bx, ay}, {bx, by}, {ax, by}}
		if rapid.Bool().Draw(t, "cw") {
			pts[1], pts[3] = pts[3], pts[1]
		}
		rot := rapid.IntRange(0, 3).Draw(t, "rot")
		var ring []gm.F
		for i := 0; i < 4; i++ {
			p := pts[(i+rot)%4]
			ring = append(ring, gm.F(p[0]), gm.F(p[1]))
			for k := 2; k < gm.Dim(ct); k++ {
				ring = append(ring, gm.F(o.ZM(t, "zm")))
			}
		}
		return append(ring, ring[:gm.Dim(ct)]...)
	}
	rings := [][]gm.F{rect(x0, y0, x0+w, y0+hh)}
	nh := rapid.IntRange(0, 2).Draw(t, "nholes")
	for i := 0; i < nh; i++ {
		// hole i lives in the i-th vertical half of the shell, strictly inside
		hx0 := x0 + 1 + i*(w/2)
		hx1 := hx0 + rapid.IntRange(1, w/2-2).Draw(t, "hw")
		hy0 := y0 + rapid.IntRange(1, hh-2).Draw(t, "hy")
		hy1 := hy0 + rapid.IntRange(1, y0+hh-1-hy0).Draw(t, "hh")
		rings = append(rings, rect(hx0, hy0, hx1, hy1))
	}
	return rings
}

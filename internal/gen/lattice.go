package gen

import (
	"math"
	"sort"

	"pgregory.net/rapid"

	"verif/internal/exact"
	"verif/internal/gm"
)

// Complex is a k x k grid of squares (side 2 in complex coordinates, so that
// half-cell offsets stay integral), each split by one of its diagonals.
type Complex struct {
	K    int
	Diag [][]bool // Diag[i][j]: cell (i,j) is split by the diagonal from its lower-left to its upper-right corner
	Off  [2]int   // offset of the whole complex in complex coordinates
}

type ipt [2]int

// DrawComplex draws a complex.
func DrawComplex(t *rapid.T, k int, off [2]int) Complex {
	c := Complex{K: k, Off: off}
	c.Diag = make([][]bool, k)
	for i := range c.Diag {
		c.Diag[i] = make([]bool, k)
		for j := range c.Diag[i] {
			c.Diag[i][j] = rapid.Bool().Draw(t, "diag")
		}
	}
	return c
}

func (c Complex) v(i, j int) ipt { return ipt{2*i + c.Off[0], 2*j + c.Off[1]} }

// triangle t of cell (i,j): vertices in counter-clockwise order.
func (c Complex) tri(i, j, which int) [3]ipt {
	a, b, cc, d := c.v(i, j), c.v(i+1, j), c.v(i+1, j+1), c.v(i, j+1)
	if c.Diag[i][j] { // diagonal a-cc
		if which == 0 {
			return [3]ipt{a, b, cc}
		}
		return [3]ipt{a, cc, d}
	}
	// diagonal b-d
	if which == 0 {
		return [3]ipt{a, b, d}
	}
	return [3]ipt{b, cc, d}
}

func (c Complex) numTri() int { return 2 * c.K * c.K }

func (c Complex) triAt(idx int) [3]ipt {
	cell := idx / 2
	return c.tri(cell/c.K, cell%c.K, idx%2)
}

type dedge struct{ a, b ipt }

// angle class for sorting directions clockwise starting from a reference.
func cross(ax, ay, bx, by int) int { return ax*by - ay*bx }
func dot(ax, ay, bx, by int) int   { return ax*bx + ay*by }

// cwAngle is the clockwise angle from ref to d in (0, 2pi] (same direction = 2pi).
// Directions are small integer vectors, so distinct directions are far apart
// and float64 atan2 orders them reliably.
func cwAngle(ref, d ipt) float64 {
	ccw := math.Atan2(float64(cross(ref[0], ref[1], d[0], d[1])), float64(dot(ref[0], ref[1], d[0], d[1])))
	cw := -ccw
	if cw <= 0 {
		cw += 2 * math.Pi
	}
	return cw
}

// PolygonsFromTriangles converts a set of selected triangles into polygons
// (one per edge-connected component): directed boundary edges with the
// interior on the left are chained into rings; at a pinch vertex the outgoing
// edge with the largest clockwise rotation from the reversed incoming
// direction is taken, which yields simple rings that touch at points.
func (c Complex) PolygonsFromTriangles(sel []bool, dropCollinear bool) []gm.G {
	n := c.numTri()
	// edge -> triangles
	type ukey struct{ a, b ipt }
	norm := func(a, b ipt) ukey {
		if a[0] > b[0] || (a[0] == b[0] && a[1] > b[1]) {
			a, b = b, a
		}
		return ukey{a, b}
	}
	owners := map[ukey][]int{}
	for ti := 0; ti < n; ti++ {
		if !sel[ti] {
			continue
		}
		tr := c.triAt(ti)
		for k := 0; k < 3; k++ {
			key := norm(tr[k], tr[(k+1)%3])
			owners[key] = append(owners[key], ti)
		}
	}
	parent := make([]int, n)
	for i := range parent {
		parent[i] = i
	}
	var find func(int) int
	find = func(x int) int {
		for parent[x] != x {
			parent[x] = parent[parent[x]]
			x = parent[x]
		}
		return x
	}
	for _, o := range owners {
		if len(o) == 2 {
			parent[find(o[0])] = find(o[1])
		}
	}
	compEdges := map[int][]dedge{}
	var compOrder []int
	for ti := 0; ti < n; ti++ {
		if !sel[ti] {
			continue
		}
		tr := c.triAt(ti)
		root := find(ti)
		for k := 0; k < 3; k++ {
			a, b := tr[k], tr[(k+1)%3]
			if len(owners[norm(a, b)]) == 1 {
				if _, ok := compEdges[root]; !ok {
					compOrder = append(compOrder, root)
				}
				compEdges[root] = append(compEdges[root], dedge{a, b})
			}
		}
	}
	var polys []gm.G
	for _, root := range compOrder {
		edges := compEdges[root]
		out := map[ipt][]int{}
		for i, e := range edges {
			out[e.a] = append(out[e.a], i)
		}
		used := make([]bool, len(edges))
		var rings [][]ipt
		for start := range edges {
			if used[start] {
				continue
			}
			var ring []ipt
			cur := start
			for !used[cur] {
				used[cur] = true
				e := edges[cur]
				ring = append(ring, e.a)
				cands := out[e.b]
				ref := ipt{e.a[0] - e.b[0], e.a[1] - e.b[1]}
				best := -1
				bestAng := 0.0
				for _, ci := range cands {
					if used[ci] && ci != start {
						continue
					}
					d := ipt{edges[ci].b[0] - e.b[0], edges[ci].b[1] - e.b[1]}
					if ang := cwAngle(ref, d); best == -1 || ang > bestAng {
						best, bestAng = ci, ang
					}
				}
				if best == -1 {
					break
				}
				cur = best
			}
			if len(ring) >= 3 {
				ring = append(ring, ring[0])
				rings = append(rings, ring)
			}
		}
		if len(rings) == 0 {
			continue
		}
		// shell = the ring with positive area (largest), holes = negative
		area2 := func(r []ipt) int {
			s := 0
			for i := 0; i+1 < len(r); i++ {
				s += r[i][0]*r[i+1][1] - r[i+1][0]*r[i][1]
			}
			return s
		}
		sort.SliceStable(rings, func(i, j int) bool { return area2(rings[i]) > area2(rings[j]) })
		g := gm.G{T: gm.Polygon}
		for _, r := range rings {
			if dropCollinear {
				r = dropCollinearVerts(r)
			}
			var fs []gm.F
			for _, p := range r {
				fs = append(fs, gm.F(p[0]), gm.F(p[1]))
			}
			g.Rings = append(g.Rings, fs)
		}
		polys = append(polys, g)
	}
	return polys
}

func dropCollinearVerts(r []ipt) []ipt {
	// r is closed; remove vertices collinear with their neighbours (cyclically)
	open := r[:len(r)-1]
	var out []ipt
	n := len(open)
	for i := 0; i < n; i++ {
		p, q, s := open[(i+n-1)%n], open[i], open[(i+1)%n]
		if cross(q[0]-p[0], q[1]-p[1], s[0]-q[0], s[1]-q[1]) != 0 {
			out = append(out, q)
		}
	}
	if len(out) < 3 {
		return r
	}
	return append(out, out[0])
}

// AreaSet draws a subset of triangles and returns a valid Polygon or
// MultiPolygon (checked with the exact validity oracle; on rejection a single
// triangle is returned). stats may be nil.
func (c Complex) AreaSet(t *rapid.T, wantMulti bool, stats *Stats) gm.G {
	n := c.numTri()
	sel := make([]bool, n)
	density := rapid.IntRange(1, 4).Draw(t, "density")
	any := false
	for i := range sel {
		sel[i] = rapid.IntRange(0, 4).Draw(t, "tri") < density
		any = any || sel[i]
	}
	if !any {
		sel[rapid.IntRange(0, n-1).Draw(t, "onetri")] = true
	}
	polys := c.PolygonsFromTriangles(sel, rapid.Bool().Draw(t, "dropcollinear"))
	var g gm.G
	if len(polys) == 1 && !wantMulti {
		g = polys[0]
	} else if !wantMulti {
		// keep one component
		g = polys[rapid.IntRange(0, len(polys)-1).Draw(t, "component")]
	} else {
		g = gm.G{T: gm.MultiPolygon, Mem: polys}
	}
	if stats != nil {
		stats.TracerProducts++
	}
	if exact.Valid(g) != nil {
		if stats != nil {
			stats.TracerRejected++
		}
		tr := c.triAt(rapid.IntRange(0, n-1).Draw(t, "fallbacktri"))
		p := gm.G{T: gm.Polygon, Rings: [][]gm.F{{gm.F(tr[0][0]), gm.F(tr[0][1]), gm.F(tr[1][0]), gm.F(tr[1][1]), gm.F(tr[2][0]), gm.F(tr[2][1]), gm.F(tr[0][0]), gm.F(tr[0][1])}}}
		if wantMulti {
			return gm.G{T: gm.MultiPolygon, Mem: []gm.G{p}}
		}
		return p
	}
	return g
}

// Stats counts generator events for the evidence.
type Stats struct {
	TracerProducts int
	TracerRejected int
}

// drawVertex: a vertex of the complex, a cell-edge midpoint or a cell centre
// (all integral in complex coordinates).
func (c Complex) drawPoint(t *rapid.T) ipt {
	switch rapid.IntRange(0, 3).Draw(t, "ptkind") {
	case 0, 1:
		return c.v(rapid.IntRange(0, c.K).Draw(t, "vi"), rapid.IntRange(0, c.K).Draw(t, "vj"))
	case 2: // any integer point of the doubled grid (edge midpoints, centres)
		return ipt{rapid.IntRange(0, 2*c.K).Draw(t, "px") + c.Off[0], rapid.IntRange(0, 2*c.K).Draw(t, "py") + c.Off[1]}
	default: // slightly outside
		return ipt{rapid.IntRange(-1, 2*c.K+1).Draw(t, "px") + c.Off[0], rapid.IntRange(-1, 2*c.K+1).Draw(t, "py") + c.Off[1]}
	}
}

// LineChain draws a LineString: a walk along complex vertices (so it runs
// along polygon boundaries and diagonals or cuts across), possibly closed,
// possibly with repeated consecutive vertices.
func (c Complex) LineChain(t *rapid.T) gm.G {
	n := rapid.IntRange(2, 6).Draw(t, "npts")
	var pts []ipt
	cur := c.drawPoint(t)
	pts = append(pts, cur)
	for len(pts) < n {
		var nxt ipt
		if rapid.IntRange(0, 2).Draw(t, "step") > 0 {
			// neighbouring vertex (unit step in complex cells, incl. diagonal)
			nxt = ipt{cur[0] + 2*rapid.IntRange(-1, 1).Draw(t, "dx"), cur[1] + 2*rapid.IntRange(-1, 1).Draw(t, "dy")}
		} else {
			nxt = c.drawPoint(t)
		}
		pts = append(pts, nxt)
		cur = nxt
	}
	if rapid.IntRange(0, 4).Draw(t, "closeline") == 0 && len(pts) >= 3 {
		pts = append(pts, pts[0])
	}
	if rapid.IntRange(0, 5).Draw(t, "repeat") == 0 {
		i := rapid.IntRange(0, len(pts)-1).Draw(t, "repeatat")
		pts = append(pts[:i+1], pts[i:]...)
	}
	// must have two distinct points
	distinct := false
	for _, p := range pts {
		if p != pts[0] {
			distinct = true
		}
	}
	if !distinct {
		pts = append(pts, ipt{pts[0][0] + 2, pts[0][1]})
	}
	g := gm.G{T: gm.LineString}
	for _, p := range pts {
		g.Co = append(g.Co, gm.F(p[0]), gm.F(p[1]))
	}
	return g
}

// Geom draws a valid geometry of the given type on the complex. Members of a
// collection may overlap unless disjointMembers is set (then a member is kept
// only if it is exactly disjoint from those already kept).
func (c Complex) Geom(t *rapid.T, typ string, depth int, disjointMembers bool, stats *Stats) gm.G {
	emptyRoll := rapid.IntRange(0, 14).Draw(t, "emptygeom") == 0
	switch typ {
	case gm.Point:
		if emptyRoll {
			return gm.G{T: gm.Point}
		}
		p := c.drawPoint(t)
		return gm.G{T: gm.Point, Co: gm.Fs(float64(p[0]), float64(p[1]))}
	case gm.MultiPoint:
		g := gm.G{T: gm.MultiPoint}
		if emptyRoll {
			return g
		}
		for i := rapid.IntRange(1, 4).Draw(t, "nmp"); i > 0; i-- {
			if rapid.IntRange(0, 9).Draw(t, "emptymember") == 0 {
				g.Mem = append(g.Mem, gm.G{T: gm.Point})
				continue
			}
			p := c.drawPoint(t)
			g.Mem = append(g.Mem, gm.G{T: gm.Point, Co: gm.Fs(float64(p[0]), float64(p[1]))})
		}
		return g
	case gm.LineString:
		if emptyRoll {
			return gm.G{T: gm.LineString}
		}
		return c.LineChain(t)
	case gm.MultiLineString:
		g := gm.G{T: gm.MultiLineString}
		if emptyRoll {
			return g
		}
		switch rapid.IntRange(0, 5).Draw(t, "mlskind") {
		case 0: // star: 2..5 open lines with one end at a common vertex (mod-2 rule with 2, 3, 4, 5 ends)
			ctr := c.drawPoint(t)
			for i := rapid.IntRange(2, 5).Draw(t, "rays"); i > 0; i-- {
				o := c.drawPoint(t)
				if o == ctr {
					o = ipt{ctr[0] + 2, ctr[1]}
				}
				l := gm.G{T: gm.LineString, Co: gm.Fs(float64(ctr[0]), float64(ctr[1]), float64(o[0]), float64(o[1]))}
				if rapid.Bool().Draw(t, "rayreversed") {
					l.Co = gm.Fs(float64(o[0]), float64(o[1]), float64(ctr[0]), float64(ctr[1]))
				}
				g.Mem = append(g.Mem, l)
			}
			return g
		case 1: // a closed circuit cut into open lines: every end point is shared by two lines (all ends cancel)
			n := rapid.IntRange(3, 5).Draw(t, "circuit")
			pts := make([]ipt, n)
			for i := range pts {
				pts[i] = c.drawPoint(t)
			}
			distinct := true
			for i := range pts {
				if pts[i] == pts[(i+1)%n] {
					distinct = false
				}
			}
			if distinct {
				for i := range pts {
					a, b := pts[i], pts[(i+1)%n]
					g.Mem = append(g.Mem, gm.G{T: gm.LineString, Co: gm.Fs(float64(a[0]), float64(a[1]), float64(b[0]), float64(b[1]))})
				}
				return g
			}
		}
		for i := rapid.IntRange(1, 3).Draw(t, "nml"); i > 0; i-- {
			if rapid.IntRange(0, 9).Draw(t, "emptymember") == 0 {
				g.Mem = append(g.Mem, gm.G{T: gm.LineString})
				continue
			}
			g.Mem = append(g.Mem, c.LineChain(t))
		}
		return g
	case gm.Polygon:
		if emptyRoll {
			return gm.G{T: gm.Polygon}
		}
		return c.AreaSet(t, false, stats)
	case gm.MultiPolygon:
		if emptyRoll {
			return gm.G{T: gm.MultiPolygon}
		}
		g := c.AreaSet(t, true, stats)
		if rapid.IntRange(0, 9).Draw(t, "emptymember") == 0 {
			g.Mem = append(g.Mem, gm.G{T: gm.Polygon})
		}
		return g
	default:
		g := gm.G{T: gm.GeometryCollection}
		if emptyRoll {
			return g
		}
		var kept []exact.Geom
		for i := rapid.IntRange(1, 3).Draw(t, "ngc"); i > 0; i-- {
			types := gm.Types
			if depth >= 2 {
				types = gm.Types[:6]
			}
			mt := rapid.SampledFrom(types).Draw(t, "gctype")
			m := c.Geom(t, mt, depth+1, disjointMembers, stats)
			if disjointMembers {
				em := exact.MustFromModel(m)
				ok := true
				for _, k := range kept {
					if exact.Intersects(em, k) {
						ok = false
						break
					}
				}
				if !ok {
					// keep the type but make it empty: structure still exercised
					m = gm.G{T: mt}
				} else {
					kept = append(kept, em)
				}
			}
			g.Mem = append(g.Mem, m)
		}
		return g
	}
}

// IntMap is an injective integer linear map plus translation: (x,y) -> (a x + b y + tx, c x + d y + ty), ad - bc != 0.
type IntMap struct {
	A, B, C, D, TX, TY int
}

// DrawIntMap draws a map whose image of [lo,hi]^2 stays within |c| <= 1024.
func DrawIntMap(t *rapid.T, lo, hi int) IntMap {
	ext := hi
	if -lo > ext {
		ext = -lo
	}
	if ext < 1 {
		ext = 1
	}
	var m IntMap
	switch rapid.IntRange(0, 3).Draw(t, "mapkind") {
	case 0: // identity
		m = IntMap{A: 1, D: 1}
	case 1: // lattice symmetry times a scale
		s := rapid.IntRange(1, max(1, 500/ext)).Draw(t, "scale")
		syms := [][4]int{{1, 0, 0, 1}, {0, -1, 1, 0}, {-1, 0, 0, -1}, {0, 1, -1, 0}, {-1, 0, 0, 1}, {1, 0, 0, -1}, {0, 1, 1, 0}, {0, -1, -1, 0}}
		q := syms[rapid.IntRange(0, 7).Draw(t, "sym")]
		m = IntMap{A: q[0] * s, B: q[1] * s, C: q[2] * s, D: q[3] * s}
	case 2: // shear
		k := rapid.IntRange(-3, 3).Draw(t, "shear")
		if rapid.Bool().Draw(t, "shearx") {
			m = IntMap{A: 1, B: k, C: 0, D: 1}
		} else {
			m = IntMap{A: 1, B: 0, C: k, D: 1}
		}
	default: // general small integer matrix
		m = IntMap{A: rapid.IntRange(-3, 3).Draw(t, "ma"), B: rapid.IntRange(-3, 3).Draw(t, "mb"), C: rapid.IntRange(-3, 3).Draw(t, "mc"), D: rapid.IntRange(-3, 3).Draw(t, "md")}
		if m.A*m.D-m.B*m.C == 0 {
			m = IntMap{A: 1, D: 1}
		}
	}
	// translation keeping |c| <= 1024
	reach := (abs(m.A)+abs(m.B))*ext + 1
	reach2 := (abs(m.C)+abs(m.D))*ext + 1
	m.TX = rapid.IntRange(-(1024-min(reach, 1024)), 1024-min(reach, 1024)).Draw(t, "tx")
	m.TY = rapid.IntRange(-(1024-min(reach2, 1024)), 1024-min(reach2, 1024)).Draw(t, "ty")
	if rapid.Bool().Draw(t, "notranslate") {
		m.TX, m.TY = 0, 0
	}
	return m
}

func abs(a int) int {
	if a < 0 {
		return -a
	}
	return a
}

// Apply maps every position of g (XY only; integral inputs stay integral).
func (m IntMap) Apply(g gm.G) gm.G {
	return g.MapPositions(func(p []gm.F, ct int) []gm.F {
		x, y := float64(p[0]), float64(p[1])
		p[0] = gm.F(float64(m.A)*x + float64(m.B)*y + float64(m.TX))
		p[1] = gm.F(float64(m.C)*x + float64(m.D)*y + float64(m.TY))
		return p
	})
}

// HolesPolygon builds a polygon (validity NOT ensured) whose shell is a square
// one cell larger than the complex and whose holes are the outer rings of the
// edge-connected components of a drawn triangle subset. Holes touching each
// other at vertices in chains or cycles give valid polygons, multi-touching
// rings, nested holes and - when a cycle of touching holes closes - a
// disconnected interior.
func (c Complex) HolesPolygon(t *rapid.T) gm.G {
	n := c.numTri()
	sel := make([]bool, n)
	density := rapid.IntRange(1, 3).Draw(t, "holedensity")
	for i := range sel {
		sel[i] = rapid.IntRange(0, 4).Draw(t, "holetri") < density
	}
	lo0, lo1 := float64(c.Off[0]-2), float64(c.Off[1]-2)
	hi0, hi1 := float64(c.Off[0]+2*c.K+2), float64(c.Off[1]+2*c.K+2)
	g := gm.G{T: gm.Polygon, Rings: [][]gm.F{gm.Fs(lo0, lo1, hi0, lo1, hi0, hi1, lo0, hi1, lo0, lo1)}}
	for _, p := range c.PolygonsFromTriangles(sel, rapid.Bool().Draw(t, "holedropcollinear")) {
		g.Rings = append(g.Rings, p.Rings[0])
	}
	return g
}

// Package h is the shared property harness: a property is a generator of a
// serialisable Case plus a pure check of that Case.  The harness drives it with
// rapid, keeps the evidence counters, turns panics into failures, writes replay
// files, and replays regress / known-finding inputs without rapid.
package h

import (
	"encoding/json"
	"fmt"
	"hash/fnv"
	"os"
	"path/filepath"
	"runtime/debug"
	"sort"
	"strconv"
	"strings"
	"sync"
	"syscall"
	"testing"
	"time"

	"pgregory.net/rapid"
)

// HarnessBug is panicked by checks when the harness itself cannot proceed
// (never a violation: the run becomes inconclusive).
type HarnessBug string

func (b HarnessBug) Error() string      { return "harness bug: " + string(b) }
func (b HarnessBug) IsHarnessBug() bool { return true }

// Failure describes one violation.  Class identifies the kind of failure (used
// to match known findings); Msg is free text.
type Failure struct {
	Class string `json:"class"`
	Msg   string `json:"msg"`
}

func Failf(class, format string, args ...interface{}) *Failure {
	return &Failure{Class: class, Msg: fmt.Sprintf(format, args...)}
}

// Ctx is handed to generators and checks.
type Ctx struct {
	Tier     string // quick | thorough
	Thorough bool
	Shard    int
	NShards  int
	Seed     int64

	part *Part
	// per-case scratch
	nontrivial bool
	classes    []string
	sample     interface{}
}

// NonTrivial marks the current case as non-trivial by the property's rule.
func (c *Ctx) NonTrivial() { c.nontrivial = true }

// Class adds a label to the class histogram for the current case.
func (c *Ctx) Class(label string) { c.classes = append(c.classes, label) }

// Skip counts a skipped sub-check (never a violation).
func (c *Ctx) Skip(reason string) { c.part.Skipped[reason]++ }

// Count adds n to a named counter in the evidence.
func (c *Ctx) Count(name string, n int64) { c.part.Counters[name] += n }

// Max records the maximum of a named measurement.
func (c *Ctx) Max(name string, v float64) {
	if old, ok := c.part.Maxima[name]; !ok || v > old {
		c.part.Maxima[name] = v
	}
}

// Distinct records a value in a named distinct-set (e.g. DE-9IM matrices seen).
func (c *Ctx) Distinct(set, value string) {
	m := c.part.Sets[set]
	if m == nil {
		m = map[string]bool{}
		c.part.Sets[set] = m
	}
	if len(m) < 5000 {
		m[value] = true
	}
}

// Sample overrides what is stored as the sample for this case (default: the case).
func (c *Ctx) Sample(v interface{}) { c.sample = v }

// Part is what one shard process reports to the driver.
type Part struct {
	Property    string              `json:"property"`
	Shard       int                 `json:"shard"`
	Evaluations int64               `json:"evaluations"`
	NonTrivial  int64               `json:"nontrivial"`
	Hashes      []string            `json:"hashes"`
	HashesCap   bool                `json:"hashes_capped"`
	Samples     []interface{}       `json:"samples"`
	Classes     map[string]int64    `json:"classes"`
	Skipped     map[string]int64    `json:"skipped"`
	Counters    map[string]int64    `json:"counters"`
	Maxima      map[string]float64  `json:"maxima"`
	SetsOut     map[string][]string `json:"sets"`
	Excluded    map[string]int64    `json:"excluded_known_findings"`
	Rule        string              `json:"rule"`
	Exhaustive  []string            `json:"exhaustive_subspaces"`
	Regress     int                 `json:"regress_cases_replayed"`
	Failure     *FailureRec         `json:"failure,omitempty"`
	WallS       float64             `json:"wall_s"`
	Done        bool                `json:"done"`
	Assumptions []string            `json:"assumptions"`

	Sets   map[string]map[string]bool `json:"-"`
	hashes map[uint64]struct{}
}

type FailureRec struct {
	Class  string `json:"class"`
	Msg    string `json:"msg"`
	Replay string `json:"replay"`
}

const maxHashes = 300000

// Prop is one property.
type Prop[C any] struct {
	ID          string
	Rule        string
	Assumptions []string
	// Gen draws a case; every random choice must be a rapid draw.
	Gen func(t *rapid.T, cx *Ctx) C
	// Check decides the case.  It must be a pure function of the case.
	Check func(c C, cx *Ctx) *Failure
	// Enumerate (optional) yields deterministic cases (exhaustive sub-spaces)
	// before the random search; it is sharded by the harness (case i goes to
	// shard i mod NShards).  It returns the names of the sub-spaces covered.
	Enumerate func(cx *Ctx, yield func(C)) []string
	// NoPanicFailure: panics inside Check are re-raised instead of reported
	// (used when the panic would be a harness bug).
	PanicIsHarnessBug bool
	// WholeCheckLimit > 0: the oracle of this property does negligible work of its own, so a Check that does
	// not return within the limit is a library call that does not return (reported as hang/check:<ID> after
	// the driver has confirmed it by re-running the journaled case alone).
	WholeCheckLimit time.Duration
}

// ReplayFile is the on-disk form of a case.
type ReplayFile struct {
	Property string          `json:"property"`
	Class    string          `json:"class,omitempty"`
	Msg      string          `json:"msg,omitempty"`
	Note     string          `json:"note,omitempty"`
	Case     json.RawMessage `json:"case"`
}

type KnownFinding struct {
	ID       string          `json:"id"`
	Property string          `json:"property"`
	Status   string          `json:"status"` // open | fixed
	Class    string          `json:"class"`
	Commit   string          `json:"commit,omitempty"`
	What     string          `json:"what"`
	Case     json.RawMessage `json:"case,omitempty"`
}

func VerifDir() string {
	if d := os.Getenv("VERIF_DIR"); d != "" {
		return d
	}
	return "/verif"
}

func LoadKnown() []KnownFinding {
	b, err := os.ReadFile(filepath.Join(VerifDir(), "known_findings.json"))
	if err != nil {
		return nil
	}
	var f struct {
		Findings []KnownFinding `json:"findings"`
	}
	if err := json.Unmarshal(b, &f); err != nil {
		panic("known_findings.json: " + err.Error())
	}
	return f.Findings
}

func envInt(name string, def int64) int64 {
	if s := os.Getenv(name); s != "" {
		if v, err := strconv.ParseInt(s, 10, 64); err == nil {
			return v
		}
	}
	return def
}

func newCtx(id string) *Ctx {
	tier := os.Getenv("VERIF_TIER")
	if tier == "" {
		tier = "quick"
	}
	cx := &Ctx{
		Tier: tier, Thorough: tier == "thorough",
		Shard:   int(envInt("VERIF_SHARD", 0)),
		NShards: int(envInt("VERIF_NSHARDS", 1)),
		Seed:    envInt("VERIF_SEED", 1),
	}
	cx.part = &Part{
		Property: id, Shard: cx.Shard,
		Classes: map[string]int64{}, Skipped: map[string]int64{}, Counters: map[string]int64{},
		Maxima: map[string]float64{}, Excluded: map[string]int64{},
		Sets: map[string]map[string]bool{}, hashes: map[uint64]struct{}{},
	}
	return cx
}

// NewScratchCtx returns a context whose counters are discarded (native fuzz targets).
func NewScratchCtx(id string) *Ctx { return newCtx(id) }

func (p *Part) write() {
	out := os.Getenv("VERIF_PART_OUT")
	if out == "" {
		return
	}
	p.Hashes = p.Hashes[:0]
	for hsh := range p.hashes {
		p.Hashes = append(p.Hashes, strconv.FormatUint(hsh, 16))
	}
	sort.Strings(p.Hashes)
	p.SetsOut = map[string][]string{}
	for k, m := range p.Sets {
		var l []string
		for v := range m {
			l = append(l, v)
		}
		sort.Strings(l)
		p.SetsOut[k] = l
	}
	b, err := json.Marshal(p)
	if err != nil {
		panic(err)
	}
	tmp := out + ".tmp"
	if err := os.WriteFile(tmp, b, 0o644); err != nil {
		panic(err)
	}
	os.Rename(tmp, out)
}

func hashBytes(b []byte) uint64 {
	f := fnv.New64a()
	f.Write(b)
	return f.Sum64()
}

// runner holds state for one test invocation.
type runner[C any] struct {
	p     Prop[C]
	cx    *Ctx
	known map[string]bool // open known-finding classes for this property
	// last failure seen (rapid re-runs the minimal case last)
	lastFail     *Failure
	lastFailCase []byte
	nSamples     int
}

func (r *runner[C]) safeCheck(c C) (f *Failure) {
	if !r.p.PanicIsHarnessBug {
		defer func() {
			if rec := recover(); rec != nil {
				if hb, ok := rec.(interface{ IsHarnessBug() bool }); ok && hb.IsHarnessBug() {
					panic(rec) // an oracle assertion failed: inconclusive, never a violation
				}
				st := string(debug.Stack())
				f = &Failure{Class: "panic/" + panicSite(st), Msg: fmt.Sprintf("panic: %v\n%s", rec, trimStack(st))}
			}
		}()
	}
	if r.p.WholeCheckLimit > 0 {
		LibT("check:"+r.p.ID, r.p.WholeCheckLimit, func() { f = r.p.Check(c, r.cx) })
		return f
	}
	return r.p.Check(c, r.cx)
}

// panicSite extracts the first simplefeatures frame below the panic.
func panicSite(st string) string {
	lines := strings.Split(st, "\n")
	seenPanic := false
	for _, l := range lines {
		if strings.HasPrefix(l, "panic(") {
			seenPanic = true
			continue
		}
		if seenPanic && strings.Contains(l, "simplefeatures/") && !strings.HasPrefix(l, "\t") {
			l = l[strings.Index(l, "simplefeatures/")+len("simplefeatures/"):]
			if i := strings.LastIndex(l, "("); i > 0 {
				l = l[:i]
			}
			return l
		}
	}
	return "unknown"
}

func trimStack(st string) string {
	lines := strings.Split(st, "\n")
	if len(lines) > 40 {
		lines = lines[:40]
	}
	return strings.Join(lines, "\n")
}

// one evaluates one case with bookkeeping and returns the failure (nil if the
// property held or the failure is a listed open known finding).
// ---- library-call watchdog ----
//
// A check wraps calls into the library under test with Lib. If such a call does
// not return within libHangLimit the process writes "<inflight>.libhang" (the
// call's name) and exits with status 3; the driver confirms by re-running the
// journaled case alone. Time spent in the oracle is never counted, so a slow
// harness cannot be mistaken for a hanging library.
var (
	libMu       sync.Mutex
	libName     string
	libSince    time.Time
	libLimit    time.Duration
	libCPU      time.Duration
	libWatchdog sync.Once
)

const libHangLimit = 60 * time.Second

func Lib(name string, fn func()) { LibT(name, libHangLimit, fn) }

// processCPU: user+system CPU time consumed by this process so far.
func processCPU() time.Duration {
	var ru syscall.Rusage
	if syscall.Getrusage(syscall.RUSAGE_SELF, &ru) != nil {
		return 0
	}
	return time.Duration(ru.Utime.Nano() + ru.Stime.Nano())
}

// LibT is Lib with its own limit.  Calls nest: the inner call takes over the watchdog and hands it back.
func LibT(name string, limit time.Duration, fn func()) {
	if sc := os.Getenv("VERIF_WATCHDOG_SCALE"); sc != "" { // e.g. 0.05 when testing the watchdog itself, 4 on a busy machine
		if v, err := strconv.ParseFloat(sc, 64); err == nil && v > 0 {
			limit = time.Duration(float64(limit) * v)
		}
	}
	libWatchdog.Do(func() {
		go func() {
			for {
				time.Sleep(time.Second)
				libMu.Lock()
				n, since, lim, cpu0 := libName, libSince, libLimit, libCPU
				libMu.Unlock()
				// A call that does not return burns CPU: the limit is on the CPU time this process has used since
				// the call began, so that a busy machine (the wall clock runs, the process does not) cannot make a
				// slow call look like a hang; the wall clock is only a backstop at ten times the limit.
				if n != "" && (processCPU()-cpu0 > lim || time.Since(since) > 10*lim) {
					if path := os.Getenv("VERIF_INFLIGHT"); path != "" {
						os.WriteFile(path+".libhang", []byte(n), 0o644)
					}
					fmt.Printf("LIBRARY-CALL-HANG %s did not return within %v\n", n, lim)
					os.Exit(3)
				}
			}
		}()
	})
	libMu.Lock()
	pn, ps, pl, pc := libName, libSince, libLimit, libCPU
	libName, libSince, libLimit, libCPU = name, time.Now(), limit, processCPU()
	libMu.Unlock()
	defer func() {
		libMu.Lock()
		libName, libSince, libLimit, libCPU = pn, ps, pl, pc
		libMu.Unlock()
	}()
	fn()
}

var inflightFile *os.File

// journal records the case about to run so that the driver can name it if the
// process dies or hangs.
func journal(c interface{}) {
	if inflightFile == nil {
		path := os.Getenv("VERIF_INFLIGHT")
		if path == "" {
			return
		}
		f, err := os.Create(path)
		if err != nil {
			return
		}
		inflightFile = f
	}
	b, err := json.Marshal(c)
	if err != nil {
		return
	}
	inflightFile.Truncate(0)
	inflightFile.WriteAt(b, 0)
}

func journalDone() {
	if inflightFile != nil {
		inflightFile.Truncate(0)
	}
}

func (r *runner[C]) one(c C, count bool) *Failure {
	journal(c)
	defer journalDone()
	cx := r.cx
	cx.nontrivial, cx.classes, cx.sample = false, cx.classes[:0], nil
	f := r.safeCheck(c)
	if count {
		pt := cx.part
		pt.Evaluations++
		for _, cl := range cx.classes {
			pt.Classes[cl]++
		}
		if cx.nontrivial {
			pt.NonTrivial++
			b, _ := json.Marshal(c)
			if len(pt.hashes) < maxHashes {
				pt.hashes[hashBytes(b)] = struct{}{}
			} else {
				pt.HashesCap = true
			}
			n := pt.NonTrivial
			if n <= 2 || n == 10 || n == 100 || n == 1000 || n == 10000 {
				if cx.sample != nil {
					pt.Samples = append(pt.Samples, cx.sample)
				} else {
					pt.Samples = append(pt.Samples, json.RawMessage(b))
				}
			}
		}
	}
	if f != nil && r.known[f.Class] {
		cx.part.Excluded[f.Class]++
		return nil
	}
	if f != nil {
		b, _ := json.Marshal(c)
		r.lastFail, r.lastFailCase = f, b
	}
	return f
}

func (r *runner[C]) writeReplay() string {
	dir := filepath.Join(VerifDir(), "replays")
	os.MkdirAll(dir, 0o755)
	name := fmt.Sprintf("%s-%016x.json", r.p.ID, hashBytes(r.lastFailCase))
	path := filepath.Join(dir, name)
	rf := ReplayFile{Property: r.p.ID, Class: r.lastFail.Class, Msg: r.lastFail.Msg, Case: r.lastFailCase}
	b, _ := json.MarshalIndent(rf, "", " ")
	os.WriteFile(path, b, 0o644)
	return path
}

// Run executes the property in the mode selected by VERIF_MODE.
func Run[C any](t *testing.T, p Prop[C]) {
	cx := newCtx(p.ID)
	cx.part.Rule = p.Rule
	cx.part.Assumptions = p.Assumptions
	r := &runner[C]{p: p, cx: cx, known: map[string]bool{}}
	for _, k := range LoadKnown() {
		if k.Property == p.ID && k.Status == "open" {
			r.known[k.Class] = true
		}
	}
	start := time.Now()
	mode := os.Getenv("VERIF_MODE")
	switch mode {
	case "replay":
		path := os.Getenv("VERIF_REPLAY")
		f, err := r.replayFile(path)
		if err != nil {
			t.Fatalf("replay %s: %v", path, err)
		}
		if f != nil {
			fmt.Printf("REPLAY-FAIL property=%s class=%s\n%s\n", p.ID, f.Class, f.Msg)
			t.Fail()
		} else {
			fmt.Printf("REPLAY-PASS property=%s\n", p.ID)
		}
		return
	case "known":
		// run one known-finding input with known-class suppression OFF
		r.known = map[string]bool{}
		path := os.Getenv("VERIF_REPLAY")
		f, err := r.replayFile(path)
		if err != nil {
			t.Fatalf("known %s: %v", path, err)
		}
		if f != nil {
			fmt.Printf("KNOWN-REPRODUCES class=%s\n", f.Class)
		} else {
			fmt.Printf("KNOWN-PASSES\n")
		}
		return
	}

	defer func() {
		cx.part.WallS = time.Since(start).Seconds()
		if r.lastFail != nil && t.Failed() {
			path := r.writeReplay()
			cx.part.Failure = &FailureRec{Class: r.lastFail.Class, Msg: r.lastFail.Msg, Replay: path}
		}
		cx.part.Done = true
		cx.part.write()
	}()

	// regress tier (shard 0 only)
	if cx.Shard == 0 {
		files, _ := filepath.Glob(filepath.Join(VerifDir(), "regress", p.ID, "*.json"))
		sort.Strings(files)
		for _, fn := range files {
			f, err := r.replayFile(fn)
			if err != nil {
				t.Fatalf("regress %s: %v", fn, err)
			}
			cx.part.Regress++
			if f != nil {
				t.Errorf("regress case %s failed: [%s] %s", fn, f.Class, f.Msg)
				return
			}
		}
	}
	if mode == "regress" {
		return
	}

	if p.Enumerate != nil {
		i := 0
		var failed bool
		names := p.Enumerate(cx, func(c C) {
			idx := i
			i++
			if failed || idx%cx.NShards != cx.Shard {
				return
			}
			if f := r.one(c, true); f != nil {
				failed = true
				t.Errorf("enumerated case failed: [%s] %s", f.Class, f.Msg)
			}
		})
		cx.part.Exhaustive = names
		if cx.Shard == 0 {
			cx.part.Counters["enumerated_cases_total"] += int64(i)
		}
		if failed {
			return
		}
	}

	if p.Gen != nil {
		rapid.Check(t, func(rt *rapid.T) {
			c := p.Gen(rt, cx)
			if f := r.one(c, true); f != nil {
				rt.Fatalf("[%s] %s", f.Class, f.Msg)
			}
		})
	}
}

func (r *runner[C]) replayFile(path string) (*Failure, error) {
	b, err := os.ReadFile(path)
	if err != nil {
		return nil, err
	}
	var rf ReplayFile
	if err := json.Unmarshal(b, &rf); err != nil {
		return nil, err
	}
	var c C
	if err := json.Unmarshal(rf.Case, &c); err != nil {
		return nil, err
	}
	return r.one(c, false), nil
}

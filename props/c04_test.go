package props

import (
	"bytes"
	"database/sql/driver"
	"encoding/hex"
	"fmt"
	"reflect"
	"testing"
	"time"

	"github.com/peterstace/simplefeatures/geom"
	"pgregory.net/rapid"

	"verif/internal/apienum"
	"verif/internal/codec"
	"verif/internal/gen"
	"verif/internal/gm"
	"verif/internal/h"
)

// ---------- C04: WKB encoding is lossless and decoding is its exact inverse ----------

type C04Case struct {
	// RawHex: when set the case is raw bytes (native fuzzing / replay): decode-encode-decode fixpoint only.
	RawHex   string `json:"raw_hex,omitempty"`
	G        gm.G   `json:"g"`
	Orders   []bool `json:"orders"`   // per-element byte order for the independent writer (true = big endian)
	Trailing string `json:"trailing"` // hex of bytes appended after the encoding
	Prefix   string `json:"prefix"`   // hex prefix for AppendWKB
	Valid    bool   `json:"valid"`    // generated from the valid-by-construction family (Scan is exercised)
}

func c04Gen(t *rapid.T, cx *h.Ctx) C04Case {
	valid := rapid.IntRange(0, 2).Draw(t, "validfamily") == 0
	o := gen.Opts{XY: gen.FiniteFloat, ZM: gen.AnyFloat, CT: -1, AllowZero: true, ValidShapes: valid}
	c := C04Case{G: gen.Structure(t, o), Valid: valid}
	if !valid && rapid.IntRange(0, 5).Draw(t, "closingzero") == 0 {
		// closing position equal to the first numerically, not bit for bit (0 against -0)
		c.G = closingSignedZero(c.G, rapid.SliceOfN(rapid.IntRange(0, 15), 1, 4).Draw(t, "closingzeroseeds"))
	}
	c.Orders = rapid.SliceOfN(rapid.Bool(), 1, 12).Draw(t, "orders")
	c.Trailing = hex.EncodeToString(rapid.SliceOfN(rapid.Byte(), 0, 9).Draw(t, "trailing"))
	c.Prefix = hex.EncodeToString(rapid.SliceOfN(rapid.Byte(), 0, 5).Draw(t, "prefix"))
	return c
}

func hasSpecialFloat(g gm.G) bool {
	for _, f := range g.AllOrdinates() {
		v := float64(f)
		if v != float64(int64(v)) || v != v || v == 0 && 1/v < 0 || v > 1e15 || v < -1e15 {
			return true
		}
	}
	return false
}

func hasEmptyMember(g gm.G) bool {
	found := false
	for _, m := range g.Mem {
		if m.IsEmpty() || hasEmptyMember(m) {
			found = true
		}
	}
	return found
}

func c04Check(c C04Case, cx *h.Ctx) *h.Failure {
	if c.RawHex != "" {
		b, _ := hex.DecodeString(c.RawHex)
		cx.Class("raw-bytes")
		return c04Raw(b)
	}
	model := c.G.Norm()
	g := c.G.ToGeom()
	cx.Class("type=" + model.T)
	cx.Class("ct=" + gm.CTName(model.CT))

	// the model must survive construction + accessors (precondition for the rest)
	if d := gm.Diff(model, gm.FromGeom(g)); d != "" {
		return h.Failf("wkb/construct-readback", "geometry built from model reads back differently: %s\nmodel %s", d, model)
	}

	lib := g.AsBinary()
	// the returned bytes are the caller's: later encodings (same geometry, another of the same type, others) leave them alone
	{
		held := append([]byte(nil), lib...)
		for _, other := range []geom.Geometry{dirty(model.T), g, dirty(gm.GeometryCollection)} {
			other.AsBinary()
			other.AppendWKB(nil)
		}
		if !bytes.Equal(lib, held) {
			return h.Failf("wkb/result-overwritten", "the bytes returned by AsBinary() changed after later AsBinary/AppendWKB calls:\nwas %x\nnow %x", held, lib)
		}
		for _, method := range []string{"AsBinary", "Value"} {
			if msg := scribbleEncoders(g, method); msg != "" {
				return h.Failf("wkb/result-shared", "%s (%s)", msg, model)
			}
		}
		if msg := scribbleStable("AppendWKB(nil)", func() []byte { return g.AppendWKB(nil) }); msg != "" {
			return h.Failf("wkb/result-shared", "%s (%s)", msg, model)
		}
	}
	// (f) independent reader decodes the library's bytes to the model
	dec, used, err := codec.DecodeWKB(lib)
	if err != nil {
		return h.Failf("wkb/independent-reader-error", "independent reader rejects AsBinary() of %s: %v\n%x", model, err, lib)
	}
	if used != len(lib) {
		return h.Failf("wkb/extra-bytes", "AsBinary() of %s has %d bytes, a strict reader consumes %d", model, len(lib), used)
	}
	if d := gm.Diff(model, dec); d != "" {
		return h.Failf("wkb/encode-wrong", "AsBinary() of %s decodes (independent reader) to a different geometry: %s\n%x", model, d, lib)
	}
	// (a) same length as the independent writer (bytes may differ only in empty-Point NaN payloads / byte order)
	ind := codec.EncodeWKB(model, nil)
	if len(ind) != len(lib) {
		return h.Failf("wkb/length", "AsBinary() has %d bytes, independent writer %d for %s", len(lib), len(ind), model)
	}
	// AppendWKB(prefix) = prefix || AsBinary()
	prefix, _ := hex.DecodeString(c.Prefix)
	app := g.AppendWKB(append([]byte(nil), prefix...))
	if !bytes.Equal(app, append(append([]byte(nil), prefix...), lib...)) {
		return h.Failf("wkb/append", "AppendWKB(prefix) != prefix||AsBinary() for %s", model)
	}
	// appending again to the result gives prefix || enc || enc (no state carried over from the first call)
	if app2 := g.AppendWKB(app); !bytes.Equal(app2, append(append(append([]byte(nil), prefix...), lib...), lib...)) {
		return h.Failf("wkb/append", "AppendWKB applied twice != prefix||AsBinary()||AsBinary() for %s", model)
	}
	// ... also when the destination has spare capacity (exactly enough, one byte short, plenty): the prefix is
	// untouched, the encoding follows it, and bytes of the backing array beyond the result are not written
	for _, spare := range []int{len(lib), len(lib) - 1, len(lib) + 57} {
		if spare < 0 {
			continue
		}
		backing := make([]byte, len(prefix)+spare+8)
		for i := range backing {
			backing[i] = 0xA5
		}
		copy(backing, prefix)
		dst := backing[: len(prefix) : len(prefix)+spare]
		app := g.AppendWKB(dst)
		if !bytes.Equal(app, append(append([]byte(nil), prefix...), lib...)) {
			return h.Failf("wkb/append", "AppendWKB(prefix with %d spare bytes) != prefix||AsBinary() for %s", spare, model)
		}
		for i := len(prefix) + spare; i < len(backing); i++ {
			if backing[i] != 0xA5 {
				return h.Failf("wkb/append-overrun", "AppendWKB wrote beyond the capacity of its destination (byte %d) for %s", i, model)
			}
		}
	}
	// (b) library decode is the exact inverse; re-encode reproduces the bytes
	back, err := geom.UnmarshalWKB(lib, geom.NoValidate{})
	if err != nil {
		return h.Failf("wkb/decode-own-output", "UnmarshalWKB(AsBinary()) fails for %s: %v", model, err)
	}
	if d := gm.Diff(model, gm.FromGeom(back)); d != "" {
		return h.Failf("wkb/roundtrip", "UnmarshalWKB(AsBinary()) differs from the original %s: %s", model, d)
	}
	if re := back.AsBinary(); !bytes.Equal(re, lib) {
		return h.Failf("wkb/reencode", "re-encoding the decoded geometry gives different bytes for %s:\n%x\n%x", model, lib, re)
	}
	// (c) mixed-endian encoding of the same model decodes to the same value
	mixed := codec.EncodeWKB(model, c.Orders)
	gm2, err := geom.UnmarshalWKB(mixed, geom.NoValidate{})
	if err != nil {
		return h.Failf("wkb/decode-mixed-endian", "UnmarshalWKB of a mixed byte order encoding of %s fails: %v\n%x", model, err, mixed)
	}
	if d := gm.Diff(model, gm.FromGeom(gm2)); d != "" {
		return h.Failf("wkb/mixed-endian-differs", "mixed byte order encoding (orders %v) of %s decodes differently: %s\n%x", c.Orders, model, d, mixed)
	}
	// (c') the decoded value owns its data: the caller may reuse or clear the input buffer afterwards (database
	// drivers do), at any alignment of the buffer, and encoders must not hand out storage they will reuse
	for ai, src := range [][]byte{lib, mixed} {
		for _, off := range []int{0, 1, 3, 8} {
			backing := make([]byte, off+len(src))
			buf := backing[off:]
			copy(buf, src)
			dec, err := geom.UnmarshalWKB(buf, geom.NoValidate{})
			if err != nil {
				return h.Failf("wkb/decode-own-output", "UnmarshalWKB fails at buffer offset %d: %v", off, err)
			}
			var sc geom.Geometry
			scanned := g.Validate() == nil && sc.Scan(buf) == nil
			for i := range buf {
				buf[i] = 0xFF
			}
			if d := gm.Diff(model, gm.FromGeom(dec)); d != "" {
				return h.Failf("wkb/result-aliases-input", "the geometry returned by UnmarshalWKB (encoding %d, buffer offset %d) changed when the input buffer was overwritten: %s", ai, off, d)
			}
			if scanned {
				if d := gm.Diff(model, gm.FromGeom(sc)); d != "" {
					return h.Failf("wkb/result-aliases-input", "the geometry stored by Scan changed when the source buffer was overwritten: %s", d)
				}
			}
		}
	}
	if v1, err := g.Value(); err == nil {
		keep := append([]byte(nil), v1.([]byte)...)
		for _, other := range []geom.Geometry{dirty(gm.Polygon), dirty(gm.Point), g} {
			if _, err := other.Value(); err != nil {
				return h.Failf("wkb/value-error", "Value(): %v", err)
			}
			_ = other.AsBinary()
		}
		if !bytes.Equal(v1.([]byte), keep) {
			return h.Failf("wkb/value-storage-reused", "the []byte returned by Value() changed after later Value()/AsBinary() calls on other geometries")
		}
	}
	// (d) trailing bytes ignored
	trailing, _ := hex.DecodeString(c.Trailing)
	g3, err := geom.UnmarshalWKB(append(append([]byte(nil), mixed...), trailing...), geom.NoValidate{})
	if err != nil {
		return h.Failf("wkb/trailing-rejected", "trailing bytes %x make UnmarshalWKB fail for %s: %v", trailing, model, err)
	}
	if d := gm.Diff(model, gm.FromGeom(g3)); d != "" {
		return h.Failf("wkb/trailing-changes-value", "trailing bytes %x change the decoded value of %s: %s", trailing, model, d)
	}

	// (e) Value / Scan of Geometry, concrete types and NullGeometry (Scan validates)
	if f := c04Scan(model, g, lib, mixed, cx); f != nil {
		return f
	}

	mixedOrder := false
	for _, o := range c.Orders {
		if o {
			mixedOrder = true
		}
	}
	if model.Depth() >= 2 || hasEmptyMember(model) || hasSpecialFloat(model) || mixedOrder {
		cx.NonTrivial()
	}
	if hasEmptyMember(model) {
		cx.Class("has-empty-member")
	}
	cx.Sample(map[string]interface{}{"wkt": model.String(), "orders": c.Orders, "mixed_wkb": hex.EncodeToString(mixed)})
	return nil
}

type valuer interface {
	Value() (driver.Value, error)
}

func c04Scan(model gm.G, g geom.Geometry, lib, mixed []byte, cx *h.Ctx) *h.Failure {
	v, err := g.Value()
	if err != nil {
		return h.Failf("wkb/value-error", "Geometry.Value() error: %v", err)
	}
	vb, ok := v.([]byte)
	if !ok || !bytes.Equal(vb, lib) {
		return h.Failf("wkb/value-differs", "Geometry.Value() is not AsBinary() for %s", model)
	}
	// which geometries Scan accepts depends on XY only: non-finite or arbitrary Z/M values do not make a geometry invalid
	if (g.Validate() == nil) != (g.Force2D().Validate() == nil) {
		return h.Failf("wkb/validity-depends-on-zm", "Validate() = %v but %v for the same geometry without its Z/M values: %s", g.Validate(), g.Force2D().Validate(), model)
	}
	if g.Validate() != nil {
		cx.Class("scan=skipped-invalid")
		return nil
	}
	cx.Class("scan=exercised")
	for si, src := range []interface{}{lib, string(lib), mixed, string(mixed)} {
		dst := dirty(gm.Types[si%len(gm.Types)]) // the destination already holds another value
		if err := dst.Scan(src); err != nil {
			return h.Failf("wkb/scan-error", "Geometry.Scan (source %d) fails on a valid geometry %s: %v", si, model, err)
		}
		if d := gm.Diff(model, gm.FromGeom(dst)); d != "" {
			return h.Failf("wkb/scan-differs", "Geometry.Scan gives a different geometry for %s: %s", model, d)
		}
		// a copy taken of the destination keeps its value when the destination is scanned into again (the next
		// row of a query), also when the next geometry has the same type
		held := dst
		for _, next := range []geom.Geometry{dirty(model.Norm().T), dirty(gm.GeometryCollection), g.Reverse()} {
			if next.Validate() != nil {
				continue // Scan validates; at subnormal magnitudes the reversal of a ring the library accepts can be rejected
			}
			if err := dst.Scan(next.AsBinary()); err != nil {
				return h.Failf("wkb/scan-error", "Geometry.Scan of a second row fails: %v", err)
			}
			if d := gm.Diff(model, gm.FromGeom(held)); d != "" {
				return h.Failf("wkb/scan-overwrites-held-copy", "a copy of the destination taken after the first Scan changed when the destination was scanned into again: %s", d)
			}
		}
		ng := geom.NullGeometry{Geometry: dirty(gm.Types[(si+3)%len(gm.Types)]), Valid: si%2 == 0}
		if err := ng.Scan(src); err != nil || !ng.Valid {
			return h.Failf("wkb/nullscan-error", "NullGeometry.Scan fails on %s: %v valid=%v", model, err, ng.Valid)
		}
		if d := gm.Diff(model, gm.FromGeom(ng.Geometry)); d != "" {
			return h.Failf("wkb/nullscan-differs", "NullGeometry.Scan gives a different geometry for %s: %s", model, d)
		}
		nv, err := ng.Value()
		if nb, ok := nv.([]byte); err != nil || !ok || !bytes.Equal(nb, lib) {
			return h.Failf("wkb/nullvalue", "NullGeometry.Value() differs from AsBinary() for %s", model)
		}
	}
	var ng geom.NullGeometry
	ng.Valid = true
	if err := ng.Scan(nil); err != nil || ng.Valid {
		return h.Failf("wkb/nullscan-nil", "NullGeometry.Scan(nil): err=%v valid=%v", err, ng.Valid)
	}
	// a NULL row after a non-NULL row in the same destination: nothing of the previous row is left (as with sql.NullString)
	ng2 := geom.NullGeometry{}
	if err := ng2.Scan(lib); err != nil || !ng2.Valid {
		return h.Failf("wkb/nullscan-error", "NullGeometry.Scan fails on %s: %v", model, err)
	}
	if err := ng2.Scan(nil); err != nil || ng2.Valid || !ng2.Geometry.IsEmpty() || ng2.Geometry.Type() != geom.TypeGeometryCollection {
		return h.Failf("wkb/nullscan-nil-keeps-previous", "NullGeometry.Scan(nil) after a non-NULL row: err=%v valid=%v geometry=%s (want the zero Geometry)", err, ng2.Valid, ng2.Geometry.AsText())
	}
	if v, err := (geom.NullGeometry{}).Value(); v != nil || err != nil {
		return h.Failf("wkb/nullvalue-nil", "NullGeometry{}.Value() = %v, %v", v, err)
	}
	var gdst geom.Geometry
	if err := gdst.Scan(nil); err == nil {
		return h.Failf("wkb/scan-nil-accepted", "Geometry.Scan(nil) succeeded")
	}

	// each concrete type: Scan succeeds iff the type matches, and round trips
	type target struct {
		name string
		scan func(src interface{}) (geom.Geometry, driver.Value, error)
	}
	targets := []target{
		{gm.Point, func(s interface{}) (geom.Geometry, driver.Value, error) {
			x := dirty("Point").MustAsPoint() // the destination already holds another value
			err := x.Scan(s)
			v, _ := x.Value()
			return x.AsGeometry(), v, err
		}},
		{gm.LineString, func(s interface{}) (geom.Geometry, driver.Value, error) {
			x := dirty("LineString").MustAsLineString() // the destination already holds another value
			err := x.Scan(s)
			v, _ := x.Value()
			return x.AsGeometry(), v, err
		}},
		{gm.Polygon, func(s interface{}) (geom.Geometry, driver.Value, error) {
			x := dirty("Polygon").MustAsPolygon() // the destination already holds another value
			err := x.Scan(s)
			v, _ := x.Value()
			return x.AsGeometry(), v, err
		}},
		{gm.MultiPoint, func(s interface{}) (geom.Geometry, driver.Value, error) {
			x := dirty("MultiPoint").MustAsMultiPoint() // the destination already holds another value
			err := x.Scan(s)
			v, _ := x.Value()
			return x.AsGeometry(), v, err
		}},
		{gm.MultiLineString, func(s interface{}) (geom.Geometry, driver.Value, error) {
			x := dirty("MultiLineString").MustAsMultiLineString() // the destination already holds another value
			err := x.Scan(s)
			v, _ := x.Value()
			return x.AsGeometry(), v, err
		}},
		{gm.MultiPolygon, func(s interface{}) (geom.Geometry, driver.Value, error) {
			x := dirty("MultiPolygon").MustAsMultiPolygon() // the destination already holds another value
			err := x.Scan(s)
			v, _ := x.Value()
			return x.AsGeometry(), v, err
		}},
		{gm.GeometryCollection, func(s interface{}) (geom.Geometry, driver.Value, error) {
			x := dirty("GeometryCollection").MustAsGeometryCollection() // the destination already holds another value
			err := x.Scan(s)
			v, _ := x.Value()
			return x.AsGeometry(), v, err
		}},
	}
	for _, tg := range targets {
		for _, src := range []interface{}{mixed, string(lib)} {
			got, val, err := tg.scan(src)
			if tg.name == model.T {
				if err != nil {
					return h.Failf("wkb/concrete-scan-error", "%s.Scan fails on a valid %s: %v", tg.name, model, err)
				}
				if d := gm.Diff(model, gm.FromGeom(got)); d != "" {
					return h.Failf("wkb/concrete-scan-differs", "%s.Scan gives a different geometry for %s: %s", tg.name, model, d)
				}
				if vb, ok := val.([]byte); !ok || !bytes.Equal(vb, lib) {
					return h.Failf("wkb/concrete-value", "%s.Value() after Scan differs from AsBinary() for %s", tg.name, model)
				}
			} else if err == nil {
				return h.Failf("wkb/concrete-scan-wrong-type-accepted", "%s.Scan accepted the WKB of a %s", tg.name, model)
			}
		}
	}
	return nil
}

func TestC04(t *testing.T) {
	h.Run(t, h.Prop[C04Case]{
		ID:              "C04",
		WholeCheckLimit: 300 * time.Second,
		Rule:            "cases = a geometry model (7 types x 4 coordinate types, empties at every position incl. empty Point in MultiPoint/collection, nesting to depth 4, Go zero values; XY from finite float64 classes, Z/M additionally NaN payloads and +-Inf; one third from a valid-by-construction family so that Scan is exercised) x a per-element byte-order bitmap x trailing bytes x AppendWKB prefix; oracles = independent WKB writer/reader written from the spec + structural bit-wise comparison of model trees; non-trivial = nesting depth >= 2 or an empty member or a non-integer/special float or a big-endian element; distinct = distinct case hashes",
		Assumptions:     []string{"independent WKB codec (internal/codec/wkb.go) follows ISO WKB", "gm model <-> geom conversion through public constructors/accessors is faithful (checked per case by read-back)"},
		Gen:             c04Gen,
		Check:           c04Check,
		Enumerate:       c04Enumerate,
	})
}

// c04Enumerate: wide collections (more members than any drawn structure has): 100, 101, 150, 1000 members of one
// collection, and a collection whose members' own member counts add up past 100.
func c04Enumerate(cx *h.Ctx, yield func(C04Case)) []string {
	pts := func(n int) []gm.G {
		out := make([]gm.G, n)
		for i := range out {
			out[i] = gm.G{T: gm.Point, Co: gm.Fs(float64(i), float64(2*i))}
		}
		return out
	}
	for _, n := range []int{100, 101, 150, 1000} {
		lines := make([]gm.G, n)
		for i := range lines {
			lines[i] = gm.G{T: gm.LineString, Co: gm.Fs(float64(i), 0, float64(i), 1)}
		}
		for _, g := range []gm.G{
			{T: gm.MultiPoint, Mem: pts(n)},
			{T: gm.GeometryCollection, Mem: pts(n)},
			{T: gm.MultiLineString, Mem: lines},
			{T: gm.GeometryCollection, Mem: append(pts(69), gm.G{T: gm.MultiPoint, Mem: pts(n / 2)}, gm.G{T: gm.GeometryCollection, Mem: lines[:n/3]})},
		} {
			yield(C04Case{G: g, Orders: []bool{false, true}, Valid: true})
		}
	}
	// polygons with hundreds of rings (decoded with NoValidate: the rings are tiny triangles on a diagonal), alone
	// and as a member
	for _, n := range []int{255, 256, 257, 300, 1000} {
		poly := gm.G{T: gm.Polygon}
		for i := 0; i < n; i++ {
			x := float64(3 * i)
			poly.Rings = append(poly.Rings, gm.Fs(x, x, x+1, x, x, x+1, x, x))
		}
		yield(C04Case{G: poly, Orders: []bool{true, false, false}})
		yield(C04Case{G: gm.G{T: gm.MultiPolygon, Mem: []gm.G{{T: gm.Polygon, Rings: [][]gm.F{gm.Fs(-9, -9, -8, -9, -8, -8, -9, -9)}}, poly}}, Orders: []bool{false}})
	}
	return []string{"collections of 100, 101, 150 and 1000 members (MultiPoint, MultiLineString, GeometryCollection, nested sums past 100)", "polygons with 255..1000 rings, alone and as a MultiPolygon member"}
}

var _ = fmt.Sprintf

// dirty returns a non-empty XYZM geometry of the named type: decode destinations are pre-populated with it so
// that a decoder which only partly overwrites its receiver shows.
func dirty(typ string) geom.Geometry {
	wkt := map[string]string{
		"Point":              "POINT ZM(9 9 9 9)",
		"LineString":         "LINESTRING ZM(9 9 9 9,8 8 8 8)",
		"Polygon":            "POLYGON ZM((9 9 9 9,8 9 8 8,8 8 7 7,9 9 9 9))",
		"MultiPoint":         "MULTIPOINT ZM((9 9 9 9),(8 8 8 8))",
		"MultiLineString":    "MULTILINESTRING ZM((9 9 9 9,8 8 8 8))",
		"MultiPolygon":       "MULTIPOLYGON ZM(((9 9 9 9,8 9 8 8,8 8 7 7,9 9 9 9)))",
		"GeometryCollection": "GEOMETRYCOLLECTION ZM(POINT ZM(9 9 9 9))",
	}[typ]
	g, err := geom.UnmarshalWKT(wkt)
	if err != nil {
		panic(h.HarnessBug("dirty geometry does not parse: " + err.Error()))
	}
	return g
}

// scribbleStable: the bytes an encoder returns belong to the caller. They are overwritten and the encoder is
// called again: the second result must be what the first was. "" if so.
func scribbleStable(name string, enc func() []byte) string {
	b1 := enc()
	want := append([]byte(nil), b1...)
	for i := range b1 {
		b1[i] ^= 0xff
	}
	if b2 := enc(); !bytes.Equal(b2, want) {
		return fmt.Sprintf("%s returned %x, the caller overwrote those bytes, and the next %s returned %x", name, want, name, b2)
	}
	return ""
}

// scribbleEncoders applies scribbleStable to the method (no arguments, first result []byte or driver.Value holding
// []byte) of g and of its concrete type.
func scribbleEncoders(g geom.Geometry, method string) string {
	for _, rv := range apienum.Receivers(g)[:2] {
		m := rv.MethodByName(method)
		if !m.IsValid() || m.Type().NumIn() != 0 || m.Type().NumOut() < 1 {
			continue
		}
		if msg := scribbleStable(rv.Type().Name()+"."+method+"()", func() []byte {
			out := m.Call(nil)[0]
			if out.Kind() == reflect.Interface {
				out = out.Elem()
			}
			if !out.IsValid() || out.Kind() != reflect.Slice {
				return nil
			}
			return out.Bytes()
		}); msg != "" {
			return msg
		}
	}
	return ""
}

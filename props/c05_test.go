package props

import (
	"bytes"
	"encoding/hex"
	"math"
	"strings"
	"testing"
	"time"

	"github.com/peterstace/simplefeatures/geom"
	"pgregory.net/rapid"

	"verif/internal/codec"
	"verif/internal/gen"
	"verif/internal/gm"
	"verif/internal/h"
)

// ---------- C05: WKT text is a faithful, re-parseable rendering ----------

type C05Case struct {
	// RawHex: when set the case is a raw text (native fuzzing / replay): parse-print-parse fixpoint only.
	RawHex   string        `json:"raw_hex,omitempty"`
	G        gm.G          `json:"g"`
	Prefix   string        `json:"prefix"` // hex
	Respell  codec.Respell `json:"respell"`
	Trailing string        `json:"trailing"` // token text appended (must be rejected)
	// Reject: when set, the case is just "this text must be rejected" (NaN/Inf numerals, mixed dimensions).
	Reject string `json:"reject,omitempty"`
}

var c05Seps = []string{"", " ", "  ", "\t", "\n", " \n\t ", "\r\n"}
var c05Trailing = []string{")", ",", "POINT(1 1)", "7", "EMPTY", "(", "Z", "x", "-", "1 1", ", POINT EMPTY", "POINT EMPTY",
	// lexically malformed trailers (the lexer, not the parser, has to refuse them)
	"1e", "0x", "2.5e+", "0b", "1_", "\xff", "\x00", "1.e", "@", "#", "0o8", "1e+", ".", "'"}

func c05Gen(t *rapid.T, cx *h.Ctx) C05Case {
	o := gen.Opts{XY: gen.FiniteFloat, ZM: gen.FiniteFloat, CT: -1, AllowZero: true}
	c := C05Case{G: gen.Structure(t, o)}
	c.Prefix = hex.EncodeToString(rapid.SliceOfN(rapid.SampledFrom([]byte{'(', ',', ' ', 'x', 'E', '0', ')'}), 0, 4).Draw(t, "prefix"))
	c.Respell.Seps = rapid.SliceOfN(rapid.SampledFrom(c05Seps), 1, 9).Draw(t, "seps")
	c.Respell.KeywordCase = rapid.Uint32().Draw(t, "kwcase")
	c.Respell.BareMultiPoint = rapid.Bool().Draw(t, "bare")
	c.Respell.ExpNumerals = rapid.IntRange(0, 2).Draw(t, "exp")
	if rapid.Bool().Draw(t, "mixspell") {
		c.Respell.ParenMask = rapid.Uint32().Draw(t, "parenmask")
		c.Respell.PlainMask = rapid.Uint32().Draw(t, "plainmask")
	}
	c.Trailing = rapid.SampledFrom(c05Trailing).Draw(t, "trailing")
	if rapid.IntRange(0, 3).Draw(t, "closingzero") == 0 {
		// closed sequences whose closing position equals the first numerically but not bit for bit (0 against -0)
		c.G = closingSignedZero(c.G, rapid.SliceOfN(rapid.IntRange(0, 15), 1, 4).Draw(t, "closingzeroseeds"))
	}
	if rapid.IntRange(0, 7).Draw(t, "emptyrings") == 0 {
		// EMPTY at the ring level: polygons that hold empty rings beside non-empty ones (shell or hole position)
		c.G = insertEmptyRings(c.G, rapid.SliceOfN(rapid.IntRange(0, 15), 1, 4).Draw(t, "emptyringseeds"))
	}
	return c
}

// insertEmptyRings gives polygons that have rings one or two more, empty, at
// positions taken from the seeds (seed%3 == 2: polygon left alone).
func insertEmptyRings(g gm.G, seeds []int) gm.G {
	k := 0
	var rec func(n gm.G) gm.G
	rec = func(n gm.G) gm.G {
		if n.Zero {
			return n
		}
		out := n
		if n.T == gm.Polygon && len(n.Rings) > 0 {
			sd := seeds[k%len(seeds)]
			k++
			if sd%3 != 2 {
				rings := append([][]gm.F{}, n.Rings...)
				for r := 0; r <= sd%3; r++ {
					at := (sd/3 + r) % (len(rings) + 1)
					rings = append(rings[:at], append([][]gm.F{{}}, rings[at:]...)...)
				}
				out.Rings = rings
			}
		}
		if n.Mem != nil {
			out.Mem = make([]gm.G, len(n.Mem))
			for i, m := range n.Mem {
				out.Mem[i] = rec(m)
			}
		}
		return out
	}
	return rec(g)
}

// closingSignedZero rewrites sequences of two or more positions (seed odd:
// left alone) so that the last position is a copy of the first except that one
// ordinate is +0 in the one and -0 in the other.
func closingSignedZero(g gm.G, seeds []int) gm.G {
	k := 0
	fix := func(fs []gm.F, d int) []gm.F {
		sd := seeds[k%len(seeds)]
		k++
		n := len(fs) / d
		if n < 2 || sd%2 == 1 {
			return fs
		}
		out := append([]gm.F{}, fs...)
		j := (sd / 2) % d
		copy(out[(n-1)*d:], out[:d])
		z, nz := gm.F(0), gm.F(math.Copysign(0, -1))
		if (sd/8)%2 == 1 {
			z, nz = nz, z
		}
		out[j], out[(n-1)*d+j] = z, nz
		return out
	}
	var rec func(n gm.G) gm.G
	rec = func(n gm.G) gm.G {
		if n.Zero {
			return n
		}
		d := gm.Dim(n.CT)
		out := n
		if n.T == gm.LineString && len(n.Co) > 0 {
			out.Co = fix(n.Co, d)
		}
		if n.Rings != nil {
			out.Rings = make([][]gm.F, len(n.Rings))
			for i, r := range n.Rings {
				out.Rings[i] = fix(r, d)
			}
		}
		if n.Mem != nil {
			out.Mem = make([]gm.G, len(n.Mem))
			for i, m := range n.Mem {
				out.Mem[i] = rec(m)
			}
		}
		return out
	}
	return rec(g)
}

func c05HasDepthEmpty(g gm.G) bool {
	for _, m := range g.Mem {
		if m.IsEmpty() || c05HasDepthEmpty(m) {
			return true
		}
	}
	return false
}

func c05Check(c C05Case, cx *h.Ctx) *h.Failure {
	if c.RawHex != "" {
		b, _ := hex.DecodeString(c.RawHex)
		cx.Class("raw-text")
		return c05Raw(string(b))
	}
	if c.Reject != "" {
		cx.Class("reject-text")
		if g, err := geom.UnmarshalWKT(c.Reject, geom.NoValidate{}); err == nil {
			return h.Failf("wkt/hostile-accepted", "UnmarshalWKT(%q) accepted as %s", c.Reject, g.AsText())
		}
		return nil
	}
	model := c.G.Norm()
	g := c.G.ToGeom()
	cx.Class("type=" + model.T)
	cx.Class("ct=" + gm.CTName(model.CT))
	if c.G.Zero {
		cx.Class("zero-value:" + c.G.T)
	}

	text := g.AsText()
	// the returned text / bytes are the caller's: later renderings leave them alone
	{
		held := string(append([]byte(nil), text...))
		app0 := g.AppendWKT(nil)
		for _, other := range []geom.Geometry{dirty(model.T), g, dirty(gm.GeometryCollection)} {
			_ = other.AsText()
			other.AppendWKT(nil)
		}
		if msg := scribbleStable("AppendWKT(nil)", func() []byte { return g.AppendWKT(nil) }); msg != "" {
			return h.Failf("wkt/result-shared", "%s (%s)", msg, model)
		}
		if text != held || string(app0) != held {
			return h.Failf("wkt/result-overwritten", "the text returned by AsText()/AppendWKT(nil) changed after later calls:\nwas %q\nnow %q / %q", held, text, app0)
		}
	}
	// AppendWKT(prefix) == prefix + AsText(), also through the concrete types
	prefix, _ := hex.DecodeString(c.Prefix)
	app := g.AppendWKT(append([]byte(nil), prefix...))
	if string(app) != string(prefix)+text {
		return h.Failf("wkt/append", "AppendWKT(%q) = %q, want prefix+AsText() = %q", prefix, app, string(prefix)+text)
	}
	if app2 := g.AppendWKT(app); string(app2) != string(prefix)+text+text {
		return h.Failf("wkt/append", "AppendWKT applied twice = %q, want prefix+AsText()+AsText()", app2)
	}
	for _, spare := range []int{len(text), len(text) - 1, len(text) + 31} {
		if spare < 0 {
			continue
		}
		backing := make([]byte, len(prefix)+spare+8)
		for i := range backing {
			backing[i] = '#'
		}
		copy(backing, prefix)
		if app := g.AppendWKT(backing[: len(prefix) : len(prefix)+spare]); string(app) != string(prefix)+text {
			return h.Failf("wkt/append", "AppendWKT(%q with %d spare bytes) = %q, want prefix+AsText() = %q", prefix, spare, app, string(prefix)+text)
		}
		if string(backing[len(prefix)+spare:]) != "########" {
			return h.Failf("wkt/append-overrun", "AppendWKT wrote beyond the capacity of its destination for %s", model)
		}
	}
	if f := c05Concrete(g, prefix, text); f != nil {
		return f
	}

	// grammar: an independent parser accepts the text and yields the model
	parsed, info, err := codec.ParseWKT(text)
	if err != nil {
		return h.Failf("wkt/grammar", "AsText() = %q is not in the OGC grammar: %v", text, err)
	}
	if d := gm.Diff(model, parsed); d != "" {
		return h.Failf("wkt/text-denotes-other", "AsText() = %q denotes a different geometry than %s: %s", text, model, d)
	}
	if info.BareMultiPoints > 0 {
		return h.Failf("wkt/bare-multipoint", "AsText() = %q writes MultiPoint members without parentheses", text)
	}
	for _, n := range info.Numerals {
		if err := codec.NumeralIsShortestPlain(n); err != nil {
			return h.Failf("wkt/numeral", "AsText() numeral: %v (text %q)", err, text)
		}
	}
	if strings.ContainsAny(text, "\t\n") || strings.Contains(text, "  ") || strings.HasPrefix(text, " ") || strings.HasSuffix(text, " ") {
		return h.Failf("wkt/spacing", "AsText() = %q has irregular whitespace", text)
	}

	// library round trip
	back, err := geom.UnmarshalWKT(text, geom.NoValidate{})
	if err != nil {
		return h.Failf("wkt/reparse-error", "UnmarshalWKT(AsText()) fails for %q: %v", text, err)
	}
	if d := gm.Diff(model, gm.FromGeom(back)); d != "" {
		return h.Failf("wkt/roundtrip", "UnmarshalWKT(AsText()) differs from the original %s: %s", model, d)
	}
	// WKT and WKB agree
	viaWKB, err := geom.UnmarshalWKB(codec.EncodeWKB(model, nil), geom.NoValidate{})
	if err != nil {
		return h.Failf("wkt/wkb-decode", "UnmarshalWKB of the model fails: %v", err)
	}
	if !bytes.Equal(viaWKB.AsBinary(), back.AsBinary()) || viaWKB.AsText() != back.AsText() {
		return h.Failf("wkt/wkb-disagree", "geometry from WKT %q and from WKB differ", text)
	}

	// re-spellings parse to the same value
	toks := codec.WKTTokens(model, c.Respell)
	resp := codec.JoinWKT(toks, c.Respell.Seps)
	g2, err := geom.UnmarshalWKT(resp, geom.NoValidate{})
	if err != nil {
		return h.Failf("wkt/respelling-rejected", "re-spelling %q of %q is rejected: %v", resp, text, err)
	}
	if d := gm.Diff(model, gm.FromGeom(g2)); d != "" {
		return h.Failf("wkt/respelling-differs", "re-spelling %q parses to a different geometry than %q: %s", resp, text, d)
	}

	// trailing tokens are rejected
	for _, sep := range []string{" ", ""} {
		bad := text + sep + c.Trailing
		if sep == "" && (c.Trailing[0] >= 'A' && c.Trailing[0] <= 'z' || c.Trailing[0] >= '0' && c.Trailing[0] <= '9') {
			// could merge with the last token (e.g. "EMPTY" + "x"); only punctuation-led trailers without a blank
			continue
		}
		if _, err := geom.UnmarshalWKT(bad, geom.NoValidate{}); err == nil {
			return h.Failf("wkt/trailing-accepted", "UnmarshalWKT accepts %q", bad)
		}
	}

	nontrivial := c05HasDepthEmpty(model) || model.CT != 0
	for _, n := range info.Numerals {
		digits := strings.Trim(strings.NewReplacer("-", "", ".", "").Replace(n), "0")
		if len(digits) >= 16 || len(n) >= 300 {
			nontrivial = true
			cx.Class("long-numeral")
			break
		}
	}
	if nontrivial {
		cx.NonTrivial()
	}
	cx.Sample(map[string]interface{}{"text": clip(text, 400), "respelling": clip(resp, 400), "trailing": c.Trailing})
	return nil
}

func clip(s string, n int) string {
	if len(s) > n {
		return s[:n] + "..."
	}
	return s
}

func c05Concrete(g geom.Geometry, prefix []byte, text string) *h.Failure {
	var app []byte
	var txt string
	p := append([]byte(nil), prefix...)
	switch g.Type() {
	case geom.TypePoint:
		x := g.MustAsPoint()
		app, txt = x.AppendWKT(p), x.AsText()
	case geom.TypeLineString:
		x := g.MustAsLineString()
		app, txt = x.AppendWKT(p), x.AsText()
	case geom.TypePolygon:
		x := g.MustAsPolygon()
		app, txt = x.AppendWKT(p), x.AsText()
	case geom.TypeMultiPoint:
		x := g.MustAsMultiPoint()
		app, txt = x.AppendWKT(p), x.AsText()
	case geom.TypeMultiLineString:
		x := g.MustAsMultiLineString()
		app, txt = x.AppendWKT(p), x.AsText()
	case geom.TypeMultiPolygon:
		x := g.MustAsMultiPolygon()
		app, txt = x.AppendWKT(p), x.AsText()
	case geom.TypeGeometryCollection:
		x := g.MustAsGeometryCollection()
		app, txt = x.AppendWKT(p), x.AsText()
	}
	if txt != text || string(app) != string(prefix)+text {
		return h.Failf("wkt/concrete-append", "concrete %s: AsText()=%q AppendWKT=%q, Geometry.AsText()=%q", g.Type(), txt, app, text)
	}
	return nil
}

// c05Fixed: deterministic inputs for the parser-side claims that do not depend
// on a generated geometry (NaN/Inf numerals, mixed-dimension collections).
func c05Enumerate(cx *h.Ctx, yield func(C05Case)) []string {
	// zero values of every Go type with every prefix byte
	for _, typ := range append([]string{"Geometry"}, gm.Types...) {
		for _, pre := range []string{"", "28", "2c", "20", "78"} {
			yield(C05Case{G: gm.G{T: typ, Zero: true}, Prefix: pre, Respell: codec.Respell{Seps: []string{" "}}, Trailing: ")"})
		}
	}
	// wide collections: many members (also many EMPTY ones) at depth 1 and 2, which the drawn structures (at most a
	// handful of members) never reach
	for _, n := range []int{31, 32, 33, 64, 200} {
		empties := make([]gm.G, n)
		pts := make([]gm.G, n)
		for i := range empties {
			empties[i] = gm.G{T: gm.GeometryCollection}
			pts[i] = gm.G{T: gm.Point, Co: gm.Fs(float64(i), float64(-i))}
		}
		tail := gm.G{T: gm.GeometryCollection, Mem: []gm.G{{T: gm.Point, Co: gm.Fs(1, 2)}}}
		for _, g := range []gm.G{
			{T: gm.GeometryCollection, Mem: append(append([]gm.G{}, empties...), tail)},
			{T: gm.GeometryCollection, Mem: []gm.G{{T: gm.GeometryCollection, Mem: append(append([]gm.G{}, empties...), tail)}, tail}},
			{T: gm.MultiPoint, Mem: pts},
			{T: gm.GeometryCollection, Mem: append(append([]gm.G{}, pts...), gm.G{T: gm.MultiPolygon}, gm.G{T: gm.LineString})},
		} {
			yield(C05Case{G: g, Respell: codec.Respell{Seps: []string{" "}}, Trailing: "x"})
		}
	}
	for _, r := range c05RejectTexts {
		yield(C05Case{Reject: r})
	}
	return []string{"collections with 31..200 members (empty sub-collections followed by a non-empty one, at depth 1 and 2; points)", "zero value of Geometry and of the 7 concrete types x 5 AppendWKT prefixes", "15 hostile texts (NaN/Inf numerals, mixed-dimension collections) that must be rejected"}
}

func TestC05(t *testing.T) {
	h.Run(t, h.Prop[C05Case]{
		ID:              "C05",
		WholeCheckLimit: 300 * time.Second,
		Rule:            "cases = a geometry model (7 types x 4 coordinate types, empties at every level, nesting to depth 4, Go zero values incl. geom.Geometry{}; all ordinates from finite float64 classes: subnormals, +-0, 1e308, 17-digit values, powers of ten/two neighbours) x AppendWKT prefix x a token-level re-spelling (keyword case bitmap, separators from {'',' ','  ',tab,newline,CRLF}, bare MultiPoint members, exponent-form numerals) x a trailing token; 1 in 4 with closing positions equal to the first only numerically (0 vs -0), 1 in 8 with empty rings inside non-empty polygons; oracles = independent OGC-grammar WKT parser/printer + structural bit-wise model comparison + shortest-decimal test via one-digit-shorter candidates + independent WKB writer; non-trivial = an EMPTY at depth >= 1, or a Z/M tag, or a numeral with >= 16 significant digits or >= 300 characters",
		Assumptions:     []string{"independent WKT grammar (internal/codec/wkt.go) matches OGC 06-103r4 + the documented extensions", "strconv.ParseFloat is correctly rounded"},
		Gen:             c05Gen,
		Check:           c05Check,
		Enumerate:       c05Enumerate,
	})
}

var c05RejectTexts = []string{
	"POINT(NaN 1)", "POINT(1 NaN)", "POINT(Inf 1)", "POINT(1 -Inf)", "POINT(nan nan)", "POINT(Infinity 0)", "POINT(1e999 0)",
	"LINESTRING(0 0,1 inf)", "POINT Z (1 2 NaN)", "POINT M (1 2 Inf)",
	"GEOMETRYCOLLECTION(POINT Z (1 2 3),POINT(1 2))", "GEOMETRYCOLLECTION Z (POINT(1 2))", "GEOMETRYCOLLECTION(POINT(1 2),LINESTRING M (1 2 3,4 5 6))",
	"GEOMETRYCOLLECTION M (POINT Z (1 2 3))", "GEOMETRYCOLLECTION(GEOMETRYCOLLECTION Z (POINT Z (1 2 3)),POINT(1 2))",
}

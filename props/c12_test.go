package props

import (
	"fmt"
	"math"
	"testing"
	"time"

	"github.com/peterstace/simplefeatures/geom"
	"pgregory.net/rapid"

	"verif/internal/gen"
	"verif/internal/gm"
	"verif/internal/h"
)

// ---------- C12: Envelopes are the tightest boxes; envelope algebra matches interval arithmetic ----------

// IBox is an integer box or the empty envelope.
type IBox struct {
	Empty          bool `json:"empty,omitempty"`
	X0, Y0, X1, Y1 int
}

type C12Case struct {
	Kind string  `json:"kind"` // geom | env
	G    gm.G    `json:"g"`
	G2   gm.G    `json:"g2"`
	Perm []int   `json:"perm"`
	E    [3]IBox `json:"e"`
	FE   [3]FBox `json:"fe"`
	N    int     `json:"n"` // number of envelopes used (2 or 3)
}

func (b IBox) env() geom.Envelope {
	if b.Empty {
		return geom.Envelope{}
	}
	return geom.NewEnvelope(geom.XY{X: float64(b.X0), Y: float64(b.Y0)}, geom.XY{X: float64(b.X1), Y: float64(b.Y1)})
}

func (b IBox) String() string {
	if b.Empty {
		return "EMPTY"
	}
	return fmt.Sprintf("[%d,%d]x[%d,%d]", b.X0, b.X1, b.Y0, b.Y1)
}

func joinBox(a, b IBox) IBox {
	if a.Empty {
		return b
	}
	if b.Empty {
		return a
	}
	return IBox{X0: min(a.X0, b.X0), Y0: min(a.Y0, b.Y0), X1: max(a.X1, b.X1), Y1: max(a.Y1, b.Y1)}
}

func envIs(e geom.Envelope, b IBox) bool {
	mn, mx, ok := e.MinMaxXYs()
	if b.Empty {
		return !ok && e.IsEmpty()
	}
	return ok && !e.IsEmpty() && mn.X == float64(b.X0) && mn.Y == float64(b.Y0) && mx.X == float64(b.X1) && mx.Y == float64(b.Y1)
}

func allBoxes() []IBox {
	boxes := []IBox{{Empty: true}}
	for x0 := -2; x0 <= 2; x0++ {
		for x1 := x0; x1 <= 2; x1++ {
			for y0 := -2; y0 <= 2; y0++ {
				for y1 := y0; y1 <= 2; y1++ {
					boxes = append(boxes, IBox{X0: x0, Y0: y0, X1: x1, Y1: y1})
				}
			}
		}
	}
	return boxes
}

func c12CheckEnv(c C12Case, cx *h.Ctx) *h.Failure {
	a, b := c.E[0], c.E[1]
	ea, eb := a.env(), b.env()
	if !envIs(ea, a) || !envIs(eb, b) {
		return h.Failf("envelope/new", "NewEnvelope does not give %s / %s: %v / %v", a, b, ea, eb)
	}
	// predicates against closed-interval definitions
	inter := !a.Empty && !b.Empty && a.X0 <= b.X1 && b.X0 <= a.X1 && a.Y0 <= b.Y1 && b.Y0 <= a.Y1
	if ea.Intersects(eb) != inter || eb.Intersects(ea) != inter {
		return h.Failf("envelope/intersects", "%s Intersects %s = %v/%v, want %v", a, b, ea.Intersects(eb), eb.Intersects(ea), inter)
	}
	covers := !a.Empty && !b.Empty && a.X0 <= b.X0 && a.Y0 <= b.Y0 && a.X1 >= b.X1 && a.Y1 >= b.Y1
	if ea.Covers(eb) != covers {
		return h.Failf("envelope/covers", "%s Covers %s = %v, want %v", a, b, ea.Covers(eb), covers)
	}
	d, ok := ea.Distance(eb)
	if ok != (!a.Empty && !b.Empty) {
		return h.Failf("envelope/distance-defined", "%s Distance %s defined=%v", a, b, ok)
	}
	if ok {
		gap := func(a0, a1, b0, b1 int) int { return max(0, max(b0-a1, a0-b1)) }
		dx, dy := gap(a.X0, a.X1, b.X0, b.X1), gap(a.Y0, a.Y1, b.Y0, b.Y1)
		want := math.Sqrt(float64(dx*dx + dy*dy))
		if d != want {
			return h.Failf("envelope/distance", "%s Distance %s = %v, want %v", a, b, d, want)
		}
		if (d == 0) != inter {
			return h.Failf("envelope/distance-zero", "%s Distance %s = %v but Intersects = %v", a, b, d, inter)
		}
	}
	j := joinBox(a, b)
	if got := ea.ExpandToIncludeEnvelope(eb); !envIs(got, j) {
		return h.Failf("envelope/join", "%s join %s = %v, want %s", a, b, got, j)
	}
	if got := eb.ExpandToIncludeEnvelope(ea); !envIs(got, j) {
		return h.Failf("envelope/join-commutative", "%s join %s = %v, want %s", b, a, got, j)
	}
	if got := ea.ExpandToIncludeEnvelope(ea); !envIs(got, a) {
		return h.Failf("envelope/join-idempotent", "%s join itself = %v", a, got)
	}
	if c.N == 3 {
		cc := c.E[2]
		ec := cc.env()
		l := ea.ExpandToIncludeEnvelope(eb).ExpandToIncludeEnvelope(ec)
		r := ea.ExpandToIncludeEnvelope(eb.ExpandToIncludeEnvelope(ec))
		if !envIs(l, joinBox(joinBox(a, b), cc)) || !envIs(r, joinBox(a, joinBox(b, cc))) {
			return h.Failf("envelope/join-associative", "join of %s %s %s: %v / %v", a, b, cc, l, r)
		}
		// monotonicity: covers is transitive, join covers both
		if ea.Covers(eb) && eb.Covers(ec) && !ea.Covers(ec) {
			return h.Failf("envelope/covers-transitive", "%s covers %s covers %s but not transitively", a, b, cc)
		}
	}
	// unary methods on a, and points of the lattice {-3..3}^2
	if a.Empty {
		if ea.Width() != 0 || ea.Height() != 0 || ea.Area() != 0 || !ea.Min().IsEmpty() || !ea.Max().IsEmpty() || !ea.Center().IsEmpty() {
			return h.Failf("envelope/empty-measures", "empty envelope has non-neutral Width/Height/Area/Min/Max/Center")
		}
		if ea.IsPoint() || ea.IsLine() || ea.IsRectangle() {
			return h.Failf("envelope/empty-class", "empty envelope classified as point/line/rectangle")
		}
		if g := ea.AsGeometry(); !g.IsEmpty() || g.Type() != geom.TypeGeometryCollection {
			return h.Failf("envelope/empty-asgeometry", "empty envelope AsGeometry = %s", g.AsText())
		}
		if g := ea.BoundingDiagonal(); !g.IsEmpty() {
			return h.Failf("envelope/empty-diagonal", "empty envelope BoundingDiagonal = %s", g.AsText())
		}
		if _, ok := ea.AsBox(); ok {
			return h.Failf("envelope/empty-asbox", "empty envelope AsBox ok")
		}
		if !ea.TransformXY(func(p geom.XY) geom.XY { return p }).IsEmpty() {
			return h.Failf("envelope/empty-transform", "empty envelope TransformXY not empty")
		}
	} else {
		w, hh := float64(a.X1-a.X0), float64(a.Y1-a.Y0)
		if ea.Width() != w || ea.Height() != hh || ea.Area() != w*hh {
			return h.Failf("envelope/measures", "%s: Width/Height/Area = %v/%v/%v", a, ea.Width(), ea.Height(), ea.Area())
		}
		if xy, ok := ea.Center().XY(); !ok || xy.X != float64(a.X0+a.X1)/2 || xy.Y != float64(a.Y0+a.Y1)/2 {
			return h.Failf("envelope/center", "%s: Center = %v", a, xy)
		}
		if xy, ok := ea.Min().XY(); !ok || xy.X != float64(a.X0) || xy.Y != float64(a.Y0) {
			return h.Failf("envelope/min", "%s: Min = %v", a, xy)
		}
		if xy, ok := ea.Max().XY(); !ok || xy.X != float64(a.X1) || xy.Y != float64(a.Y1) {
			return h.Failf("envelope/max", "%s: Max = %v", a, xy)
		}
		isPt, isLn, isRc := a.X0 == a.X1 && a.Y0 == a.Y1, (a.X0 == a.X1) != (a.Y0 == a.Y1), a.X0 != a.X1 && a.Y0 != a.Y1
		if ea.IsPoint() != isPt || ea.IsLine() != isLn || ea.IsRectangle() != isRc {
			return h.Failf("envelope/classification", "%s: IsPoint/IsLine/IsRectangle = %v/%v/%v", a, ea.IsPoint(), ea.IsLine(), ea.IsRectangle())
		}
		g := ea.AsGeometry()
		wantT := geom.TypePolygon
		if isPt {
			wantT = geom.TypePoint
		} else if isLn {
			wantT = geom.TypeLineString
		}
		if g.Type() != wantT || !envIs(g.Envelope(), a) || g.Validate() != nil {
			return h.Failf("envelope/asgeometry", "%s: AsGeometry = %s", a, g.AsText())
		}
		if isRc && g.Area() != w*hh {
			return h.Failf("envelope/asgeometry-area", "%s: AsGeometry area %v", a, g.Area())
		}
		dg := ea.BoundingDiagonal()
		if !envIs(dg.Envelope(), a) || (isPt && dg.Type() != geom.TypePoint) || (!isPt && (dg.Type() != geom.TypeLineString || dg.MustAsLineString().Coordinates().Length() != 2)) {
			return h.Failf("envelope/diagonal", "%s: BoundingDiagonal = %s", a, dg.AsText())
		}
		bx, ok := ea.AsBox()
		if !ok || bx.MinX != float64(a.X0) || bx.MinY != float64(a.Y0) || bx.MaxX != float64(a.X1) || bx.MaxY != float64(a.Y1) {
			return h.Failf("envelope/asbox", "%s: AsBox = %v,%v", a, bx, ok)
		}
		tr := ea.TransformXY(func(p geom.XY) geom.XY { return geom.XY{X: 1 - p.X, Y: 2*p.Y + 3} })
		if !envIs(tr, IBox{X0: 1 - a.X1, X1: 1 - a.X0, Y0: 2*a.Y0 + 3, Y1: 2*a.Y1 + 3}) {
			return h.Failf("envelope/transform", "%s: TransformXY(x->1-x, y->2y+3) = %v", a, tr)
		}
	}
	for px := -3; px <= 3; px++ {
		for py := -3; py <= 3; py++ {
			want := !a.Empty && px >= a.X0 && px <= a.X1 && py >= a.Y0 && py <= a.Y1
			p := geom.XY{X: float64(px), Y: float64(py)}
			if ea.Contains(p) != want {
				return h.Failf("envelope/contains", "%s Contains (%d %d) = %v", a, px, py, !want)
			}
			if got := ea.ExpandToIncludeXY(p); !envIs(got, joinBox(a, IBox{X0: px, Y0: py, X1: px, Y1: py})) {
				return h.Failf("envelope/expand-xy", "%s ExpandToIncludeXY (%d %d) = %v", a, px, py, got)
			}
		}
	}
	if ea.Contains(geom.XY{X: math.NaN(), Y: 0}) || ea.Contains(geom.XY{X: 0, Y: math.Inf(1)}) {
		return h.Failf("envelope/contains-nonfinite", "%s contains a non-finite point", a)
	}
	if !a.Empty && !b.Empty && a != b {
		cx.NonTrivial()
	}
	cx.Sample(map[string]interface{}{"a": a.String(), "b": b.String(), "intersects": inter, "covers": covers})
	return nil
}

func modelBounds(g gm.G) (b [4]float64, any bool) {
	g.Norm().MapPositions(func(p []gm.F, ct int) []gm.F {
		x, y := float64(p[0]), float64(p[1])
		if !any {
			b = [4]float64{x, y, x, y}
			any = true
		} else {
			b = [4]float64{math.Min(b[0], x), math.Min(b[1], y), math.Max(b[2], x), math.Max(b[3], y)}
		}
		return p
	})
	return
}

func envEq(e geom.Envelope, b [4]float64, any bool) bool {
	mn, mx, ok := e.MinMaxXYs()
	if !any {
		return !ok && e.IsEmpty()
	}
	return ok && mn.X == b[0] && mn.Y == b[1] && mx.X == b[2] && mx.Y == b[3]
}

func c12CheckGeom(c C12Case, cx *h.Ctx) *h.Failure {
	model := c.G.Norm()
	g := model.ToGeom()
	cx.Class("type=" + model.T)
	b, any := modelBounds(model)
	desc := func() string { return "\ng = " + clip(model.String(), 500) }
	e := g.Envelope()
	if e.IsEmpty() != model.IsEmpty() {
		return h.Failf("envelope/empty-iff", "Envelope() empty=%v but geometry empty=%v%s", e.IsEmpty(), model.IsEmpty(), desc())
	}
	if !envEq(e, b, any) {
		return h.Failf("envelope/bounds", "Envelope() = %v, min/max over the control points = %v%s", e, b, desc())
	}
	if e.Validate() != nil {
		return h.Failf("envelope/invalid", "Envelope() fails Validate%s", desc())
	}
	// contains every control point (each side attained follows from exact equality above)
	bad := false
	model.MapPositions(func(p []gm.F, ct int) []gm.F {
		if !e.Contains(geom.XY{X: float64(p[0]), Y: float64(p[1])}) {
			bad = true
		}
		return p
	})
	if bad {
		return h.Failf("envelope/does-not-contain", "Envelope() does not contain a control point%s", desc())
	}
	// concrete type agrees
	if f := c12Concrete(g, b, any); f != nil {
		f.Msg += desc()
		return f
	}
	// unchanged by representation changes
	vars := []struct {
		name string
		x    geom.Geometry
	}{{"Reverse", g.Reverse()}, {"Force2D", g.Force2D()}, {"ForceCW", g.ForceCW()}, {"ForceCCW", g.ForceCCW()},
		{"ForceCoordinatesType(XYZM)", g.ForceCoordinatesType(geom.DimXYZM)}, {"ForceCoordinatesType(XYM)", g.ForceCoordinatesType(geom.DimXYM)},
		{"ForceCoordinatesType(XY)", g.ForceCoordinatesType(geom.DimXY)}}
	if len(model.Mem) > 1 {
		pm := model.Clone()
		for i := range pm.Mem {
			pm.Mem[i] = model.Mem[c.Perm[i%len(c.Perm)]%len(model.Mem)]
		}
		// a true permutation: rotate by Perm[0]
		k := c.Perm[0] % len(model.Mem)
		pm.Mem = append(append([]gm.G{}, model.Mem[k:]...), model.Mem[:k]...)
		vars = append(vars, struct {
			name string
			x    geom.Geometry
		}{"member rotation", pm.ToGeom()})
	}
	for _, v := range vars {
		if !envEq(v.x.Envelope(), b, any) {
			return h.Failf("envelope/not-invariant", "Envelope() changes under %s: %v vs %v%s", v.name, v.x.Envelope(), e, desc())
		}
	}
	// collection: join of member envelopes
	if len(model.Mem) > 0 {
		var j geom.Envelope
		for _, m := range model.Mem {
			j = j.ExpandToIncludeEnvelope(m.ToGeom().Envelope())
		}
		if !envEq(j, b, any) {
			return h.Failf("envelope/collection-join", "join of the members' envelopes %v differs from the collection's %v%s", j, e, desc())
		}
	}
	// Union: envelope = join of the operands' envelopes (valid integer shapes)
	if c.G2.T != "" {
		g2 := c.G2.ToGeom()
		if g.Validate() == nil && g2.Validate() == nil {
			u, err := geom.Union(g, g2)
			if err == nil {
				want := g.Envelope().ExpandToIncludeEnvelope(g2.Envelope())
				wmn, wmx, wok := want.MinMaxXYs()
				umn, umx, uok := u.Envelope().MinMaxXYs()
				tol := 1e-9 * math.Max(1, math.Max(math.Abs(wmx.X)+math.Abs(wmn.X), math.Abs(wmx.Y)+math.Abs(wmn.Y)))
				if wok != uok || math.Abs(wmn.X-umn.X) > tol || math.Abs(wmn.Y-umn.Y) > tol || math.Abs(wmx.X-umx.X) > tol || math.Abs(wmx.Y-umx.Y) > tol {
					return h.Failf("envelope/union", "Envelope(Union(a,b)) = %v, join of the operands' envelopes = %v%s\nb = %s", u.Envelope(), want, desc(), clip(c.G2.String(), 300))
				}
				cx.Class("union-envelope-checked")
			}
			// UnionMany over a long list (the two operands plus 127..300 single points on a diagonal far away): the
			// envelope is still the join of all operands - no operand may be lost to batching
			if n := 127 + len(c.Perm)*43 + c.Perm[0]*29; len(model.String())%4 == 0 {
				list := []geom.Geometry{g, g2}
				want := g.Envelope().ExpandToIncludeEnvelope(g2.Envelope())
				for i := 0; i < n; i++ {
					p := geom.NewPointXY(5000+float64(i), 6000+2*float64(i)).AsGeometry()
					list = append(list, p)
					want = want.ExpandToIncludeEnvelope(p.Envelope())
				}
				if rapidPermFlip := c.Perm[0]%2 == 1; rapidPermFlip {
					list[0], list[len(list)-1] = list[len(list)-1], list[0]
				}
				um, err := geom.UnionMany(list)
				if err == nil {
					wmn, wmx, _ := want.MinMaxXYs()
					umn, umx, uok := um.Envelope().MinMaxXYs()
					if !uok || math.Abs(wmn.X-umn.X) > 1e-6 || math.Abs(wmn.Y-umn.Y) > 1e-6 || math.Abs(wmx.X-umx.X) > 1e-6 || math.Abs(wmx.Y-umx.Y) > 1e-6 {
						return h.Failf("envelope/unionmany", "Envelope(UnionMany(%d operands)) = %v, join of the operands' envelopes = %v%s", len(list), um.Envelope(), want, desc())
					}
					cx.Class("unionmany-envelope-checked")
				}
			}
		}
	}
	if any && (len(model.Mem) > 0 || hasEmptyMember(model) || model.CT != 0) {
		cx.NonTrivial()
	}
	cx.Sample(map[string]interface{}{"g": clip(model.String(), 250), "envelope": e.String()})
	return nil
}

func c12Concrete(g geom.Geometry, b [4]float64, any bool) *h.Failure {
	var e geom.Envelope
	switch g.Type() {
	case geom.TypePoint:
		e = g.MustAsPoint().Envelope()
	case geom.TypeLineString:
		e = g.MustAsLineString().Envelope()
		if !envEq(g.MustAsLineString().Coordinates().Envelope(), b, any) {
			return h.Failf("envelope/sequence", "Sequence.Envelope() differs from the control point bounds")
		}
	case geom.TypePolygon:
		e = g.MustAsPolygon().Envelope()
	case geom.TypeMultiPoint:
		e = g.MustAsMultiPoint().Envelope()
	case geom.TypeMultiLineString:
		e = g.MustAsMultiLineString().Envelope()
	case geom.TypeMultiPolygon:
		e = g.MustAsMultiPolygon().Envelope()
	case geom.TypeGeometryCollection:
		e = g.MustAsGeometryCollection().Envelope()
	}
	if !envEq(e, b, any) {
		return h.Failf("envelope/concrete", "%s.Envelope() = %v, want %v", g.Type(), e, b)
	}
	return nil
}

func c12Gen(t *rapid.T, cx *h.Ctx) C12Case {
	kind := rapid.IntRange(0, 4).Draw(t, "kind")
	if kind == 4 {
		return c12GenFEnv(t)
	}
	if kind == 0 {
		boxes := allBoxes()
		c := C12Case{Kind: "env", N: 3}
		for i := range c.E {
			c.E[i] = boxes[rapid.IntRange(0, len(boxes)-1).Draw(t, "box")]
		}
		return c
	}
	c := C12Case{Kind: "geom"}
	valid := rapid.Bool().Draw(t, "validshapes")
	xy := gen.FiniteFloat
	if valid {
		xy = func(t *rapid.T, l string) float64 { return float64(rapid.IntRange(-30, 30).Draw(t, l)) }
	}
	o := gen.Opts{XY: xy, ZM: gen.AnyFloat, CT: -1, AllowZero: true, ValidShapes: valid, ClosedRings: true}
	c.G = gen.Structure(t, o)
	if !valid {
		// polygon envelopes are defined from the shell: keep holes inside the shell's bounds by using one ring only
		c.G = c.G.Norm()
		var strip func(n *gm.G)
		strip = func(n *gm.G) {
			if len(n.Rings) > 1 {
				n.Rings = n.Rings[:1]
			}
			for i := range n.Mem {
				strip(&n.Mem[i])
			}
		}
		strip(&c.G)
	} else if rapid.Bool().Draw(t, "second") {
		c.G2 = gen.Structure(t, gen.Opts{XY: xy, ZM: gen.AnyFloat, CT: 0, ValidShapes: true})
	}
	// repeated consecutive vertices (also the last one of a line): valid, and must not cost the union any extent
	if valid && rapid.IntRange(0, 2).Draw(t, "dups") == 0 {
		seeds := rapid.SliceOfN(rapid.IntRange(0, 40), 1, 6).Draw(t, "dupseeds")
		c.G = dupVertices(c.G, seeds)
		if len(c.G2.T) > 0 {
			c.G2 = dupVertices(c.G2, seeds)
		}
	}
	c.Perm = rapid.SliceOfN(rapid.IntRange(0, 5), 1, 4).Draw(t, "perm")
	return c
}

func c12Enumerate(cx *h.Ctx, yield func(C12Case)) []string {
	boxes := allBoxes()
	for _, a := range boxes {
		for _, b := range boxes {
			yield(C12Case{Kind: "env", E: [3]IBox{a, b}, N: 2})
		}
	}
	names := []string{fmt.Sprintf("all %d x %d ordered pairs of envelopes over the lattice {-2..2}^2 (incl. degenerate and empty), each with all 49 lattice points of {-3..3}^2", len(boxes), len(boxes))}
	if cx.Thorough {
		for _, a := range boxes {
			for _, b := range boxes {
				for _, c := range boxes {
					yield(C12Case{Kind: "env", E: [3]IBox{a, b, c}, N: 3})
				}
			}
		}
		names = append(names, fmt.Sprintf("all %d^3 ordered triples of those envelopes (associativity of join, transitivity of Covers)", len(boxes)))
	}
	return names
}

func c12Check(c C12Case, cx *h.Ctx) *h.Failure {
	cx.Class("kind=" + c.Kind)
	if c.Kind == "env" {
		return c12CheckEnv(c, cx)
	}
	if c.Kind == "fenv" {
		return c12CheckFEnv(c, cx)
	}
	return c12CheckGeom(c, cx)
}

func TestC12(t *testing.T) {
	h.Run(t, h.Prop[C12Case]{
		ID:              "C12",
		WholeCheckLimit: 300 * time.Second,
		Rule:            "three families: (fenv) triples of envelopes whose ordinates come from a small per-case pool of arbitrary finite floats (non-dyadic decimals, 1e15+fractions, 1e-300/subnormal, 1e300, signed zeros; derived edge-/corner-touching, identical and nested boxes): predicates, joins, Contains (pool points and their one-ulp neighbours), Min/Max/AsBox/AsGeometry/BoundingDiagonal compared exactly with float64 comparisons, Width/Height/Center/Area/Distance with the correctly rounded exact rational value (Distance only while the squared gaps neither overflow nor underflow); (env) pairs and triples of envelopes over the integer lattice {-2..2}^2 incl. point, horizontal, vertical and empty envelopes - all ordered pairs enumerated in both tiers, all triples in thorough and random triples in quick - with every method (Contains on all 49 points of {-3..3}^2 and non-finite points, Intersects, Covers, Distance, ExpandToInclude*, Center, Width/Height/Area, Min/Max/MinMaxXYs, AsGeometry, BoundingDiagonal, AsBox, IsPoint/IsLine/IsRectangle, TransformXY, NewEnvelope) against closed-interval arithmetic on integers, empty = identity of join and absorbing for predicates, join commutative/idempotent/associative; (geom) generated geometries of every type and coordinate type (arbitrary finite floats incl. subnormal/max, empty members, nesting, zero values; or valid integer shapes): Envelope() empty iff the geometry is, exactly the min/max over the control points (on Geometry, the concrete type and the Sequence), contains every control point, unchanged by Reverse/Force2D/ForceCoordinatesType/ForceCW/ForceCCW/member rotation, collection envelope = join of members, Envelope(Union(a,b)) within 1e-9 of the join. non-trivial = two distinct non-empty envelopes (env, fenv) / a non-empty geometry with members, an empty member or Z/M (geom)",
		Assumptions:     []string{"integer interval arithmetic in props/c12_test.go", "polygon envelopes are defined from the shell: generated polygons keep holes within the shell's bounds"},
		Gen:             c12Gen,
		Check:           c12Check,
		Enumerate:       c12Enumerate,
	})
}

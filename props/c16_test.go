package props

import (
	"bytes"
	"fmt"
	"math"
	"reflect"
	"sort"
	"testing"
	"time"

	"github.com/peterstace/simplefeatures/geom"
	"pgregory.net/rapid"

	"verif/internal/apienum"
	"verif/internal/gen"
	"verif/internal/gm"
	"verif/internal/h"
)

// ---------- C16: coordinate type and Z/M payload are carried consistently ----------

type C16Case struct {
	G     gm.G `json:"g"`
	Valid bool `json:"valid"`
	// Mixed: member coordinate types used when the collection is re-built from members of different types
	Mixed    []int   `json:"mixed"`
	Densify  float64 `json:"densify"`
	Simplify float64 `json:"simplify"`
	Snap     int     `json:"snap"`
	Frac     float64 `json:"frac"`
	N        int     `json:"n"`
}

// tag assigns unique Z = i, M = -i to every position (a ring's closing position repeats the first).
func c16Tag(g gm.G) gm.G { return c16TagWith(g, false) }

// c16TagWith: with distinctClosing a ring's closing position gets tags of its own (it repeats the first
// position in XY only - still a closed ring - so that an operation which moves or keeps the wrong end vertex
// is visible).
func c16TagWith(g gm.G, distinctClosing bool) gm.G {
	i := 0
	var rec func(n gm.G) gm.G
	tagFlat := func(fs []gm.F, ct int, ring bool) []gm.F {
		d := gm.Dim(ct)
		out := append([]gm.F(nil), fs...)
		cnt := len(fs) / d
		for k := 0; k < cnt; k++ {
			i++
			z, m := gm.F(i), gm.F(-i)
			if !distinctClosing && ring && k == cnt-1 && cnt > 1 && fs[0] == fs[k*d] && fs[1] == fs[k*d+1] {
				// closing position: same tags as the first
				copy(out[k*d:], out[:d])
				continue
			}
			switch ct {
			case 1:
				out[k*d+2] = z
			case 2:
				out[k*d+2] = m
			case 3:
				out[k*d+2], out[k*d+3] = z, m
			}
		}
		return out
	}
	rec = func(n gm.G) gm.G {
		out := n
		out.Co = tagFlat(n.Co, n.CT, false)
		if n.Rings != nil {
			out.Rings = make([][]gm.F, len(n.Rings))
			for k, r := range n.Rings {
				out.Rings[k] = tagFlat(r, n.CT, true)
			}
		}
		if n.Mem != nil {
			out.Mem = make([]gm.G, len(n.Mem))
			for k, m := range n.Mem {
				out.Mem[k] = rec(m)
			}
		}
		return out
	}
	return rec(g.Norm())
}

func c16Gen(t *rapid.T, cx *h.Ctx) C16Case {
	valid := rapid.Bool().Draw(t, "valid")
	xy := func(t *rapid.T, l string) float64 { return float64(rapid.IntRange(-40, 40).Draw(t, l)) }
	g := gen.Structure(t, gen.Opts{XY: xy, ZM: xy, CT: -1, AllowZero: true, ValidShapes: valid, ClosedRings: true})
	c := C16Case{G: c16TagWith(g, rapid.Bool().Draw(t, "distinctclosing")), Valid: valid}
	c.Mixed = rapid.SliceOfN(rapid.IntRange(0, 3), 1, 5).Draw(t, "mixed")
	c.Densify = float64(rapid.IntRange(1, 40).Draw(t, "densify")) / 2
	c.Simplify = float64(rapid.IntRange(0, 20).Draw(t, "simplify")) / 2
	c.Snap = rapid.IntRange(-2, 3).Draw(t, "snap")
	c.Frac = float64(rapid.IntRange(-2, 12).Draw(t, "frac")) / 10
	c.N = rapid.IntRange(0, 7).Draw(t, "n")
	return c
}

// positions returns every position (all dims) of a model in order.
func positions(g gm.G) [][]gm.F {
	var out [][]gm.F
	g.Norm().MapPositions(func(p []gm.F, ct int) []gm.F {
		out = append(out, append([]gm.F(nil), p...))
		return p
	})
	return out
}

func posKey(p []gm.F) string { return fmt.Sprint(p) }

// c16Seqs lists the position sequences (points, lines, rings) of a model in structural order.
func c16Seqs(g gm.G) [][]gm.F {
	var out [][]gm.F
	g.Norm().Walk(func(n gm.G) {
		if len(n.Co) > 0 {
			out = append(out, n.Co)
		}
		for _, r := range n.Rings {
			out = append(out, r)
		}
	})
	return out
}

// c16SeqMatch: the sequences of out are those of in, each kept or exactly reversed (mustReverse: reversed;
// palindromic sequences satisfy both), matched as multisets so that member order does not matter.
func c16SeqMatch(in, out gm.G, mustReverse bool) string {
	a, b := c16Seqs(in), c16Seqs(out)
	if len(a) != len(b) {
		return fmt.Sprintf("%d position sequences became %d", len(a), len(b))
	}
	d := gm.Dim(in.Norm().CT)
	used := make([]bool, len(a))
	for _, s := range b {
		found := false
		for i, t := range a {
			if used[i] || len(t) != len(s) {
				continue
			}
			fwd, rev := true, true
			n := len(s) / d
			for k := 0; k < n; k++ {
				for j := 0; j < d; j++ {
					if s[k*d+j] != t[k*d+j] && !(s[k*d+j] != s[k*d+j] && t[k*d+j] != t[k*d+j]) {
						fwd = false
					}
					if s[k*d+j] != t[(n-1-k)*d+j] && !(s[k*d+j] != s[k*d+j] && t[(n-1-k)*d+j] != t[(n-1-k)*d+j]) {
						rev = false
					}
				}
			}
			if rev || (fwd && !mustReverse) {
				used[i], found = true, true
				break
			}
		}
		if !found {
			return fmt.Sprintf("the sequence %v of the result is not a sequence of the input%s", s, map[bool]string{true: " reversed", false: " (as it was or exactly reversed)"}[mustReverse])
		}
	}
	return ""
}

func multisetEq(a, b [][]gm.F) bool {
	if len(a) != len(b) {
		return false
	}
	ka, kb := make([]string, len(a)), make([]string, len(b))
	for i := range a {
		ka[i], kb[i] = posKey(a[i]), posKey(b[i])
	}
	sort.Strings(ka)
	sort.Strings(kb)
	for i := range ka {
		if ka[i] != kb[i] {
			return false
		}
	}
	return true
}

// c16Walk asserts that g and everything reachable from it reports coordinate type ct.
func c16Walk(g geom.Geometry, ct geom.CoordinatesType, path string) string {
	if g.CoordinatesType() != ct {
		return fmt.Sprintf("%s: %s reports %s, want %s", path, g.Type(), g.CoordinatesType(), ct)
	}
	if s := g.DumpCoordinates(); s.CoordinatesType() != ct {
		return fmt.Sprintf("%s: DumpCoordinates() reports %s, want %s", path, s.CoordinatesType(), ct)
	}
	for i, d := range g.Dump() {
		if d.CoordinatesType() != ct {
			return fmt.Sprintf("%s: Dump()[%d] reports %s, want %s", path, i, d.CoordinatesType(), ct)
		}
	}
	seqOK := func(s geom.Sequence, what string) string {
		if s.CoordinatesType() != ct {
			return fmt.Sprintf("%s: %s reports %s, want %s", path, what, s.CoordinatesType(), ct)
		}
		for i := 0; i < s.Length(); i++ {
			if s.Get(i).Type != ct {
				return fmt.Sprintf("%s: %s.Get(%d).Type = %s, want %s", path, what, i, s.Get(i).Type, ct)
			}
			// documented on geom.Coordinates: Z (M) "is zero for non-3D (non-measure) coordinate types"
			if c := s.Get(i); (!ct.Is3D() && c.Z != 0) || (!ct.IsMeasured() && c.M != 0) {
				return fmt.Sprintf("%s: %s.Get(%d) = %+v carries a Z/M value its coordinate type %s does not have", path, what, i, c, ct)
			}
		}
		return ""
	}
	ptOK := func(p geom.Point, what string) string {
		if p.CoordinatesType() != ct {
			return fmt.Sprintf("%s: %s reports %s, want %s", path, what, p.CoordinatesType(), ct)
		}
		if c, ok := p.Coordinates(); ok && c.Type != ct {
			return fmt.Sprintf("%s: %s.Coordinates().Type = %s, want %s", path, what, c.Type, ct)
		}
		if c, ok := p.Coordinates(); ok && ((!ct.Is3D() && c.Z != 0) || (!ct.IsMeasured() && c.M != 0)) {
			return fmt.Sprintf("%s: %s.Coordinates() = %+v carries a Z/M value its coordinate type %s does not have (documented: zero)", path, what, c, ct)
		}
		return ""
	}
	lsOK := func(l geom.LineString, what string) string {
		if l.CoordinatesType() != ct {
			return fmt.Sprintf("%s: %s reports %s, want %s", path, what, l.CoordinatesType(), ct)
		}
		if m := seqOK(l.Coordinates(), what+".Coordinates()"); m != "" {
			return m
		}
		if m := ptOK(l.StartPoint(), what+".StartPoint()"); m != "" {
			return m
		}
		return ptOK(l.EndPoint(), what+".EndPoint()")
	}
	polyOK := func(p geom.Polygon, what string) string {
		if p.CoordinatesType() != ct {
			return fmt.Sprintf("%s: %s reports %s, want %s", path, what, p.CoordinatesType(), ct)
		}
		if m := lsOK(p.ExteriorRing(), what+".ExteriorRing()"); m != "" {
			return m
		}
		for i := 0; i < p.NumInteriorRings(); i++ {
			if m := lsOK(p.InteriorRingN(i), fmt.Sprintf("%s.InteriorRingN(%d)", what, i)); m != "" {
				return m
			}
		}
		for i, r := range p.DumpRings() {
			if m := lsOK(r, fmt.Sprintf("%s.DumpRings()[%d]", what, i)); m != "" {
				return m
			}
		}
		return ""
	}
	switch g.Type() {
	case geom.TypePoint:
		return ptOK(g.MustAsPoint(), path)
	case geom.TypeLineString:
		return lsOK(g.MustAsLineString(), path)
	case geom.TypePolygon:
		return polyOK(g.MustAsPolygon(), path)
	case geom.TypeMultiPoint:
		mp := g.MustAsMultiPoint()
		for i := 0; i < mp.NumPoints(); i++ {
			if m := ptOK(mp.PointN(i), fmt.Sprintf("%s.PointN(%d)", path, i)); m != "" {
				return m
			}
		}
	case geom.TypeMultiLineString:
		ml := g.MustAsMultiLineString()
		for i := 0; i < ml.NumLineStrings(); i++ {
			if m := lsOK(ml.LineStringN(i), fmt.Sprintf("%s.LineStringN(%d)", path, i)); m != "" {
				return m
			}
		}
	case geom.TypeMultiPolygon:
		mp := g.MustAsMultiPolygon()
		for i := 0; i < mp.NumPolygons(); i++ {
			if m := polyOK(mp.PolygonN(i), fmt.Sprintf("%s.PolygonN(%d)", path, i)); m != "" {
				return m
			}
		}
	case geom.TypeGeometryCollection:
		gc := g.MustAsGeometryCollection()
		for i := 0; i < gc.NumGeometries(); i++ {
			if m := c16Walk(gc.GeometryN(i), ct, fmt.Sprintf("%s.GeometryN(%d)", path, i)); m != "" {
				return m
			}
		}
	}
	return ""
}

func c16Check(c C16Case, cx *h.Ctx) *h.Failure {
	model := c.G.Norm()
	g := model.ToGeom()
	ct := geom.CoordinatesType(model.CT)
	cx.Class("type=" + model.T)
	cx.Class("ct=" + gm.CTName(model.CT))
	desc := func() string { return "\ng = " + clip(model.String(), 600) }
	fail := func(class, format string, args ...interface{}) *h.Failure {
		f := h.Failf(class, format, args...)
		f.Msg += desc()
		return f
	}
	if m := c16Walk(g, ct, "g"); m != "" {
		return fail("ctype/inconsistent-after-construction", "%s", m)
	}
	if d := gm.Diff(model, gm.FromGeom(g)); d != "" {
		return fail("ctype/construct-readback", "constructed geometry reads back differently: %s", d)
	}

	// the flat-coordinate constructors (NewPointXYZ, NewMultiPointXYM, NewPolygonXYZM, ...) build the same geometry,
	// with the same coordinate type everywhere and no stray Z/M
	if f := c16FlatCtors(model, fail); f != nil {
		return f
	}

	// sequences that are views of a longer parent (Sequence.Slice): nothing done to a geometry built on the view
	// may write to the parent
	if f := c16Views(model, fail, cx); f != nil {
		return f
	}

	// NewPolygon given rings of different coordinate types reduces to the common subset, whichever ring comes first
	if model.T == gm.Polygon && len(model.Rings) >= 1 {
		common := 3
		rings := make([]geom.LineString, len(model.Rings))
		want := gm.G{T: gm.Polygon}
		for i, r := range model.Rings {
			rct := c.Mixed[i%len(c.Mixed)]
			common &= rct
			rm := forceCT(gm.G{T: gm.LineString, CT: model.CT, Co: r}, rct)
			rings[i] = rm.ToGeom().MustAsLineString()
		}
		for i, r := range model.Rings {
			rm := forceCT(forceCT(gm.G{T: gm.LineString, CT: model.CT, Co: r}, c.Mixed[i%len(c.Mixed)]), common)
			want.Rings = append(want.Rings, rm.Co)
		}
		want.CT = common
		out := geom.NewPolygon(rings).AsGeometry()
		if m := c16Walk(out, geom.CoordinatesType(common), "NewPolygon(mixed rings)"); m != "" {
			return fail("ctype/mixed-constructor", "NewPolygon given rings of coordinate types %v: %s", c.Mixed, m)
		}
		if d := gm.Diff(want, gm.FromGeom(out)); d != "" {
			return fail("ctype/mixed-constructor-values", "NewPolygon given rings of coordinate types %v does not reduce to the common subset: %s", c.Mixed, d)
		}
	}

	// mixed-ctype construction: constructors reduce to the common subset
	if len(model.Mem) > 0 {
		if f := c16Mixed(c, model, fail); f != nil {
			return f
		}
	}

	// ForceCoordinatesType to every target, Force2D
	for target := 0; target < 4; target++ {
		out := g.ForceCoordinatesType(geom.CoordinatesType(target))
		if m := c16Walk(out, geom.CoordinatesType(target), "ForceCoordinatesType"); m != "" {
			return fail("ctype/force-inconsistent", "ForceCoordinatesType(%s): %s", gm.CTName(target), m)
		}
		if d := gm.Diff(forceCT(model, target), gm.FromGeom(out)); d != "" {
			return fail("ctype/force-values", "ForceCoordinatesType(%s) changed more than it says (dropped dims vanish, added are 0, the rest identical): %s", gm.CTName(target), d)
		}
	}
	if d := gm.Diff(forceCT(model, 0), gm.FromGeom(g.Force2D())); d != "" {
		return fail("ctype/force2d", "Force2D: %s", d)
	}

	pos := positions(model)
	// Reverse, ForceCW, ForceCCW, Dump, AsMulti*: same coordinate type, same multiset of full positions
	same := []struct {
		name string
		x    geom.Geometry
	}{{"Reverse", g.Reverse()}, {"ForceCW", g.ForceCW()}, {"ForceCCW", g.ForceCCW()}}
	switch g.Type() {
	case geom.TypePoint:
		same = append(same, struct {
			name string
			x    geom.Geometry
		}{"AsMultiPoint", g.MustAsPoint().AsMultiPoint().AsGeometry()})
	case geom.TypeLineString:
		same = append(same, struct {
			name string
			x    geom.Geometry
		}{"AsMultiLineString", g.MustAsLineString().AsMultiLineString().AsGeometry()})
	case geom.TypePolygon:
		same = append(same, struct {
			name string
			x    geom.Geometry
		}{"AsMultiPolygon", g.MustAsPolygon().AsMultiPolygon().AsGeometry()})
	}
	for _, v := range same {
		if m := c16Walk(v.x, ct, v.name); m != "" {
			return fail("ctype/op-inconsistent", "%s: %s", v.name, m)
		}
		if !multisetEq(pos, positions(gm.FromGeom(v.x))) {
			return fail("ctype/op-payload", "%s does not carry each vertex's Z/M with its XY: positions %v became %v", v.name, pos, positions(gm.FromGeom(v.x)))
		}
		// sequence by sequence: every line / ring of the result is a line / ring of the input, as it was or
		// exactly reversed (Reverse: exactly reversed) - in particular the end vertices travel with their Z/M
		if msg := c16SeqMatch(model, gm.FromGeom(v.x), v.name == "Reverse"); msg != "" {
			return fail("ctype/op-sequence", "%s: %s", v.name, msg)
		}
	}
	// Dump: flattened members carry the same positions
	var dumped [][]gm.F
	for _, d := range g.Dump() {
		dumped = append(dumped, positions(gm.FromGeom(d))...)
	}
	if !multisetEq(pos, dumped) {
		return fail("ctype/dump-payload", "Dump() positions differ")
	}
	// DumpCoordinates: all positions in order
	dc := g.DumpCoordinates()
	if dc.Length() != len(pos) {
		return fail("ctype/dumpcoordinates-length", "DumpCoordinates() has %d positions, the geometry %d", dc.Length(), len(pos))
	}
	for i := 0; i < dc.Length(); i++ {
		cc := dc.Get(i)
		want := pos[i]
		got := []gm.F{gm.F(cc.X), gm.F(cc.Y)}
		if ct.Is3D() {
			got = append(got, gm.F(cc.Z))
		}
		if ct.IsMeasured() {
			got = append(got, gm.F(cc.M))
		}
		if posKey(got) != posKey(want) {
			return fail("ctype/dumpcoordinates-payload", "DumpCoordinates()[%d] = %v, want %v", i, got, want)
		}
	}
	// TransformXY: XY mapped, Z/M untouched, same structure
	f := func(p geom.XY) geom.XY { return geom.XY{X: 2*p.X - p.Y + 1, Y: p.X + p.Y - 3} }
	wantT := model.MapPositions(func(p []gm.F, _ int) []gm.F {
		x, y := float64(p[0]), float64(p[1])
		p[0], p[1] = gm.F(2*x-y+1), gm.F(x+y-3)
		return p
	})
	if d := gm.Diff(wantT, gm.FromGeom(g.TransformXY(f))); d != "" {
		return fail("ctype/transformxy", "TransformXY changed more than XY: %s", d)
	}
	// SnapToGrid: XY snapped, Z/M and structure untouched
	snapped := g.SnapToGrid(c.Snap)
	if m := c16Walk(snapped, ct, "SnapToGrid"); m != "" {
		return fail("ctype/op-inconsistent", "SnapToGrid(%d): %s", c.Snap, m)
	}
	sp := positions(gm.FromGeom(snapped))
	if len(sp) != len(pos) {
		return fail("ctype/snaptogrid-structure", "SnapToGrid(%d) changed the number of positions from %d to %d", c.Snap, len(pos), len(sp))
	}
	for i := range sp {
		if posKey(sp[i][2:]) != posKey(pos[i][2:]) {
			return fail("ctype/snaptogrid-payload", "SnapToGrid(%d) position %d: Z/M %v became %v", c.Snap, i, pos[i][2:], sp[i][2:])
		}
		if c.Snap >= 0 && posKey(sp[i][:2]) != posKey(pos[i][:2]) {
			return fail("ctype/snaptogrid-xy", "SnapToGrid(%d) moved an integer XY %v to %v", c.Snap, pos[i][:2], sp[i][:2])
		}
	}
	// Densify: originals kept in order with their tags, inserted ones interpolate
	if f := c16Densify(model, g, ct, c.Densify, fail); f != nil {
		return f
	}
	// Simplify: coordinate type kept (also when the result is empty), vertices are original vertices with their tags
	if simp, err := g.Simplify(c.Simplify, geom.NoValidate{}); err == nil {
		if m := c16Walk(simp, ct, "Simplify"); m != "" {
			return fail("ctype/simplify-inconsistent", "Simplify(%v): %s", c.Simplify, m)
		}
		have := map[string]bool{}
		for _, p := range pos {
			have[posKey(p)] = true
		}
		for _, p := range positions(gm.FromGeom(simp)) {
			if !have[posKey(p)] {
				return fail("ctype/simplify-payload", "Simplify(%v) produced a position %v that is not an original vertex with its Z/M", c.Simplify, p)
			}
		}
	}
	// Interpolate on line strings
	if g.Type() == geom.TypeLineString && g.Validate() == nil {
		ls := g.MustAsLineString()
		ip := ls.InterpolatePoint(c.Frac)
		if ip.CoordinatesType() != ct {
			return fail("ctype/interpolate", "InterpolatePoint(%v) has coordinate type %s", c.Frac, ip.CoordinatesType())
		}
		if cc, ok := ip.Coordinates(); ok && cc.Type != ct {
			return fail("ctype/interpolate", "InterpolatePoint(%v).Coordinates().Type = %s", c.Frac, cc.Type)
		}
		ie := ls.InterpolateEvenlySpacedPoints(c.N)
		if m := c16Walk(ie.AsGeometry(), ct, "InterpolateEvenlySpacedPoints"); m != "" {
			return fail("ctype/interpolate", "InterpolateEvenlySpacedPoints(%d): %s", c.N, m)
		}
	}
	// WKB / WKT round trips keep everything
	wkbBuf := g.AsBinary()
	if b, err := geom.UnmarshalWKB(wkbBuf, geom.NoValidate{}); err != nil || gm.Diff(model, gm.FromGeom(b)) != "" {
		return fail("ctype/wkb-roundtrip", "WKB round trip changed the geometry (%v)", err)
	} else {
		// the round-tripped value keeps every ordinate also after the caller has reused the buffer
		for i := range wkbBuf {
			wkbBuf[i] = 0
		}
		if d := gm.Diff(model, gm.FromGeom(b)); d != "" {
			return fail("ctype/wkb-roundtrip", "the geometry decoded from WKB changed when the input buffer was cleared: %s", d)
		}
	}
	if b, err := geom.UnmarshalWKT(g.AsText(), geom.NoValidate{}); err != nil || gm.Diff(model, gm.FromGeom(b)) != "" {
		return fail("ctype/wkt-roundtrip", "WKT round trip changed the geometry (%v)", err)
	}
	// XY-only operations return XY geometries
	xyOnly := []struct {
		name string
		x    geom.Geometry
	}{{"Centroid", g.Centroid().AsGeometry()}, {"ConvexHull", g.ConvexHull()}, {"PointOnSurface", g.PointOnSurface().AsGeometry()}, {"Envelope().AsGeometry()", g.Envelope().AsGeometry()}}
	if c.Valid {
		for _, op := range []struct {
			name string
			fn   func() (geom.Geometry, error)
		}{{"UnaryUnion", func() (geom.Geometry, error) { return geom.UnaryUnion(g) }},
			{"Union(g,g)", func() (geom.Geometry, error) { return geom.Union(g, g) }},
			{"Intersection(g,hull)", func() (geom.Geometry, error) { return geom.Intersection(g, g.ConvexHull()) }},
			{"Difference(hull,g)", func() (geom.Geometry, error) { return geom.Difference(g.ConvexHull(), g) }},
			{"SymmetricDifference(g,envelope)", func() (geom.Geometry, error) { return geom.SymmetricDifference(g, g.Envelope().AsGeometry()) }},
			// an empty operand of the same / another coordinate type in either position (short-cut paths)
			{"Difference(g,empty same type)", func() (geom.Geometry, error) {
				return geom.Difference(g, geom.Polygon{}.ForceCoordinatesType(ct).AsGeometry())
			}},
			{"Difference(g,empty XY)", func() (geom.Geometry, error) { return geom.Difference(g, geom.Point{}.AsGeometry()) }},
			{"Difference(empty,g)", func() (geom.Geometry, error) {
				return geom.Difference(geom.LineString{}.ForceCoordinatesType(ct).AsGeometry(), g)
			}},
			{"Union(g,empty)", func() (geom.Geometry, error) {
				return geom.Union(g, geom.MultiPoint{}.ForceCoordinatesType(ct).AsGeometry())
			}},
			{"Union(empty,g)", func() (geom.Geometry, error) {
				return geom.Union(geom.GeometryCollection{}.ForceCoordinatesType(ct).AsGeometry(), g)
			}},
			{"SymmetricDifference(g,empty)", func() (geom.Geometry, error) {
				return geom.SymmetricDifference(g, geom.MultiPolygon{}.ForceCoordinatesType(ct).AsGeometry())
			}},
			{"SymmetricDifference(empty,g)", func() (geom.Geometry, error) { return geom.SymmetricDifference(geom.Geometry{}, g) }},
			{"Intersection(g,empty)", func() (geom.Geometry, error) {
				return geom.Intersection(g, geom.MultiLineString{}.ForceCoordinatesType(ct).AsGeometry())
			}},
			{"Intersection(empty,g)", func() (geom.Geometry, error) {
				return geom.Intersection(geom.Point{}.ForceCoordinatesType(ct).AsGeometry(), g)
			}},
			{"UnionMany(g,empty,g)", func() (geom.Geometry, error) {
				return geom.UnionMany([]geom.Geometry{g, geom.Polygon{}.ForceCoordinatesType(ct).AsGeometry(), g})
			}}} {
			if r, err := op.fn(); err == nil {
				xyOnly = append(xyOnly, struct {
					name string
					x    geom.Geometry
				}{op.name, r})
			}
		}
	}
	for _, v := range xyOnly {
		if m := c16Walk(v.x, geom.DimXY, v.name); m != "" {
			return fail("ctype/xy-only-op", "%s must return an XY geometry: %s", v.name, m)
		}
	}
	if f := c16Typed(g, fail); f != nil {
		return f
	}
	if model.CT != 0 && (hasEmptyMember(model) || model.Depth() >= 2) {
		cx.NonTrivial()
	}
	cx.Sample(map[string]interface{}{"g": clip(model.String(), 300)})
	return nil
}

// c16FlatCtors rebuilds a (member-wise non-empty) Point / LineString / Polygon / Multi* model through the
// constructors of geom/ctor_from_coords.go and compares the result with the model.
func c16FlatCtors(model gm.G, fail func(class, format string, args ...interface{}) *h.Failure) *h.Failure {
	fl := func(fs []gm.F) []float64 {
		out := make([]float64, len(fs))
		for i, f := range fs {
			out[i] = float64(f)
		}
		return out
	}
	ct := model.CT
	var got geom.Geometry
	var owned [][]float64 // the caller's slices handed to the constructor
	switch model.T {
	case gm.Point:
		if len(model.Co) == 0 {
			return nil
		}
		c := fl(model.Co)
		got = [4]func() geom.Point{
			func() geom.Point { return geom.NewPointXY(c[0], c[1]) },
			func() geom.Point { return geom.NewPointXYZ(c[0], c[1], c[2]) },
			func() geom.Point { return geom.NewPointXYM(c[0], c[1], c[2]) },
			func() geom.Point { return geom.NewPointXYZM(c[0], c[1], c[2], c[3]) }}[ct]().AsGeometry()
	case gm.LineString:
		if len(model.Co) == 0 {
			return nil
		}
		c := fl(model.Co)
		owned = append(owned, c)
		got = [4]func(...float64) geom.LineString{geom.NewLineStringXY, geom.NewLineStringXYZ, geom.NewLineStringXYM, geom.NewLineStringXYZM}[ct](c...).AsGeometry()
	case gm.MultiPoint:
		var flat []float64
		for _, m := range model.Mem {
			if len(m.Co) == 0 {
				return nil
			}
			flat = append(flat, fl(m.Co)...)
		}
		if len(flat) == 0 {
			return nil
		}
		owned = append(owned, flat)
		got = [4]func(...float64) geom.MultiPoint{geom.NewMultiPointXY, geom.NewMultiPointXYZ, geom.NewMultiPointXYM, geom.NewMultiPointXYZM}[ct](flat...).AsGeometry()
	case gm.MultiLineString:
		var seqs [][]float64
		for _, m := range model.Mem {
			if len(m.Co) == 0 {
				return nil
			}
			seqs = append(seqs, fl(m.Co))
		}
		if len(seqs) == 0 {
			return nil
		}
		owned = append(owned, seqs...)
		got = [4]func(...[]float64) geom.MultiLineString{geom.NewMultiLineStringXY, geom.NewMultiLineStringXYZ, geom.NewMultiLineStringXYM, geom.NewMultiLineStringXYZM}[ct](seqs...).AsGeometry()
	case gm.Polygon:
		var rings [][]float64
		for _, r := range model.Rings {
			if len(r) == 0 {
				return nil
			}
			rings = append(rings, fl(r))
		}
		if len(rings) == 0 {
			return nil
		}
		owned = append(owned, rings...)
		got = [4]func(...[]float64) geom.Polygon{geom.NewPolygonXY, geom.NewPolygonXYZ, geom.NewPolygonXYM, geom.NewPolygonXYZM}[ct](rings...).AsGeometry()
		if len(rings) == 1 {
			single := [4]func(...float64) geom.Polygon{geom.NewSingleRingPolygonXY, geom.NewSingleRingPolygonXYZ, geom.NewSingleRingPolygonXYM, geom.NewSingleRingPolygonXYZM}[ct](rings[0]...).AsGeometry()
			if d := gm.Diff(model, gm.FromGeom(single)); d != "" {
				return fail("ctype/flat-constructor", "NewSingleRingPolygon%s builds a different geometry: %s", gm.CTName(ct), d)
			}
		}
	case gm.MultiPolygon:
		var polys [][][]float64
		for _, m := range model.Mem {
			if len(m.Rings) == 0 {
				return nil
			}
			var rings [][]float64
			for _, r := range m.Rings {
				if len(r) == 0 {
					return nil
				}
				rings = append(rings, fl(r))
			}
			polys = append(polys, rings)
			owned = append(owned, rings...)
		}
		if len(polys) == 0 {
			return nil
		}
		got = [4]func(...[][]float64) geom.MultiPolygon{geom.NewMultiPolygonXY, geom.NewMultiPolygonXYZ, geom.NewMultiPolygonXYM, geom.NewMultiPolygonXYZM}[ct](polys...).AsGeometry()
	default:
		return nil
	}
	if m := c16Walk(got, geom.CoordinatesType(ct), "flat-coordinate constructor"); m != "" {
		return fail("ctype/flat-constructor", "the %s constructor for %s: %s", gm.CTName(ct), model.T, m)
	}
	if d := gm.Diff(model, gm.FromGeom(got)); d != "" {
		return fail("ctype/flat-constructor", "the %s flat-coordinate constructor for %s builds a different geometry: %s", gm.CTName(ct), model.T, d)
	}
	// the built geometry owns its data: the caller goes on to reuse its slices
	for _, o := range owned {
		for i := range o {
			o[i] = 12345.5
		}
	}
	if d := gm.Diff(model, gm.FromGeom(got)); d != "" {
		return fail("ctype/flat-constructor-keeps-callers-slice", "the geometry built by the %s flat-coordinate constructor for %s changed when the caller overwrote the slices it had passed: %s", gm.CTName(ct), model.T, d)
	}
	return nil
}

// c16Typed: the methods of the concrete type. (a) Centroid / ConvexHull / PointOnSurface / Envelope called on
// the concrete type return XY and the same value as through Geometry; (b) a slice returned by any accessor
// without arguments (Dump, DumpRings, ...) is the caller's: overwriting its elements must not change the receiver.
func c16Typed(g geom.Geometry, fail func(class, format string, args ...interface{}) *h.Failure) *h.Failure {
	asGeom := func(v reflect.Value) (geom.Geometry, bool) {
		if gg, ok := v.Interface().(geom.Geometry); ok {
			return gg, true
		}
		if m := v.MethodByName("AsGeometry"); m.IsValid() && m.Type().NumIn() == 0 {
			if gg, ok := m.Call(nil)[0].Interface().(geom.Geometry); ok {
				return gg, true
			}
		}
		return geom.Geometry{}, false
	}
	recvs := apienum.Receivers(g)
	for _, rv := range recvs[:2] {
		if _, ok := rv.Interface().(geom.Sequence); ok {
			continue
		}
		if _, ok := rv.Interface().(geom.Envelope); ok {
			continue
		}
		tn := rv.Type().Name()
		for _, name := range []string{"Centroid", "ConvexHull", "PointOnSurface", "Envelope"} {
			m := rv.MethodByName(name)
			gm0 := reflect.ValueOf(g).MethodByName(name)
			if !m.IsValid() || m.Type().NumIn() != 0 {
				continue
			}
			res, ok1 := asGeom(m.Call(nil)[0])
			want, ok2 := asGeom(gm0.Call(nil)[0])
			if !ok1 || !ok2 {
				continue
			}
			if msg := c16Walk(res, geom.DimXY, tn+"."+name); msg != "" {
				return fail("ctype/xy-only-op", "%s.%s must return an XY geometry: %s", tn, name, msg)
			}
			if !bytes.Equal(res.AsBinary(), want.AsBinary()) {
				return fail("ctype/typed-method-differs", "%s.%s() = %s but Geometry.%s() = %s", tn, name, clip(res.AsText(), 200), name, clip(want.AsText(), 200))
			}
		}
		before := g.AsBinary()
		t := rv.Type()
		for i := 0; i < t.NumMethod(); i++ {
			m := rv.Method(i)
			if m.Type().NumIn() != 0 || m.Type().NumOut() < 1 || m.Type().Out(0).Kind() != reflect.Slice || t.Method(i).Name == "AsBinary" {
				continue
			}
			out := m.Call(nil)[0]
			for j := 0; j < out.Len(); j++ {
				if out.Index(j).CanSet() {
					out.Index(j).Set(reflect.Zero(out.Type().Elem()))
				}
			}
			ab := rv.MethodByName("AsBinary")
			if !ab.IsValid() {
				break
			}
			if after := ab.Call(nil)[0].Bytes(); !bytes.Equal(before, after) {
				return fail("ctype/returned-slice-aliases-receiver", "overwriting the elements of the slice returned by %s.%s() changed the receiver: %s", tn, t.Method(i).Name, clip(g.AsText(), 200))
			}
		}
	}
	return nil
}

// c16Views: every line of the model is rebuilt as a Slice view into a parent sequence that continues with
// sentinel positions; the line is placed first in a collection together with the other members, and the usual
// read operations are applied; the parent must read back unchanged and the results must be those of a line built
// on a private copy.
func c16Views(model gm.G, fail func(class, format string, args ...interface{}) *h.Failure, cx *h.Ctx) *h.Failure {
	var lines []gm.G
	model.Walk(func(n gm.G) {
		if n.T == gm.LineString && len(n.Co) > 0 && len(lines) < 2 {
			lines = append(lines, n)
		}
	})
	for _, ln := range lines {
		d := gm.Dim(ln.CT)
		n := len(ln.Co) / d
		parentFloats := make([]float64, 0, (n+3)*d)
		for _, f := range ln.Co {
			parentFloats = append(parentFloats, float64(f))
		}
		for k := 0; k < 3*d; k++ {
			parentFloats = append(parentFloats, 7777+float64(k)) // sentinel positions after the view
		}
		want := append([]float64(nil), parentFloats...)
		ct := geom.CoordinatesType(ln.CT)
		parent := geom.NewSequence(parentFloats, ct)
		view := parent.Slice(0, n)
		ls := geom.NewLineString(view)
		other := geom.NewPointXY(1, 2).ForceCoordinatesType(ct).AsGeometry()
		gc := geom.NewGeometryCollection([]geom.Geometry{ls.AsGeometry(), other, ls.AsGeometry()}).AsGeometry()
		mls := geom.NewMultiLineString([]geom.LineString{ls, ls}).AsGeometry()
		private := ln.ToGeom()
		for _, x := range []geom.Geometry{gc, mls, ls.AsGeometry()} {
			_ = x.DumpCoordinates()
			_ = x.Summary()
			_ = x.AsText()
			_ = x.AsBinary()
			_ = x.Reverse()
			_ = x.Force2D()
			_ = x.ForceCoordinatesType(geom.DimXYZM)
			_ = x.TransformXY(func(p geom.XY) geom.XY { return geom.XY{X: p.X + 1, Y: p.Y} })
			_ = x.Densify(1e9)
			_ = x.Envelope()
			_ = x.Dump()
		}
		if got := gm.FromGeom(ls.AsGeometry()); gm.Diff(gm.FromGeom(private), got) != "" {
			return fail("ctype/view-line-differs", "a LineString built on a Slice view reads %s, the same line built on a private sequence %s", got, gm.FromGeom(private))
		}
		for i := 0; i < parent.Length(); i++ {
			c := parent.Get(i)
			got := []float64{c.X, c.Y}
			if ct.Is3D() {
				got = append(got, c.Z)
			}
			if ct.IsMeasured() {
				got = append(got, c.M)
			}
			for j := range got {
				w := want[i*d+j]
				if got[j] != w && !(got[j] != got[j] && w != w) {
					return fail("pure/view-parent-modified", "operations on geometries built on parent.Slice(0,%d) changed position %d of the parent sequence: %v, was %v", n, i, got, want[i*d:(i+1)*d])
				}
			}
		}
		cx.Count("slice_views_checked", 1)
	}
	return nil
}

func c16Mixed(c C16Case, model gm.G, fail func(class, format string, args ...interface{}) *h.Failure) *h.Failure {
	// rebuild the collection from members forced to different coordinate types
	common := 3
	var members []gm.G
	for i, m := range model.Mem {
		mct := c.Mixed[i%len(c.Mixed)]
		members = append(members, forceCT(m, mct))
		common &= mct
	}
	var out geom.Geometry
	// the caller's slice is the caller's: the constructor may neither change its elements (they keep the coordinate
	// types they were given) nor keep using it (overwriting it afterwards does not change the collection)
	var callerTypes func() []geom.CoordinatesType
	var scribbleCaller func()
	switch model.T {
	case gm.MultiPoint:
		pts := make([]geom.Point, len(members))
		for i, m := range members {
			pts[i] = m.ToGeom().MustAsPoint()
		}
		out = geom.NewMultiPoint(pts).AsGeometry()
		callerTypes = func() (ts []geom.CoordinatesType) {
			for _, x := range pts {
				ts = append(ts, x.CoordinatesType())
			}
			return
		}
		scribbleCaller = func() {
			for i := range pts {
				pts[i] = geom.NewPointXY(-777, -777)
			}
		}
	case gm.MultiLineString:
		ls := make([]geom.LineString, len(members))
		for i, m := range members {
			ls[i] = m.ToGeom().MustAsLineString()
		}
		out = geom.NewMultiLineString(ls).AsGeometry()
		callerTypes = func() (ts []geom.CoordinatesType) {
			for _, x := range ls {
				ts = append(ts, x.CoordinatesType())
			}
			return
		}
		scribbleCaller = func() {
			for i := range ls {
				ls[i] = geom.NewLineStringXY(-777, -777, -776, -776)
			}
		}
	case gm.MultiPolygon:
		ps := make([]geom.Polygon, len(members))
		for i, m := range members {
			ps[i] = m.ToGeom().MustAsPolygon()
		}
		out = geom.NewMultiPolygon(ps).AsGeometry()
		callerTypes = func() (ts []geom.CoordinatesType) {
			for _, x := range ps {
				ts = append(ts, x.CoordinatesType())
			}
			return
		}
		scribbleCaller = func() {
			for i := range ps {
				ps[i] = geom.NewSingleRingPolygonXY(-777, -777, -776, -777, -776, -776, -777, -777)
			}
		}
	case gm.GeometryCollection:
		gs := make([]geom.Geometry, len(members))
		for i, m := range members {
			gs[i] = m.ToGeom()
		}
		out = geom.NewGeometryCollection(gs).AsGeometry()
		callerTypes = func() (ts []geom.CoordinatesType) {
			for _, x := range gs {
				ts = append(ts, x.CoordinatesType())
			}
			return
		}
		scribbleCaller = func() {
			for i := range gs {
				gs[i] = geom.NewPointXY(-777, -777).AsGeometry()
			}
		}
	default:
		return nil
	}
	for i, ctGot := range callerTypes() {
		if want := geom.CoordinatesType(c.Mixed[i%len(c.Mixed)]); ctGot != want {
			return fail("pure/caller-slice-modified", "the %s constructor changed element %d of the caller's slice from %s to %s", model.T, i, want, ctGot)
		}
	}
	scribbleCaller()
	if m := c16Walk(out, geom.CoordinatesType(common), "mixed constructor"); m != "" {
		return fail("ctype/mixed-constructor", "constructor given members of coordinate types %v: %s", c.Mixed, m)
	}
	want := forceCT(model, common)
	// dims that were forced away and back are zero, not the tags: compute expectation member by member
	for i := range want.Mem {
		want.Mem[i] = forceCT(forceCT(model.Mem[i], c.Mixed[i%len(c.Mixed)]), common)
	}
	if d := gm.Diff(want, gm.FromGeom(out)); d != "" {
		return fail("ctype/mixed-constructor-values", "constructor given members of coordinate types %v does not reduce to the common subset: %s", c.Mixed, d)
	}
	return nil
}

func c16Densify(model gm.G, g geom.Geometry, ct geom.CoordinatesType, d float64, fail func(class, format string, args ...interface{}) *h.Failure) *h.Failure {
	out := g.Densify(d)
	if m := c16Walk(out, ct, "Densify"); m != "" {
		return fail("ctype/op-inconsistent", "Densify(%v): %s", d, m)
	}
	om := gm.FromGeom(out)
	// compare sequence by sequence
	var inSeqs, outSeqs [][]gm.F
	collectSeqs := func(g gm.G, dst *[][]gm.F) {
		g.Walk(func(n gm.G) {
			if n.T == gm.LineString {
				*dst = append(*dst, n.Co)
			}
			for _, r := range n.Rings {
				*dst = append(*dst, r)
			}
		})
	}
	collectSeqs(model, &inSeqs)
	collectSeqs(om, &outSeqs)
	if len(inSeqs) != len(outSeqs) {
		return fail("ctype/densify-structure", "Densify(%v) changed the number of sequences from %d to %d", d, len(inSeqs), len(outSeqs))
	}
	dim := gm.Dim(model.CT)
	for s := range inSeqs {
		in, o := inSeqs[s], outSeqs[s]
		j := 0
		for i := 0; i+dim <= len(in); i += dim {
			found := false
			for ; j+dim <= len(o); j += dim {
				if posKey(o[j:j+dim]) == posKey(in[i:i+dim]) {
					found = true
					// inserted vertices between the previous original (at pj) and this one interpolate Z/M
					j += dim
					break
				}
			}
			if !found {
				return fail("ctype/densify-original-vertex", "Densify(%v): original vertex %v (with its Z/M) is missing or out of order in %v", d, in[i:i+dim], o)
			}
		}
		// inserted vertices: Z/M lie between the bracketing originals and vary linearly with XY
		if dim > 2 {
			// walk again and check interpolation
			k := 0
			for i := 0; i+2*dim <= len(in); i += dim {
				a, b := in[i:i+dim], in[i+dim:i+2*dim]
				// advance k to a
				for k+dim <= len(o) && posKey(o[k:k+dim]) != posKey(a) {
					k += dim
				}
				k += dim
				for k+dim <= len(o) && posKey(o[k:k+dim]) != posKey(b) {
					p := o[k : k+dim]
					dx, dy := float64(b[0]-a[0]), float64(b[1]-a[1])
					l2 := dx*dx + dy*dy
					if l2 > 0 {
						tpar := (float64(p[0]-a[0])*dx + float64(p[1]-a[1])*dy) / l2
						for e := 2; e < dim; e++ {
							want := float64(a[e]) + tpar*float64(b[e]-a[e])
							if math.Abs(float64(p[e])-want) > 1e-9*(1+math.Abs(want)) {
								return fail("ctype/densify-interpolation", "Densify(%v): inserted vertex %v between %v and %v does not interpolate Z/M linearly (want %v)", d, p, a, b, want)
							}
						}
					}
					k += dim
				}
			}
		}
	}
	return nil
}

func TestC16(t *testing.T) {
	h.Run(t, h.Prop[C16Case]{
		ID:              "C16",
		WholeCheckLimit: 300 * time.Second,
		Rule:            "cases = a geometry of any of the 7 types x 4 coordinate types (integer XY; empties at every position, nested collections, zero values; half valid by construction) in which every vertex carries the unique tags Z = i, M = -i, plus parameters (member coordinate types for mixed construction, Densify distance, Simplify threshold, SnapToGrid places -2..3, interpolation fraction and count). Checks: a recursive walker asserts one CoordinatesType() for the geometry and everything reachable (PointN/LineStringN/PolygonN/GeometryN, rings, DumpRings, Coordinates(), Get(i).Type, StartPoint/EndPoint, Dump, DumpCoordinates) after construction and after every operation; constructors given members of different coordinate types reduce to the common subset with values per the harness model; ForceCoordinatesType(each of 4)/Force2D = harness model exactly (also on empties); Reverse/ForceCW/ForceCCW/AsMulti*/Dump keep the multiset of full (XY,Z,M) positions; DumpCoordinates lists them in order; TransformXY changes XY only; SnapToGrid keeps Z/M and integer XY (places >= 0); Densify keeps originals in order with their tags and interpolates Z/M linearly on inserted vertices; Simplify keeps the coordinate type (also when empty) and only emits original tagged vertices; Interpolate* keep the coordinate type; WKB/WKT round trips are identical; Centroid, ConvexHull, PointOnSurface, Envelope geometry (through Geometry and the concrete types, same value) and the set operations return XY throughout; constructors neither keep nor change the caller's slices; slices returned by accessors without arguments can be overwritten without changing the receiver. non-trivial = coordinate type != XY and (an empty member or nesting)",
		Assumptions:     []string{"gm model conversion through public constructors/accessors (read-back checked per case)"},
		Gen:             c16Gen,
		Check:           c16Check,
	})
}

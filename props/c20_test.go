package props

import (
	"encoding/json"
	"fmt"
	"go/ast"
	"go/parser"
	"go/token"
	"math"
	"path/filepath"
	"reflect"
	"strings"
	"testing"

	"github.com/peterstace/simplefeatures/geom"
	"pgregory.net/rapid"

	"verif/internal/apienum"
	"verif/internal/exact"
	"verif/internal/gm"
	"verif/internal/h"
)

// ---------- C20: every operation is total on empty, zero-value and mixed-empty geometries ----------

type C20Case struct {
	Recv   gm.G   `json:"recv"`
	Others []gm.G `json:"others"`
	Ints   []int  `json:"ints"`
	// transparency: Base is a non-empty valid geometry, Third another one; Empties are inserted into Base
	Base    gm.G   `json:"base"`
	Third   gm.G   `json:"third"`
	Empties []gm.G `json:"empties"`
	At      []int  `json:"at"`
	// Deep[i]: how many collection levels empty i descends before it is inserted (members that are
	// themselves collections); Wrap: the base is nested in this many extra GeometryCollections on BOTH sides
	// of the comparison, so that the empties land in an inner, non-empty collection.
	Deep []int `json:"deep,omitempty"`
	Wrap int   `json:"wrap,omitempty"`
}

var c20EmptyTypes = []string{gm.Point, gm.LineString, gm.Polygon, gm.MultiPoint, gm.MultiLineString, gm.MultiPolygon, gm.GeometryCollection}

// c20Zoo draws an empty-ish geometry: zero values, typed empties, collections of empties, nested empties.
func c20Zoo(t *rapid.T, label string, depth int) gm.G {
	switch rapid.IntRange(0, 5).Draw(t, label+"kind") {
	case 0:
		typ := rapid.SampledFrom(append([]string{"Geometry"}, c20EmptyTypes...)).Draw(t, label+"ztype")
		return gm.G{T: typ, Zero: true}
	case 1, 2:
		return gm.G{T: rapid.SampledFrom(c20EmptyTypes).Draw(t, label+"type"), CT: rapid.IntRange(0, 3).Draw(t, label+"ct")}
	default:
		ct := rapid.IntRange(0, 3).Draw(t, label+"ct")
		typ := rapid.SampledFrom([]string{gm.MultiPoint, gm.MultiLineString, gm.MultiPolygon, gm.GeometryCollection, gm.GeometryCollection}).Draw(t, label+"ctype")
		g := gm.G{T: typ, CT: ct}
		n := rapid.IntRange(1, 3).Draw(t, label+"n")
		for i := 0; i < n; i++ {
			switch typ {
			case gm.MultiPoint:
				g.Mem = append(g.Mem, gm.G{T: gm.Point, CT: ct})
			case gm.MultiLineString:
				g.Mem = append(g.Mem, gm.G{T: gm.LineString, CT: ct})
			case gm.MultiPolygon:
				g.Mem = append(g.Mem, gm.G{T: gm.Polygon, CT: ct})
			default:
				if depth < 2 && rapid.IntRange(0, 3).Draw(t, label+"nest") == 0 {
					m := c20Zoo(t, label+"m", depth+1)
					m = forceCT(m.Norm(), ct)
					g.Mem = append(g.Mem, m)
				} else {
					g.Mem = append(g.Mem, gm.G{T: rapid.SampledFrom(c20EmptyTypes).Draw(t, label+"mtype"), CT: ct})
				}
			}
		}
		return g
	}
}

func c20Gen(t *rapid.T, cx *h.Ctx) C20Case {
	var c C20Case
	one := genOne(t, cx, false)
	for i := 0; i < 3 && one.G.IsEmpty(); i++ {
		one = genOne(t, cx, false)
	}
	if one.G.IsEmpty() {
		one.G = gm.G{T: gm.Point, Co: gm.Fs(1, 2)}
	}
	c.Base = one.G
	c.Third = genOne(t, cx, false).G
	// receiver: from the zoo, or a mixed-empty version of a real geometry
	if rapid.IntRange(0, 3).Draw(t, "recvmixed") == 0 {
		c.Recv = c.Base
	} else {
		c.Recv = c20Zoo(t, "recv", 0)
	}
	for i := rapid.IntRange(1, 3).Draw(t, "nothers"); i > 0; i-- {
		if rapid.IntRange(0, 4).Draw(t, "otherreal") == 0 {
			c.Others = append(c.Others, c.Third)
		} else {
			c.Others = append(c.Others, c20Zoo(t, "other", 0))
		}
	}
	c.Ints = rapid.SliceOfN(rapid.IntRange(0, 9), 4, 12).Draw(t, "ints")
	for i := rapid.IntRange(1, 3).Draw(t, "nempties"); i > 0; i-- {
		e := c20Zoo(t, "ins", 1).Norm()
		c.Empties = append(c.Empties, forceCT(e, 0))
		c.At = append(c.At, rapid.IntRange(0, 6).Draw(t, "at"))
		c.Deep = append(c.Deep, rapid.IntRange(0, 3).Draw(t, "deep"))
	}
	c.Wrap = rapid.IntRange(0, 2).Draw(t, "wrap")
	return c
}

// insertEmpties builds g+ from g.
func c20Plus(g gm.G, empties []gm.G, at []int, deep []int) gm.G {
	g = g.Norm()
	admissible := func(parent string, e gm.G) (gm.G, bool) {
		switch parent {
		case gm.MultiPoint:
			return gm.G{T: gm.Point}, true
		case gm.MultiLineString:
			return gm.G{T: gm.LineString}, true
		case gm.MultiPolygon:
			return gm.G{T: gm.Polygon}, true
		case gm.GeometryCollection:
			return e, true
		}
		return e, false
	}
	out := g.Clone()
	if _, ok := admissible(g.T, gm.G{}); !ok {
		// wrap a non-collection into a collection together with the empties
		out = gm.G{T: gm.GeometryCollection, Mem: []gm.G{g.Clone()}}
	}
	isColl := func(n *gm.G) bool {
		switch n.T {
		case gm.MultiPoint, gm.MultiLineString, gm.MultiPolygon, gm.GeometryCollection:
			return true
		}
		return false
	}
	for i, e := range empties {
		node := &out
		d := 0
		if i < len(deep) {
			d = deep[i]
		}
		for lvl := 0; lvl < d && len(node.Mem) > 0; lvl++ {
			nx := &node.Mem[(at[i]+lvl)%len(node.Mem)]
			*nx = nx.Norm()
			if !isColl(nx) {
				break
			}
			node = nx
		}
		m, _ := admissible(node.T, e)
		pos := at[i] % (len(node.Mem) + 1)
		mem := append([]gm.G{}, node.Mem[:pos]...)
		mem = append(mem, m)
		mem = append(mem, node.Mem[pos:]...)
		node.Mem = mem
	}
	return out
}

func samePointSet(a, b geom.Geometry) bool {
	ea, eb := exact.MustFromModel(gm.FromGeom(a)), exact.MustFromModel(gm.FromGeom(b))
	if ea.IsEmpty() || eb.IsEmpty() {
		return ea.IsEmpty() == eb.IsEmpty()
	}
	m, _ := exact.Relate(ea, eb)
	return exact.MatchPattern(m, "T*F**FFF*")
}

var c20Uncovered []string
var c20Scanned bool

// c20ScanAPI lists exported free functions of package geom that the apienum
// table does not cover (reported in the evidence; never a violation).
func c20ScanAPI() []string {
	if c20Scanned {
		return c20Uncovered
	}
	c20Scanned = true
	fset := token.NewFileSet()
	files, _ := filepath.Glob("/repo/geom/*.go")
	covered := apienum.FuncNames()
	for _, fn := range files {
		if strings.HasSuffix(fn, "_test.go") {
			continue
		}
		f, err := parser.ParseFile(fset, fn, nil, 0)
		if err != nil {
			continue
		}
		for _, d := range f.Decls {
			fd, ok := d.(*ast.FuncDecl)
			if !ok || fd.Recv != nil || !fd.Name.IsExported() {
				continue
			}
			if !covered[fd.Name.Name] {
				c20Uncovered = append(c20Uncovered, fd.Name.Name)
			}
		}
	}
	return c20Uncovered
}

func c20Check(c C20Case, cx *h.Ctx) *h.Failure {
	recvG := c.Recv.ToGeom()
	pool := []geom.Geometry{}
	for _, o := range c.Others {
		pool = append(pool, o.ToGeom())
	}
	desc := func() string {
		var os []string
		for _, o := range c.Others {
			os = append(os, o.String())
		}
		return fmt.Sprintf("\nreceiver = %s\nother arguments = %s", c.Recv, strings.Join(os, " ; "))
	}
	cx.Class("recv=" + c.Recv.T)
	for _, u := range c20ScanAPI() {
		cx.Distinct("uncovered_api_free_functions", u)
	}
	// (a) every method of every receiver view, and every free function
	invoked := 0
	for _, rv := range apienum.Receivers(recvG) {
		for _, call := range apienum.Methods(rv) {
			a := &apienum.Args{Pool: pool, Ints: c.Ints}
			r := apienum.Invoke(call, a)
			if r.Skipped != "" {
				continue
			}
			invoked++
			cx.Distinct("methods_invoked", call.Name)
			if r.Panic != nil {
				return h.Failf("total/panic:"+call.Name, "%s(%s) panics: %v%s", call.Name, r.ArgsRepr, r.Panic, desc())
			}
		}
	}
	fpool := append([]geom.Geometry{recvG}, pool...)
	for shift := 0; shift < len(fpool); shift++ {
		rot := append(append([]geom.Geometry{}, fpool[shift:]...), fpool[:shift]...)
		for _, call := range apienum.Funcs() {
			a := &apienum.Args{Pool: rot, Ints: c.Ints}
			r := apienum.Invoke(call, a)
			if r.Skipped != "" {
				continue
			}
			invoked++
			cx.Distinct("methods_invoked", call.Name)
			if r.Panic != nil {
				return h.Failf("total/panic:"+call.Name, "%s(%s) panics: %v%s", call.Name, r.ArgsRepr, r.Panic, desc())
			}
		}
	}
	cx.Count("calls_invoked", int64(invoked))

	// neutral answers for an empty receiver
	if c.Recv.IsEmpty() {
		if f := c20Neutral(recvG, pool, desc); f != nil {
			return f
		}
	}

	// (c) geom.Geometry{} behaves exactly like an explicitly constructed empty GeometryCollection
	if c.Recv.Zero && c.Recv.T == "Geometry" {
		explicit := geom.NewGeometryCollection(nil).AsGeometry()
		ra, rb := reflect.ValueOf(recvG), reflect.ValueOf(explicit)
		ma, mb := apienum.Methods(ra), apienum.Methods(rb)
		for i := range ma {
			a1 := &apienum.Args{Pool: pool, Ints: c.Ints}
			a2 := &apienum.Args{Pool: pool, Ints: c.Ints}
			r1, r2 := apienum.Invoke(ma[i], a1), apienum.Invoke(mb[i], a2)
			if s1, s2 := apienum.ReprResults(r1), apienum.ReprResults(r2); s1 != s2 {
				return h.Failf("total/zero-geometry-differs:"+ma[i].Name, "%s(%s) on geom.Geometry{} = %s, on an explicit empty GeometryCollection = %s%s", ma[i].Name, r1.ArgsRepr, clip(s1, 300), clip(s2, 300), desc())
			}
		}
		for _, call := range apienum.Funcs() {
			a1 := &apienum.Args{Pool: append([]geom.Geometry{recvG}, pool...), Ints: c.Ints}
			a2 := &apienum.Args{Pool: append([]geom.Geometry{explicit}, pool...), Ints: c.Ints}
			r1, r2 := apienum.Invoke(call, a1), apienum.Invoke(call, a2)
			if s1, s2 := apienum.ReprResults(r1), apienum.ReprResults(r2); s1 != s2 {
				return h.Failf("total/zero-geometry-differs:"+call.Name, "%s with geom.Geometry{} = %s, with an explicit empty GeometryCollection = %s%s", call.Name, clip(s1, 300), clip(s2, 300), desc())
			}
		}
		cx.Class("zero-geometry-differential")
	}

	// (b) transparency of empty members
	if f := c20Transparency(c, cx); f != nil {
		return f
	}
	mixed := false
	for _, g := range append([]gm.G{c.Recv}, c.Others...) {
		if g.Zero || (len(g.Mem) > 0 && g.IsEmpty()) {
			mixed = true
		}
	}
	if mixed {
		cx.NonTrivial()
	}
	cx.Sample(map[string]interface{}{"recv": c.Recv.String(), "others": len(c.Others), "base": clip(c.Base.String(), 150), "calls": invoked})
	return nil
}

func c20Neutral(g geom.Geometry, pool []geom.Geometry, desc func() string) *h.Failure {
	bad := func(what string, got interface{}) *h.Failure {
		return h.Failf("total/neutral-answer:"+what, "%s of an empty geometry = %v%s", what, got, desc())
	}
	if !g.IsEmpty() {
		return bad("IsEmpty", false)
	}
	if g.Validate() != nil {
		return bad("Validate", g.Validate())
	}
	if g.Area() != 0 || g.Length() != 0 {
		return bad("Area/Length", []float64{g.Area(), g.Length()})
	}
	if !g.Centroid().IsEmpty() || !g.PointOnSurface().IsEmpty() || !g.Envelope().IsEmpty() || !g.ConvexHull().IsEmpty() || !g.Boundary().IsEmpty() {
		return bad("Centroid/PointOnSurface/Envelope/ConvexHull/Boundary", "non-empty")
	}
	if g.DumpCoordinates().Length() != 0 {
		return bad("DumpCoordinates", g.DumpCoordinates().Length())
	}
	for _, o := range pool {
		if d, ok := geom.Distance(g, o); ok || d != 0 {
			return bad("Distance", []interface{}{d, ok})
		}
		if geom.Intersects(g, o) || geom.Intersects(o, g) {
			return bad("Intersects", true)
		}
		if dj, err := geom.Disjoint(g, o); err != nil || !dj {
			return bad("Disjoint", []interface{}{dj, err})
		}
		if r, err := geom.Intersection(g, o); err != nil || !r.IsEmpty() {
			return bad("Intersection", r.AsText())
		}
		if r, err := geom.Difference(g, o); err != nil || !r.IsEmpty() {
			return bad("Difference(empty, x)", r.AsText())
		}
		if o.Validate() != nil {
			continue
		}
		// Union / SymmetricDifference / Difference(x, empty) = self-union of the other operand
		uu, err := geom.UnaryUnion(o)
		if err != nil {
			continue
		}
		for _, op := range []struct {
			name string
			fn   func() (geom.Geometry, error)
		}{{"Union(empty,x)", func() (geom.Geometry, error) { return geom.Union(g, o) }},
			{"Union(x,empty)", func() (geom.Geometry, error) { return geom.Union(o, g) }},
			{"SymmetricDifference(empty,x)", func() (geom.Geometry, error) { return geom.SymmetricDifference(g, o) }},
			{"Difference(x,empty)", func() (geom.Geometry, error) { return geom.Difference(o, g) }}} {
			r, err := op.fn()
			if err != nil {
				return bad(op.name, err)
			}
			if !geom.ExactEquals(r, uu) {
				return h.Failf("total/neutral-answer:"+op.name, "%s = %s, want the self-union of the other operand %s%s", op.name, clip(r.AsText(), 200), clip(uu.AsText(), 200), desc())
			}
		}
	}
	return nil
}

func c20Transparency(c C20Case, cx *h.Ctx) *h.Failure {
	base := c.Base.Norm()
	for i := 0; i < c.Wrap; i++ {
		base = gm.G{T: gm.GeometryCollection, Mem: []gm.G{base}}
	}
	plus := c20Plus(base, c.Empties, c.At, c.Deep)
	if c.Wrap > 0 || len(c.Deep) > 0 {
		cx.Class(fmt.Sprintf("transparency-wrap=%d", c.Wrap))
	}
	g, gp, third := base.ToGeom(), plus.ToGeom(), c.Third.ToGeom()
	desc := func() string {
		return fmt.Sprintf("\ng  = %s\ng+ = %s\nh  = %s", clip(base.String(), 400), clip(plus.String(), 500), clip(c.Third.String(), 300))
	}
	diff := func(what string, a, b interface{}) *h.Failure {
		return h.Failf("transparent/"+what, "%s differs after inserting empty members: %v vs %v%s", what, a, b, desc())
	}
	if g.IsEmpty() != gp.IsEmpty() {
		return diff("IsEmpty", g.IsEmpty(), gp.IsEmpty())
	}
	if math.Abs(g.Area()-gp.Area()) > 1e-9*(1+g.Area()) || math.Abs(g.Length()-gp.Length()) > 1e-9*(1+g.Length()) {
		return diff("Area/Length", []float64{g.Area(), g.Length()}, []float64{gp.Area(), gp.Length()})
	}
	c1, ok1 := g.Centroid().XY()
	c2, ok2 := gp.Centroid().XY()
	if ok1 != ok2 || math.Abs(c1.X-c2.X) > 1e-9*(1+math.Abs(c1.X)) || math.Abs(c1.Y-c2.Y) > 1e-9*(1+math.Abs(c1.Y)) || math.IsNaN(c2.X) != math.IsNaN(c1.X) {
		return diff("Centroid", g.Centroid().AsText(), gp.Centroid().AsText())
	}
	if apienum.Repr(reflect.ValueOf(g.Envelope())) != apienum.Repr(reflect.ValueOf(gp.Envelope())) {
		return diff("Envelope", g.Envelope(), gp.Envelope())
	}
	// structure-preserving operations on the Z/M-carrying versions: the inserted empties change neither the
	// coordinate type of the result nor any position of it
	for _, lct := range []int{1, 3} {
		gl, gpl := c16TagWith(forceCT(base, lct), false), c16TagWith(forceCT(plus, lct), false)
		// tags are assigned in traversal order: give both the same tags by tagging the base and re-inserting
		gpl = c20Plus(gl, func() []gm.G {
			var es []gm.G
			for _, e := range c.Empties {
				es = append(es, forceCT(e, lct))
			}
			return es
		}(), c.At, c.Deep)
		gpl = forceCT(gpl, lct) // the inserted typed empties take the coordinate type of their host (forceCT keeps the tags)
		// GeoJSON carries Z: the inserted (typed) empties must not cost the other members their Z
		if lct == 1 {
			b1, e1 := gl.ToGeom().MarshalJSON()
			b2, e2 := gpl.ToGeom().MarshalJSON()
			if e1 != nil || e2 != nil || !json.Valid(b2) {
				return diff("MarshalJSON (Z)", fmt.Sprint(e1), fmt.Sprint(e2, clip(string(b2), 200)))
			}
			d1, x1 := geom.UnmarshalGeoJSON(b1, geom.NoValidate{})
			d2, x2 := geom.UnmarshalGeoJSON(b2, geom.NoValidate{})
			if x1 != nil || x2 != nil || !multisetEq(positions(gm.FromGeom(d1)), positions(gm.FromGeom(d2))) {
				return diff("GeoJSON positions (Z)", fmt.Sprintf("%v %s", x1, clip(string(b1), 200)), fmt.Sprintf("%v %s", x2, clip(string(b2), 200)))
			}
		}
		f := func(p geom.XY) geom.XY { return geom.XY{X: p.X + 3, Y: 2 * p.Y} }
		for _, op := range []struct {
			name string
			fn   func(g geom.Geometry) geom.Geometry
		}{{"TransformXY", func(g geom.Geometry) geom.Geometry { return g.TransformXY(f) }},
			{"SnapToGrid(0)", func(g geom.Geometry) geom.Geometry { return g.SnapToGrid(0) }},
			{"Reverse", func(g geom.Geometry) geom.Geometry { return g.Reverse() }},
			{"ForceCW", func(g geom.Geometry) geom.Geometry { return g.ForceCW() }}} {
			r1, r2 := op.fn(gl.ToGeom()), op.fn(gpl.ToGeom())
			if r2.CoordinatesType() != geom.CoordinatesType(lct) || r1.CoordinatesType() != geom.CoordinatesType(lct) {
				return diff(op.name+" coordinate type", r1.CoordinatesType(), r2.CoordinatesType())
			}
			if !multisetEq(positions(gm.FromGeom(r1)), positions(gm.FromGeom(r2))) {
				return diff(op.name+" positions", clip(r1.AsText(), 200), clip(r2.AsText(), 200))
			}
		}
	}
	// measure options and order-insensitive equality with the empties in place
	{
		tf := func(p geom.XY) geom.XY { return geom.XY{X: 2*p.X + 1, Y: 3 * p.Y} }
		for _, opts := range [][]geom.AreaOption{{geom.WithTransform(tf)}, {geom.SignedArea}, {geom.SignedArea, geom.WithTransform(tf)}} {
			if a1, a2 := g.Area(opts...), gp.Area(opts...); math.Abs(a1-a2) > 1e-9*(1+math.Abs(a1)) {
				return diff("Area with options", a1, a2)
			}
		}
		for _, e := range c14Empties {
			eg := e.ToGeom()
			if a := eg.Area(geom.WithTransform(tf)) + eg.Area(geom.SignedArea, geom.WithTransform(tf)); a != 0 {
				return diff("Area with options of an empty geometry with members", 0, a)
			}
		}
		if len(plus.Mem) >= 2 {
			rot := plus.Clone()
			rot.Mem = append(append([]gm.G{}, plus.Mem[1:]...), plus.Mem[0])
			if !geom.ExactEquals(gp, rot.ToGeom(), geom.IgnoreOrder) || !geom.ExactEquals(rot.ToGeom(), gp, geom.IgnoreOrder) || !geom.ExactEquals(gp, gp) {
				return diff("ExactEquals(IgnoreOrder) of g+ and g+ with its members rotated", true, false)
			}
		}
	}
	// encoders: the inserted empties leave the text/JSON well formed and every position in place
	{
		b1, e1 := g.MarshalJSON()
		b2, e2 := gp.MarshalJSON()
		if e1 != nil || e2 != nil || !json.Valid(b1) || !json.Valid(b2) {
			return diff("MarshalJSON well-formedness", fmt.Sprintf("%v %s", e1, clip(string(b1), 200)), fmt.Sprintf("%v %s", e2, clip(string(b2), 200)))
		}
		d1, x1 := geom.UnmarshalGeoJSON(b1, geom.NoValidate{})
		d2, x2 := geom.UnmarshalGeoJSON(b2, geom.NoValidate{})
		if x1 != nil || x2 != nil || !multisetEq(positions(gm.FromGeom(d1)), positions(gm.FromGeom(d2))) {
			return diff("GeoJSON positions", fmt.Sprintf("%v %s", x1, clip(string(b1), 200)), fmt.Sprintf("%v %s", x2, clip(string(b2), 200)))
		}
		w1, y1 := geom.UnmarshalWKT(gp.AsText(), geom.NoValidate{})
		w2, y2 := geom.UnmarshalWKB(gp.AsBinary(), geom.NoValidate{})
		if y1 != nil || y2 != nil || gm.Diff(plus, gm.FromGeom(w1)) != "" || gm.Diff(plus, gm.FromGeom(w2)) != "" {
			return diff("WKT/WKB round trip of g+", plus.String(), fmt.Sprint(y1, y2))
		}
	}
	// the envelope as carried by the TWKB bounding-box header
	if t1, e1 := geom.MarshalTWKB(g, 0, geom.TWKBBoundingBoxHeader()); e1 == nil {
		t2, e2 := geom.MarshalTWKB(gp, 0, geom.TWKBBoundingBoxHeader())
		if e2 != nil {
			// the format cannot express an empty Point inside a non-empty MultiPoint: refusing is the contract (C07)
			cx.Count("twkb_refused_g_plus", 1)
			t2 = t1
		}
		b1, _, x1 := geom.UnmarshalTWKBEnvelope(t1)
		b2, _, x2 := geom.UnmarshalTWKBEnvelope(t2)
		if (x1 == nil) != (x2 == nil) || fmt.Sprint(b1) != fmt.Sprint(b2) {
			return diff("TWKB bounding-box header", fmt.Sprint(b1, x1), fmt.Sprint(b2, x2))
		}
	}
	if h1, h2 := g.ConvexHull(), gp.ConvexHull(); !(h1.IsEmpty() && h2.IsEmpty()) && !geom.ExactEquals(h1, h2) {
		return diff("ConvexHull", g.ConvexHull().AsText(), gp.ConvexHull().AsText())
	}
	if pos := gp.PointOnSurface(); pos.IsEmpty() != g.PointOnSurface().IsEmpty() {
		return diff("PointOnSurface emptiness", g.PointOnSurface().AsText(), pos.AsText())
	}
	d1, k1 := geom.Distance(g, third)
	d2, k2 := geom.Distance(gp, third)
	d3, k3 := geom.Distance(third, gp)
	if k1 != k2 || k1 != k3 || math.Abs(d1-d2) > 1e-9*(1+d1) || math.Abs(d1-d3) > 1e-9*(1+d1) {
		return diff("Distance to a third geometry", []interface{}{d1, k1}, []interface{}{d2, k2, d3, k3})
	}
	if geom.Intersects(g, third) != geom.Intersects(gp, third) || geom.Intersects(third, g) != geom.Intersects(third, gp) {
		return diff("Intersects", geom.Intersects(g, third), geom.Intersects(gp, third))
	}
	r1, e1 := geom.Relate(g, third)
	r2, e2 := geom.Relate(gp, third)
	r3, e3 := geom.Relate(third, gp)
	r4, _ := geom.Relate(third, g)
	if e1 != nil || e2 != nil || e3 != nil || r1 != r2 || r3 != r4 {
		return diff("DE-9IM matrix", []string{r1, r4}, []string{r2, r3})
	}
	for _, p := range c02Preds {
		a, _ := p.fn(g, third)
		b, _ := p.fn(gp, third)
		a2, _ := p.fn(third, g)
		b2, _ := p.fn(third, gp)
		if a != b || a2 != b2 {
			return diff("predicate "+p.name, []bool{a, a2}, []bool{b, b2})
		}
	}
	for _, op := range c01Ops[:5] {
		x, ex := op.run(g, third)
		y, ey := op.run(gp, third)
		if (ex == nil) != (ey == nil) {
			return diff(op.name+" error", ex, ey)
		}
		if ex == nil && !geom.ExactEquals(x, y) && !samePointSet(x, y) {
			return diff(op.name+" point set", clip(x.AsText(), 200), clip(y.AsText(), 200))
		}
	}
	u1, eu1 := geom.UnaryUnion(g)
	u2, eu2 := geom.UnaryUnion(gp)
	if (eu1 == nil) != (eu2 == nil) || (eu1 == nil && !geom.ExactEquals(u1, u2) && !samePointSet(u1, u2)) {
		return diff("UnaryUnion", clip(u1.AsText(), 200), clip(u2.AsText(), 200))
	}
	cx.Class("transparency-checked")
	return nil
}

func TestC20(t *testing.T) {
	h.Run(t, h.Prop[C20Case]{
		ID:          "C20",
		Rule:        "cases = (a) a receiver from the empties zoo (zero value of Geometry and of each concrete type; typed empties in 4 coordinate types; Multi*/collections of 1..3 empties of mixed types; nested empty collections) or a real geometry, 1..3 further arguments from the zoo (or a real geometry) and a stream of small integers: every exported value-receiver method found by reflection on Geometry, the concrete type, its Envelope and its Sequence, and 28 free functions, is invoked with synthesised arguments (valid indices only; MustAsX only on the matching type; Densify > 0): no panic; empty receivers give the documented neutral answers (IsEmpty, Validate, 0 measures, empty Centroid/PointOnSurface/Envelope/ConvexHull/Boundary, Distance undefined, Intersects false, Intersection/Difference empty, Union/SymmetricDifference/Difference(x,empty) = self-union of the other operand); geom.Geometry{} and an explicitly constructed empty GeometryCollection give identical results (canonical bit-exact rendering) for every method and function; (b) transparency: a valid geometry g of C01's domain (optionally nested in 1..2 extra GeometryCollections) vs g+ with 1..3 empty members of drawn types inserted at drawn positions and drawn nesting depths - at top level or inside inner, non-empty collections (non-collections are wrapped in a collection): IsEmpty, Area/Length/Centroid, Envelope, ConvexHull, Distance/Intersects/DE-9IM/all 9 predicates against a third geometry in both argument orders, and the point sets of Union/Intersection/Difference(both)/SymmetricDifference/UnaryUnion results are identical. non-trivial = an argument tuple containing a zero value or a collection made only of empties",
		Assumptions: []string{"argument synthesis in internal/apienum only produces arguments satisfying documented preconditions", "point-set equality of set-operation results is decided by the exact kernel"},
		Gen:         c20Gen,
		Check:       c20Check,
	})
}

package props

import (
	"crypto/sha256"
	"encoding/hex"
	"encoding/json"
	"fmt"
	"os"
	"os/exec"
	"reflect"
	"runtime"
	"sort"
	"strings"
	"sync"
	"testing"

	"github.com/peterstace/simplefeatures/geom"
	"github.com/peterstace/simplefeatures/rtree"
	"pgregory.net/rapid"

	"verif/internal/apienum"
	"verif/internal/gen"
	"verif/internal/gm"
	"verif/internal/h"
)

// ---------- C10: geometries are immutable values: operations are pure, deterministic, race-free ----------

type C10Step struct {
	Kind    string `json:"kind"` // method | func
	Recv    int    `json:"recv"` // pool index of the receiver / first argument
	View    int    `json:"view"` // which receiver view (Geometry, concrete, envelope, sequence)
	CallIdx int    `json:"call"`
	Ints    []int  `json:"ints"`
}

type C10Case struct {
	Pool       []gm.G    `json:"pool"`
	Steps      []C10Step `json:"steps"`
	Goroutines int       `json:"goroutines"`
	Procs      int       `json:"procs"`
	CrossProc  bool      `json:"cross_process"`
	Queries    [][4]int  `json:"queries"` // R-tree query boxes
	// Via[i]: how pool[i] comes into being: 0 public constructors, 1 parsed from its WKT, 2 from its WKB,
	// 3 from its GeoJSON, 4 from its TWKB (decoded values may share and over-allocate backing arrays in
	// ways constructor-built ones do not); used only when the decoded value is identical to the model.
	Via []int `json:"via,omitempty"`
	// Invalid: geometries built without validation (C03's generator: rings that touch, cross, overlap, nest);
	// only Validate and the encoders are called on them: the verdict and the error text must repeat.
	Invalid []gm.G `json:"invalid,omitempty"`
}

func c10Gen(t *rapid.T, cx *h.Ctx) C10Case {
	var c C10Case
	p := genPair(t, cx, false, nil)
	sharedEnd := rapid.IntRange(0, 3).Draw(t, "sharedend") == 0
	if sharedEnd {
		// lines that meet at one vertex with their starts or ends in drawn combinations, and a second operand that touches
		// exactly that vertex: the vertex's label then depends on every incident edge being recorded consistently
		vx, vy := float64(rapid.IntRange(-3, 3).Draw(t, "vx")), float64(rapid.IntRange(-3, 3).Draw(t, "vy"))
		dirs := [][2]float64{{1, 0}, {1, 1}, {0, 1}, {-1, 1}, {-1, 0}, {-1, -1}, {0, -1}, {1, -1}}
		first := rapid.IntRange(0, 7).Draw(t, "firstdir")
		a := gm.G{T: rapid.SampledFrom([]string{gm.MultiLineString, gm.GeometryCollection}).Draw(t, "sharedtype")}
		for i, k := 0, rapid.IntRange(2, 4).Draw(t, "spokes"); i < k; i++ {
			d := dirs[(first+i*rapid.IntRange(1, 2).Draw(t, "dirstep"))%8]
			l := float64(rapid.IntRange(1, 3).Draw(t, "spokelen"))
			co := gm.Fs(vx, vy, vx+l*d[0], vy+l*d[1])
			if rapid.Bool().Draw(t, "inwards") {
				co = gm.Fs(vx+l*d[0], vy+l*d[1], vx, vy)
			}
			a.Mem = append(a.Mem, gm.G{T: gm.LineString, Co: co})
		}
		b := []gm.G{{T: gm.Point, Co: gm.Fs(vx, vy)},
			{T: gm.LineString, Co: gm.Fs(vx, vy, vx+5, vy-7)},
			{T: gm.LineString, Co: gm.Fs(vx-5, vy+7, vx+5, vy-7)},
			{T: gm.MultiPoint, Mem: []gm.G{{T: gm.Point, Co: gm.Fs(vx, vy)}, {T: gm.Point, Co: gm.Fs(vx+40, vy)}}},
			{T: gm.Polygon, Rings: [][]gm.F{gm.Fs(vx, vy, vx+5, vy-7, vx+7, vy-5, vx, vy)}}}[rapid.IntRange(0, 4).Draw(t, "toucher")]
		p = PairCase{A: a, B: b, Family: "shared-endpoint"}
	}
	c.Pool = append(c.Pool, p.A, p.B)
	c.Pool = append(c.Pool, genOne(t, cx, true).G)
	c.Pool = append(c.Pool, gen.Structure(t, gen.Opts{CT: -1, ValidShapes: true, AllowZero: true,
		XY: func(t *rapid.T, l string) float64 { return float64(rapid.IntRange(-9, 9).Draw(t, l)) },
		ZM: func(t *rapid.T, l string) float64 { return float64(rapid.IntRange(-9, 9).Draw(t, l)) }}))
	n := rapid.IntRange(5, 40).Draw(t, "nsteps")
	heavy := []int{0, 1, 2, 3, 4, 5, 6} // indices of Union..Relate in apienum.Funcs()
	for i := 0; i < n; i++ {
		s := C10Step{Recv: rapid.IntRange(0, 3).Draw(t, "recv"), View: rapid.IntRange(0, 3).Draw(t, "view"),
			CallIdx: rapid.IntRange(0, 400).Draw(t, "call"), Ints: rapid.SliceOfN(rapid.IntRange(0, 9), 3, 6).Draw(t, "ints")}
		switch rapid.IntRange(0, 3).Draw(t, "kind") {
		case 0, 1:
			s.Kind = "method"
		case 2:
			s.Kind = "func"
		default: // an overlay / relate call on the pair (map-ordered structures with several entries)
			s.Kind = "func"
			s.CallIdx = heavy[rapid.IntRange(0, len(heavy)-1).Draw(t, "heavy")]
			s.Recv = rapid.IntRange(0, 1).Draw(t, "heavyrecv")
		}
		c.Steps = append(c.Steps, s)
	}
	if sharedEnd {
		// every overlay / relate function on that pair, in both argument orders
		for _, h := range heavy {
			for recv := 0; recv < 2; recv++ {
				c.Steps = append(c.Steps, C10Step{Kind: "func", Recv: recv, CallIdx: h, Ints: []int{1, 2, 3}})
			}
		}
	}
	c.Via = rapid.SliceOfN(rapid.IntRange(0, 4), 4, 4).Draw(t, "via")
	for i := rapid.IntRange(1, 3).Draw(t, "ninvalid"); i > 0; i-- {
		c.Invalid = append(c.Invalid, c03Gen(t, cx).G)
	}
	c.Goroutines = rapid.SampledFrom([]int{2, 3, 4, 8, 16}).Draw(t, "goroutines")
	c.Procs = rapid.SampledFrom([]int{2, 4, 16}).Draw(t, "procs")
	c.CrossProc = rapid.IntRange(0, 19).Draw(t, "crossproc") == 0
	for i := rapid.IntRange(1, 5).Draw(t, "nq"); i > 0; i-- {
		x, y := rapid.IntRange(-20, 20).Draw(t, "qx"), rapid.IntRange(-20, 20).Draw(t, "qy")
		c.Queries = append(c.Queries, [4]int{x, y, x + rapid.IntRange(0, 30).Draw(t, "qw"), y + rapid.IntRange(0, 30).Draw(t, "qh")})
	}
	return c
}

type c10Prepared struct {
	pool  []geom.Geometry
	calls []apienum.Call
	args  []func() *apienum.Args
	names []string
}

func c10Prepare(c C10Case) c10Prepared {
	var p c10Prepared
	for i, m := range c.Pool {
		g := m.ToGeom()
		if i < len(c.Via) && !m.Zero {
			var d geom.Geometry
			var err error = fmt.Errorf("constructors")
			switch c.Via[i] {
			case 1:
				d, err = geom.UnmarshalWKT(g.AsText(), geom.NoValidate{})
			case 2:
				d, err = geom.UnmarshalWKB(g.AsBinary(), geom.NoValidate{})
			case 3:
				var b []byte
				if b, err = g.MarshalJSON(); err == nil {
					d, err = geom.UnmarshalGeoJSON(b, geom.NoValidate{})
				}
			case 4:
				var b []byte
				if b, err = geom.MarshalTWKB(g, 7); err == nil {
					d, err = geom.UnmarshalTWKB(b, geom.NoValidate{})
				}
			}
			if err == nil && gm.Diff(m, gm.FromGeom(d)) == "" {
				g = d
			}
		}
		p.pool = append(p.pool, g)
	}
	funcs := apienum.Funcs()
	for _, s := range c.Steps {
		rot := append(append([]geom.Geometry{}, p.pool[s.Recv%len(p.pool):]...), p.pool[:s.Recv%len(p.pool)]...)
		var call apienum.Call
		argPool := rot
		if s.Kind == "method" {
			views := apienum.Receivers(rot[0])
			rv := views[s.View%len(views)]
			ms := apienum.Methods(rv)
			call = ms[s.CallIdx%len(ms)]
			argPool = rot[1:]
		} else {
			call = funcs[s.CallIdx%len(funcs)]
		}
		ints := s.Ints
		ap := argPool
		p.calls = append(p.calls, call)
		p.names = append(p.names, call.Name)
		p.args = append(p.args, func() *apienum.Args { return &apienum.Args{Pool: ap, Ints: append([]int(nil), ints...)} })
	}
	return p
}

// c10Baseline: a fixed set of read-only observations made of every pool member by every goroutine (besides the
// drawn program), so that the accessors everybody uses - text, binary, dumps, summaries, envelope, boundary,
// reversal, coordinate-type forcing - are always exercised concurrently on the shared values.
func c10Baseline(g geom.Geometry) string {
	var sb strings.Builder
	sb.WriteString(g.AsText())
	fmt.Fprintf(&sb, "|%x|", g.AsBinary())
	dc := g.DumpCoordinates()
	fmt.Fprintf(&sb, "%d:%s|", dc.Length(), apienum.Repr(reflect.ValueOf(dc)))
	sb.WriteString(g.Summary() + "|" + g.String() + "|")
	for _, m := range g.Dump() {
		sb.WriteString(m.AsText() + ";")
	}
	sb.WriteString("|" + apienum.Repr(reflect.ValueOf(g.Envelope())))
	sb.WriteString("|" + g.Boundary().AsText())
	sb.WriteString("|" + g.Reverse().AsText())
	sb.WriteString("|" + g.Force2D().AsText())
	sb.WriteString("|" + g.ForceCoordinatesType(geom.DimXYZM).AsText())
	fmt.Fprintf(&sb, "|%v|%v|%v", g.IsEmpty(), g.Dimension(), g.Validate())
	if b, err := g.MarshalJSON(); err == nil {
		sb.Write(b)
	}
	return sb.String()
}

func poolSnapshot(pool []geom.Geometry) []string {
	out := make([]string, len(pool))
	for i, g := range pool {
		out[i] = apienum.Repr(reflect.ValueOf(g)) + "|" + g.AsText()
	}
	return out
}

// scribble overwrites slices returned by a call so that aliasing with the source would show.
func scribble(r apienum.Result) {
	for _, o := range r.Out {
		if o.Kind() != reflect.Slice || o.Len() == 0 {
			continue
		}
		for i := 0; i < o.Len(); i++ {
			e := o.Index(i)
			if e.CanSet() {
				e.Set(reflect.Zero(e.Type()))
			}
		}
	}
}

func c10Transcript(c C10Case) []string {
	p := c10Prepare(c)
	var out []string
	for i, call := range p.calls {
		out = append(out, p.names[i]+" => "+apienum.ReprResults(apienum.Invoke(call, p.args[i]())))
	}
	return out
}

func transcriptHash(tr []string) string {
	s := sha256.Sum256([]byte(strings.Join(tr, "\n")))
	return hex.EncodeToString(s[:8])
}

type c10Tree struct {
	tree  *rtree.RTree
	boxes []rtree.Box
}

func c10BuildTree(pool []geom.Geometry) c10Tree {
	var items []rtree.BulkItem
	var boxes []rtree.Box
	id := 0
	for _, g := range pool {
		for _, d := range g.Dump() {
			if b, ok := d.Envelope().AsBox(); ok {
				items = append(items, rtree.BulkItem{Box: b, RecordID: id})
				boxes = append(boxes, b)
				id++
			}
		}
		seq := g.DumpCoordinates()
		for i := 0; i+1 < seq.Length() && i < 40; i++ {
			a, b := seq.GetXY(i), seq.GetXY(i+1)
			bx := rtree.Box{MinX: min(a.X, b.X), MinY: min(a.Y, b.Y), MaxX: max(a.X, b.X), MaxY: max(a.Y, b.Y)}
			items = append(items, rtree.BulkItem{Box: bx, RecordID: id})
			boxes = append(boxes, bx)
			id++
		}
	}
	return c10Tree{tree: rtree.BulkLoad(items), boxes: boxes}
}

func (t c10Tree) search(q [4]int) string {
	qb := rtree.Box{MinX: float64(q[0]), MinY: float64(q[1]), MaxX: float64(q[2]), MaxY: float64(q[3])}
	var ids []int
	t.tree.RangeSearch(qb, func(id int) error { ids = append(ids, id); return nil })
	sort.Ints(ids)
	var order []int
	t.tree.PrioritySearch(qb, func(id int) error {
		order = append(order, id)
		if len(order) >= 5 {
			return rtree.Stop
		}
		return nil
	})
	nid, found := t.tree.Nearest(qb)
	ext, ok := t.tree.Extent()
	return fmt.Sprintf("range=%v prio5=%d nearest=%d,%v extent=%v,%v count=%d", ids, len(order), nid, found, ext, ok, t.tree.Count())
}

func c10Check(c C10Case, cx *h.Ctx) *h.Failure {
	if os.Getenv("VERIF_C10_TRANSCRIPT") != "" {
		return nil
	}
	old := runtime.GOMAXPROCS(c.Procs)
	defer runtime.GOMAXPROCS(old)
	p := c10Prepare(c)
	snap0 := poolSnapshot(p.pool)
	desc := func() string {
		var ps []string
		for i, m := range c.Pool {
			ps = append(ps, fmt.Sprintf("  pool[%d] = %s", i, clip(m.String(), 300)))
		}
		return "\n" + strings.Join(ps, "\n")
	}
	purity := func(after string) *h.Failure {
		now := poolSnapshot(p.pool)
		for i := range now {
			if now[i] != snap0[i] {
				return h.Failf("pure/argument-changed", "%s changed the observable value of pool[%d]:\nbefore %s\nafter  %s%s", after, i, clip(snap0[i], 300), clip(now[i], 300), desc())
			}
		}
		return nil
	}
	// 1+2: sequential, each call repeated; results bit-identical; arguments unchanged; returned slices scribbled
	reps := 8
	if cx.Thorough {
		reps = 32
	}
	var transcript []string
	type heldResult struct {
		call int
		res  apienum.Result
		repr string
	}
	var held []heldResult
	nontrivial := false
	for i, call := range p.calls {
		var first string
		for r := 0; r < reps; r++ {
			res := apienum.Invoke(call, p.args[i]())
			if res.Skipped != "" {
				first = "skipped"
				break
			}
			s := apienum.ReprResults(res)
			if r == 0 {
				first = s
			} else if s != first {
				return h.Failf("deterministic/in-process:"+p.names[i], "%s(%s) returned different results on repetition %d:\n%s\nvs\n%s%s", p.names[i], res.ArgsRepr, r, clip(first, 400), clip(s, 400), desc())
			}
			if r == 1 {
				held = append(held, heldResult{i, res, s}) // kept alive, unscribbled, and read again at the end
				continue
			}
			scribble(res)
			if r == 0 {
				if f := purity(p.names[i]); f != nil {
					return f
				}
			}
		}
		if f := purity(p.names[i] + " (after overwriting the slices it returned)"); f != nil {
			f.Class = "pure/returned-slice-aliases-argument"
			return f
		}
		transcript = append(transcript, p.names[i]+" => "+first)
		if strings.HasPrefix(p.names[i], "func ") && c.Steps[i].CallIdx <= 6 {
			nontrivial = true
		}
	}
	// results are values: what a call returned still reads the same after all the later calls (no result lives in
	// storage that a later call reuses)
	for _, hr := range held {
		if now := apienum.ReprResults(hr.res); now != hr.repr {
			return h.Failf("pure/result-overwritten", "the result of %s changed while later calls ran:\nreturned %s\nnow      %s%s", p.names[hr.call], clip(hr.repr, 400), clip(now, 400), desc())
		}
	}
	// constructors must not retain the slices handed to them; Sequence methods must not write to the float slice
	if f := c10Constructors(p.pool, desc); f != nil {
		return f
	}
	// decoders must not write to, nor depend on earlier decodes of, the buffers handed to them
	if f := c10Decoders(c, p.pool, desc, cx); f != nil {
		return f
	}
	// 3: another process (different hash seeds) produces the same transcript
	if c.CrossProc {
		if f := c10CrossProcess(c, transcript); f != nil {
			return f
		}
		cx.Class("cross-process-checked")
	}
	// 4: the same calls from several goroutines sharing the operands and a bulk-loaded tree
	tr := c10BuildTree(p.pool)
	var seqSearch []string
	for _, q := range c.Queries {
		seqSearch = append(seqSearch, tr.search(q))
	}
	treeSnap := tr.search([4]int{-100000, -100000, 100000, 100000})
	base := make([]string, len(p.pool))
	for i, g := range p.pool {
		base[i] = c10Baseline(g)
		if again := c10Baseline(g); again != base[i] {
			return h.Failf("deterministic/baseline", "the read-only observations of pool[%d] differ between two sequential passes:\n%s\nvs\n%s%s", i, clip(base[i], 400), clip(again, 400), desc())
		}
	}
	if f := purity("the baseline observations"); f != nil {
		return f
	}
	// geometries that need not be valid: the verdict of Validate, with its error text, is a result like any other
	invObs := func(g geom.Geometry) string {
		return fmt.Sprintf("%v|%s|%x", g.Validate(), g.AsText(), g.AsBinary())
	}
	var invalid []geom.Geometry
	var invBase []string
	for _, m := range c.Invalid {
		g := m.ToGeom()
		invalid = append(invalid, g)
		first := invObs(g)
		for r := 0; r < reps; r++ {
			if again := invObs(g); again != first {
				return h.Failf("deterministic/validate", "Validate / encoders of a geometry built without validation differ on repetition %d:\n%s\nvs\n%s\ng = %s", r, clip(first, 400), clip(again, 400), clip(m.String(), 400))
			}
		}
		invBase = append(invBase, first)
	}
	var wg sync.WaitGroup
	errs := make([]string, c.Goroutines)
	for gi := 0; gi < c.Goroutines; gi++ {
		wg.Add(1)
		go func(gi int) {
			defer wg.Done()
			for i, g := range invalid {
				if s := invObs(g); s != invBase[i] {
					errs[gi] = fmt.Sprintf("goroutine %d: Validate/encoders of invalid[%d]: %s\nsequential: %s", gi, i, clip(s, 400), clip(invBase[i], 400))
					return
				}
			}
			for i, g := range p.pool {
				if s := c10Baseline(g); s != base[i] {
					errs[gi] = fmt.Sprintf("goroutine %d: baseline observations of pool[%d]: %s\nsequential: %s", gi, i, clip(s, 400), clip(base[i], 400))
					return
				}
			}
			for k := range p.calls {
				i := (k + gi*3) % len(p.calls) // different goroutines start at different steps
				res := apienum.Invoke(p.calls[i], p.args[i]())
				if res.Skipped != "" {
					continue
				}
				if s := p.names[i] + " => " + apienum.ReprResults(res); s != transcript[i] {
					errs[gi] = fmt.Sprintf("goroutine %d: %s\nsequential: %s", gi, clip(s, 400), clip(transcript[i], 400))
					return
				}
				if k%3 == 0 {
					runtime.Gosched()
				}
				if len(c.Queries) > 0 {
					qi := (k + gi) % len(c.Queries)
					if s := tr.search(c.Queries[qi]); s != seqSearch[qi] {
						errs[gi] = fmt.Sprintf("goroutine %d: R-tree search %v gave %s, sequential %s", gi, c.Queries[qi], clip(s, 300), clip(seqSearch[qi], 300))
						return
					}
				}
			}
		}(gi)
	}
	wg.Wait()
	for _, e := range errs {
		if e != "" {
			return h.Failf("concurrent/result-differs", "a call issued concurrently returned a different result:\n%s%s", e, desc())
		}
	}
	if f := purity("the concurrent phase"); f != nil {
		return f
	}
	if s := tr.search([4]int{-100000, -100000, 100000, 100000}); s != treeSnap {
		return h.Failf("pure/rtree-changed", "the shared R-tree changed: %s vs %s", clip(treeSnap, 300), clip(s, 300))
	}
	if err := tr.tree.VerifCheck(); err != nil {
		return h.Failf("pure/rtree-structure", "shared R-tree structure broken after concurrent searches: %v", err)
	}
	if nontrivial {
		cx.NonTrivial()
	}
	for _, n := range p.names {
		cx.Distinct("calls_in_programs", n)
	}
	cx.Sample(map[string]interface{}{"pool0": clip(c.Pool[0].String(), 150), "pool1": clip(c.Pool[1].String(), 150), "steps": p.names[:min(8, len(p.names))], "goroutines": c.Goroutines, "gomaxprocs": c.Procs})
	return nil
}

func c10Constructors(pool []geom.Geometry, desc func() string) *h.Failure {
	var pts []geom.Point
	var lss []geom.LineString
	var polys []geom.Polygon
	for _, g := range pool {
		for _, d := range g.Dump() {
			switch d.Type() {
			case geom.TypePoint:
				pts = append(pts, d.MustAsPoint())
			case geom.TypeLineString:
				lss = append(lss, d.MustAsLineString())
			case geom.TypePolygon:
				polys = append(polys, d.MustAsPolygon())
			}
		}
	}
	check := func(name string, build func() (geom.Geometry, func())) *h.Failure {
		g, mutate := build()
		before := apienum.Repr(reflect.ValueOf(g))
		mutate()
		if after := apienum.Repr(reflect.ValueOf(g)); after != before {
			return h.Failf("pure/constructor-retains-slice", "%s: the geometry changed when the slice passed to the constructor was modified afterwards%s", name, desc())
		}
		return nil
	}
	if len(pts) > 0 {
		if f := check("NewMultiPoint", func() (geom.Geometry, func()) {
			s := append([]geom.Point(nil), pts...)
			return geom.NewMultiPoint(s).AsGeometry(), func() {
				for i := range s {
					s[i] = geom.Point{}
				}
			}
		}); f != nil {
			return f
		}
	}
	if len(lss) > 0 {
		if f := check("NewMultiLineString", func() (geom.Geometry, func()) {
			s := append([]geom.LineString(nil), lss...)
			return geom.NewMultiLineString(s).AsGeometry(), func() {
				for i := range s {
					s[i] = geom.LineString{}
				}
			}
		}); f != nil {
			return f
		}
		// rings: use closed line strings if any
		if f := check("NewPolygon", func() (geom.Geometry, func()) {
			s := append([]geom.LineString(nil), lss...)
			return geom.NewPolygon(s).AsGeometry(), func() {
				for i := range s {
					s[i] = geom.LineString{}
				}
			}
		}); f != nil {
			return f
		}
		// Sequence: methods must not write to the caller's float slice
		seq := lss[0].Coordinates()
		n := seq.Length()
		floats := make([]float64, 0, n*seq.CoordinatesType().Dimension())
		for i := 0; i < n; i++ {
			c := seq.Get(i)
			floats = append(floats, c.X, c.Y)
			if seq.CoordinatesType().Is3D() {
				floats = append(floats, c.Z)
			}
			if seq.CoordinatesType().IsMeasured() {
				floats = append(floats, c.M)
			}
		}
		orig := append([]float64(nil), floats...)
		s2 := geom.NewSequence(floats, seq.CoordinatesType())
		_ = s2.Reverse()
		_ = s2.Force2D()
		_ = s2.ForceCoordinatesType(geom.DimXYZM)
		_ = s2.Envelope()
		if n > 1 {
			_ = s2.Slice(0, n-1)
		}
		ls := geom.NewLineString(s2)
		_ = ls.Reverse()
		_ = ls.AsGeometry().ConvexHull()
		_ = ls.Simplify(1)
		_ = ls.TransformXY(func(p geom.XY) geom.XY { return geom.XY{X: -p.X, Y: p.Y + 1} })
		_ = ls.SnapToGrid(0)
		for i := range floats {
			if floats[i] != orig[i] && !(floats[i] != floats[i] && orig[i] != orig[i]) {
				return h.Failf("pure/sequence-floats-written", "a Sequence/LineString method wrote to the float slice handed to NewSequence (index %d: %v -> %v)%s", i, orig[i], floats[i], desc())
			}
		}
	}
	if len(polys) > 0 {
		if f := check("NewMultiPolygon", func() (geom.Geometry, func()) {
			s := append([]geom.Polygon(nil), polys...)
			return geom.NewMultiPolygon(s).AsGeometry(), func() {
				for i := range s {
					s[i] = geom.Polygon{}
				}
			}
		}); f != nil {
			return f
		}
	}
	// constructors and UnionMany must not modify the elements of the caller's slice either
	{
		s := append([]geom.Geometry(nil), pool...)
		// members with different coordinate types make the constructor convert them
		if len(s) > 1 {
			s[0] = s[0].ForceCoordinatesType(geom.DimXYZ)
			s[1] = s[1].ForceCoordinatesType(geom.DimXYM)
		}
		before := make([]string, len(s))
		for i := range s {
			before[i] = apienum.Repr(reflect.ValueOf(s[i]))
		}
		_ = geom.NewGeometryCollection(s)
		_, _ = geom.UnionMany(s)
		for i := range s {
			if now := apienum.Repr(reflect.ValueOf(s[i])); now != before[i] {
				return h.Failf("pure/caller-slice-modified", "NewGeometryCollection/UnionMany changed element %d of the slice passed to it: %s -> %s%s", i, clip(before[i], 200), clip(now, 200), desc())
			}
		}
		ps := append([]geom.Point(nil), pts...)
		if len(ps) > 1 {
			ps[0] = ps[0].ForceCoordinatesType(geom.DimXYZ)
			ps[1] = ps[1].ForceCoordinatesType(geom.DimXYM)
			b0, b1 := apienum.Repr(reflect.ValueOf(ps[0])), apienum.Repr(reflect.ValueOf(ps[1]))
			_ = geom.NewMultiPoint(ps)
			if apienum.Repr(reflect.ValueOf(ps[0])) != b0 || apienum.Repr(reflect.ValueOf(ps[1])) != b1 {
				return h.Failf("pure/caller-slice-modified", "NewMultiPoint changed an element of the slice passed to it%s", desc())
			}
		}
		ls := append([]geom.LineString(nil), lss...)
		if len(ls) > 1 {
			ls[0] = ls[0].ForceCoordinatesType(geom.DimXYZ)
			ls[1] = ls[1].ForceCoordinatesType(geom.DimXYM)
			b0, b1 := apienum.Repr(reflect.ValueOf(ls[0])), apienum.Repr(reflect.ValueOf(ls[1]))
			_ = geom.NewMultiLineString(ls)
			_ = geom.NewPolygon(ls)
			if apienum.Repr(reflect.ValueOf(ls[0])) != b0 || apienum.Repr(reflect.ValueOf(ls[1])) != b1 {
				return h.Failf("pure/caller-slice-modified", "NewMultiLineString/NewPolygon changed an element of the slice passed to it%s", desc())
			}
		}
		pl := append([]geom.Polygon(nil), polys...)
		if len(pl) > 1 {
			pl[0] = pl[0].ForceCoordinatesType(geom.DimXYZ)
			pl[1] = pl[1].ForceCoordinatesType(geom.DimXYM)
			b0, b1 := apienum.Repr(reflect.ValueOf(pl[0])), apienum.Repr(reflect.ValueOf(pl[1]))
			_ = geom.NewMultiPolygon(pl)
			if apienum.Repr(reflect.ValueOf(pl[0])) != b0 || apienum.Repr(reflect.ValueOf(pl[1])) != b1 {
				return h.Failf("pure/caller-slice-modified", "NewMultiPolygon changed an element of the slice passed to it%s", desc())
			}
		}
	}
	if f := check("NewGeometryCollection", func() (geom.Geometry, func()) {
		s := append([]geom.Geometry(nil), pool...)
		return geom.NewGeometryCollection(s).AsGeometry(), func() {
			for i := range s {
				s[i] = geom.Geometry{}
			}
		}
	}); f != nil {
		return f
	}
	return nil
}

// c10CrossProcess runs the program in a fresh process and compares transcripts.
func c10CrossProcess(c C10Case, transcript []string) *h.Failure {
	f, err := os.CreateTemp("", "c10-*.json")
	if err != nil {
		return nil
	}
	defer os.Remove(f.Name())
	b, _ := json.Marshal(c)
	f.Write(b)
	f.Close()
	cmd := exec.Command(os.Args[0], "-test.run", "^TestC10Transcript$", "-test.count", "1")
	cmd.Env = append(os.Environ(), "VERIF_C10_TRANSCRIPT="+f.Name(), "GORACE=")
	out, err := cmd.CombinedOutput()
	want := "TRANSCRIPT " + transcriptHash(transcript)
	if err != nil || !strings.Contains(string(out), "TRANSCRIPT ") {
		// could not run the child: harness problem, not a violation
		panic(h.HarnessBug(fmt.Sprintf("C10 child process failed: %v\n%s", err, clip(string(out), 400))))
	}
	if !strings.Contains(string(out), want) {
		// find the first differing line
		diff := ""
		for _, l := range strings.Split(string(out), "\n") {
			if strings.HasPrefix(l, "LINE ") {
				var idx int
				var hsh string
				fmt.Sscanf(l, "LINE %d %s", &idx, &hsh)
				if idx < len(transcript) && transcriptHash([]string{transcript[idx]}) != hsh {
					diff = transcript[idx]
					break
				}
			}
		}
		return h.Failf("deterministic/cross-process", "another process produced a different transcript for the same program; first differing call here: %s", clip(diff, 500))
	}
	return nil
}

// TestC10Transcript is the child side of the cross-process determinism check.
func TestC10Transcript(t *testing.T) {
	path := os.Getenv("VERIF_C10_TRANSCRIPT")
	if path == "" {
		t.Skip("child mode only")
	}
	b, err := os.ReadFile(path)
	if err != nil {
		t.Fatal(err)
	}
	var c C10Case
	if err := json.Unmarshal(b, &c); err != nil {
		t.Fatal(err)
	}
	tr := c10Transcript(c)
	for i, l := range tr {
		fmt.Printf("LINE %d %s\n", i, transcriptHash([]string{l}))
	}
	fmt.Printf("TRANSCRIPT %s\n", transcriptHash(tr))
}

func TestC10(t *testing.T) {
	h.Run(t, h.Prop[C10Case]{
		ID:          "C10",
		Rule:        "cases = a pool of 4 operands (an ordered pair from C01's generator, a valid geometry from the C14 generator incl. the float family, and a codec-style structure in a drawn coordinate type) each built by the public constructors or obtained from one of the four decoders, 1..3 geometries built without validation for Validate, plus a program of 5..40 API calls drawn through reflection over the whole public read API (every exported value-receiver method of Geometry, the concrete types, Envelope and Sequence, and 28 free functions: codecs, validation, predicates, set operations, hull, distance, simplification, transforms; one call in four is forced to be an overlay/relate call on the pair), a goroutine count 2..16, GOMAXPROCS in {2,4,16} and R-tree query boxes. Checks: (1) purity - the canonical rendering (WKB + WKT) of every pool operand is unchanged after every call, after the harness overwrites every slice a call returned, after the concurrent phase; constructors do not retain the slices passed to them; Sequence/LineString methods never write to the float slice handed to NewSequence; the shared bulk-loaded R-tree (Count, Extent, full listing, VerifCheck) is unchanged by searches; (2) determinism in process - every call is repeated 8x (32x thorough) and must return bit-identical results (WKB, matrix, error text, float bits); (3) 1 case in 20: a fresh process (other hash seeds) must produce the same transcript; (4) the program is issued from all goroutines at once on the shared operands and tree, in a binary built with -race and GORACE=halt_on_error=1: results must equal the sequential transcript and the race detector must stay silent. non-trivial = the program contains an overlay/relate call on the pair",
		Assumptions: []string{"schedules are sampled, not enumerated: the Go scheduler cannot be controlled from a property library; the race detector flags unsynchronised conflicting accesses that occur in a run regardless of their exact timing", "argument synthesis only produces arguments meeting documented preconditions"},
		Gen:         c10Gen,
		Check:       c10Check,
	})
}

var _ = rapid.Bool

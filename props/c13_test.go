package props

import (
	"fmt"
	"math"
	"math/big"
	"sort"
	"testing"

	"github.com/peterstace/simplefeatures/geom"
	"pgregory.net/rapid"

	"verif/internal/exact"
	"verif/internal/gm"
	"verif/internal/h"
)

// ---------- C13: ConvexHull is the minimal convex cover; rotated bounding rectangles enclose it ----------

type C13Case struct {
	G      gm.G   `json:"g"`
	Perm   gm.G   `json:"perm"` // same control points in another order / multiplicity / geometry type
	Family string `json:"family"`
}

func c13Wrap(t *rapid.T, pts [][2]float64, label string) gm.G {
	pos := func(p [2]float64) []gm.F { return gm.Fs(p[0], p[1]) }
	flat := func(ps [][2]float64) []gm.F {
		var fs []gm.F
		for _, p := range ps {
			fs = append(fs, pos(p)...)
		}
		return fs
	}
	kind := rapid.IntRange(0, 6).Draw(t, label+"wrap")
	if len(pts) == 1 && kind != 5 {
		kind = 0
	}
	switch kind {
	case 0, 1:
		g := gm.G{T: gm.MultiPoint}
		for _, p := range pts {
			g.Mem = append(g.Mem, gm.G{T: gm.Point, Co: pos(p)})
		}
		if len(pts) == 1 && rapid.Bool().Draw(t, label+"single") {
			return gm.G{T: gm.Point, Co: pos(pts[0])}
		}
		return g
	case 2:
		return gm.G{T: gm.LineString, Co: flat(pts)}
	case 3:
		g := gm.G{T: gm.MultiLineString}
		for i := 0; i < len(pts); i += 3 {
			j := i + 3
			if j > len(pts) {
				j = len(pts)
			}
			chunk := pts[i:j]
			if len(chunk) == 1 {
				chunk = append(chunk, chunk[0])
			}
			g.Mem = append(g.Mem, gm.G{T: gm.LineString, Co: flat(chunk)})
		}
		return g
	case 4:
		ring := append(append([][2]float64{}, pts...), pts[0])
		for len(ring) < 4 {
			ring = append(ring, pts[0])
		}
		return gm.G{T: gm.Polygon, Rings: [][]gm.F{flat(ring)}}
	case 5:
		g := gm.G{T: gm.GeometryCollection}
		h := len(pts) / 2
		if h > 0 {
			g.Mem = append(g.Mem, gm.G{T: gm.LineString, Co: flat(append(append([][2]float64{}, pts[:h]...), pts[0]))})
		}
		mp := gm.G{T: gm.MultiPoint}
		for _, p := range pts[h:] {
			mp.Mem = append(mp.Mem, gm.G{T: gm.Point, Co: pos(p)})
		}
		g.Mem = append(g.Mem, mp, gm.G{T: gm.Polygon})
		return g
	default:
		ring := append(append([][2]float64{}, pts...), pts[0])
		for len(ring) < 4 {
			ring = append(ring, pts[0])
		}
		return gm.G{T: gm.MultiPolygon, Mem: []gm.G{{T: gm.Polygon, Rings: [][]gm.F{flat(ring)}}, {T: gm.Polygon}}}
	}
}

func c13Gen(t *rapid.T, cx *h.Ctx) C13Case {
	fam := rapid.IntRange(0, 9).Draw(t, "family")
	if fam == 0 {
		one := genOne(t, cx, false)
		return C13Case{G: one.G, Perm: gm.FromGeom(one.G.ToGeom().Reverse()), Family: "valid-shape-" + one.Family}
	}
	if fam == 1 {
		// general-position float points (checked exactly in the property; near-degenerate draws are skipped)
		n := rapid.IntRange(1, 30).Draw(t, "fn")
		s := math.Pow(10, float64(rapid.IntRange(-3, 6).Draw(t, "fscale")))
		pts := make([][2]float64, n)
		for i := range pts {
			// millionths plus a sub-grid fraction: generic floats that are rarely near-degenerate
			pts[i] = [2]float64{(float64(rapid.IntRange(-1000000, 1000000).Draw(t, "fx"))/1000 + rapid.Float64Range(0, 1e-3).Draw(t, "fxf")) * s,
				(float64(rapid.IntRange(-1000000, 1000000).Draw(t, "fy"))/1000 + rapid.Float64Range(0, 1e-3).Draw(t, "fyf")) * s}
		}
		perm := append([][2]float64{}, pts...)
		for i := len(perm) - 1; i > 0; i-- {
			j := rapid.IntRange(0, i).Draw(t, "fshuffle")
			perm[i], perm[j] = perm[j], perm[i]
		}
		return C13Case{G: c13Wrap(t, pts, "fa"), Perm: c13Wrap(t, perm, "fb"), Family: "float-points"}
	}
	side := rapid.SampledFrom([]int{1, 2, 3, 4, 6, 10, 40, 1024}).Draw(t, "side")
	n := rapid.IntRange(1, 12).Draw(t, "n")
	if rapid.IntRange(0, 4).Draw(t, "many") == 0 {
		n = rapid.IntRange(13, 200).Draw(t, "nmany")
	}
	pts := make([][2]float64, 0, n)
	mode := rapid.IntRange(0, 5).Draw(t, "mode")
	for i := 0; i < n; i++ {
		var x, y int
		switch mode {
		case 0: // all collinear
			k := rapid.IntRange(-side, side).Draw(t, "k")
			x, y = k, 2*k+1
			if side > 400 {
				x, y = k/3, 2*(k/3)+1
			}
		case 1: // on the border of a square (collinear runs on the hull)
			k := rapid.IntRange(0, side).Draw(t, "k")
			switch rapid.IntRange(0, 3).Draw(t, "edge") {
			case 0:
				x, y = k, 0
			case 1:
				x, y = side, k
			case 2:
				x, y = k, side
			default:
				x, y = 0, k
			}
		default:
			x, y = rapid.IntRange(-side, side).Draw(t, "x"), rapid.IntRange(-side, side).Draw(t, "y")
		}
		pts = append(pts, [2]float64{float64(x), float64(y)})
		if rapid.IntRange(0, 5).Draw(t, "dup") == 0 {
			pts = append(pts, pts[rapid.IntRange(0, len(pts)-1).Draw(t, "dupidx")])
		}
	}
	c := C13Case{Family: "points"}
	c.G = c13Wrap(t, pts, "a")
	// permuted / duplicated version
	perm := append([][2]float64{}, pts...)
	for i := len(perm) - 1; i > 0; i-- {
		j := rapid.IntRange(0, i).Draw(t, "shuffle")
		perm[i], perm[j] = perm[j], perm[i]
	}
	for i := rapid.IntRange(0, 3).Draw(t, "extradup"); i > 0; i-- {
		perm = append(perm, perm[rapid.IntRange(0, len(perm)-1).Draw(t, "extradupidx")])
	}
	c.Perm = c13Wrap(t, perm, "b")
	return c
}

// allControlPts lists every control point of the model (with multiplicity).
func allControlPts(g gm.G) []exact.Pt {
	var out []exact.Pt
	g.Norm().MapPositions(func(p []gm.F, ct int) []gm.F {
		out = append(out, exact.P(float64(p[0]), float64(p[1])))
		return p
	})
	return out
}

func distinctOf(all []exact.Pt) []exact.Pt {
	seen := map[string]bool{}
	var out []exact.Pt
	for _, v := range all {
		if !seen[v.Key()] {
			seen[v.Key()] = true
			out = append(out, v)
		}
	}
	return out
}

func hullRing(hull gm.G) []exact.Pt {
	return allControlPts(gm.G{T: gm.LineString, Co: hull.Rings[0]})
}

// c13HullCheck verifies the characterisation of the convex hull in exact arithmetic.
func c13HullCheck(pts []exact.Pt, hull gm.G, exactMode bool, tau float64) *h.Failure {
	if len(pts) == 0 {
		if !hull.IsEmpty() {
			return h.Failf("hull/empty", "ConvexHull of an empty geometry is %s", hull)
		}
		return nil
	}
	if hull.CT != 0 {
		return h.Failf("hull/ctype", "ConvexHull has coordinate type %s", gm.CTName(hull.CT))
	}
	in := map[string]bool{}
	for _, p := range pts {
		in[p.Key()] = true
	}
	// affine rank
	rank := 0
	if len(pts) > 1 {
		rank = 1
		for _, p := range pts[2:] {
			if exact.Orient(pts[0], pts[1], p) != 0 {
				rank = 2
				break
			}
		}
	}
	if !exactMode && rank == 2 {
		// general-position floats: a nearly degenerate set may legitimately be classified as lower rank
	}
	hv := allControlPts(hull)
	for _, v := range hv {
		if !in[v.Key()] {
			return h.Failf("hull/vertex-not-a-control-point", "hull vertex %s is not a control point of the input\nhull = %s", v, hull)
		}
	}
	switch rank {
	case 0:
		if hull.T != gm.Point || len(hull.Co) != 2 || !exact.P(float64(hull.Co[0]), float64(hull.Co[1])).Eq(pts[0]) {
			return h.Failf("hull/single-point", "hull of a single distinct point %s is %s", pts[0], hull)
		}
	case 1:
		if hull.T != gm.LineString || len(hull.Co) != 4 {
			return h.Failf("hull/collinear-type", "hull of collinear points is %s, want a two-point LineString", hull)
		}
		lo, hi := pts[0], pts[0]
		for _, p := range pts {
			if p.Cmp(lo) < 0 {
				lo = p
			}
			if p.Cmp(hi) > 0 {
				hi = p
			}
		}
		a, b := exact.P(float64(hull.Co[0]), float64(hull.Co[1])), exact.P(float64(hull.Co[2]), float64(hull.Co[3]))
		if !((a.Eq(lo) && b.Eq(hi)) || (a.Eq(hi) && b.Eq(lo))) {
			return h.Failf("hull/collinear-extremes", "hull of collinear points is %s, the extreme points are %s and %s", hull, lo, hi)
		}
	default:
		if hull.T != gm.Polygon || len(hull.Rings) != 1 {
			return h.Failf("hull/type", "hull of non-collinear points is %s, want a Polygon with one ring", clip(hull.String(), 300))
		}
		ring := hullRing(hull)
		n := len(ring) - 1
		if n < 3 || !ring[0].Eq(ring[n]) {
			return h.Failf("hull/ring", "hull ring is not a closed ring of >= 3 vertices: %s", clip(hull.String(), 300))
		}
		for i := 0; i < n; i++ {
			a, b, c := ring[i], ring[(i+1)%n], ring[(i+2)%n]
			o := exact.Orient(a, b, c)
			if exactMode && o <= 0 {
				return h.Failf("hull/not-strictly-convex", "hull vertices %s %s %s do not make a strict left turn (collinear or clockwise)\nhull = %s", a, b, c, clip(hull.String(), 300))
			}
			if !exactMode && o < 0 {
				// tolerate only within rounding
				if d := math.Sqrt(exact.RatFloat(exact.PointSegDist2(b, a, c))); d > tau {
					return h.Failf("hull/not-convex", "hull turns right at %s by more than rounding\nhull = %s", b, clip(hull.String(), 300))
				}
			}
		}
		for _, p := range pts {
			for i := 0; i < n; i++ {
				if exact.Orient(ring[i], ring[i+1], p) < 0 {
					if exactMode {
						return h.Failf("hull/does-not-cover", "control point %s is outside the hull (right of edge %s-%s)\nhull = %s", p, ring[i], ring[i+1], clip(hull.String(), 300))
					}
					if d := math.Sqrt(exact.RatFloat(exact.PointSegDist2(p, ring[i], ring[i+1]))); d > tau {
						// only a violation if it is really outside by more than rounding
						cr := exact.RatFloat(exact.Cross(ring[i], ring[i+1], p))
						ln := math.Sqrt(exact.RatFloat(exact.Dist2(ring[i], ring[i+1])))
						if -cr/ln > tau {
							return h.Failf("hull/does-not-cover", "control point %s is %g outside the hull\nhull = %s", p, -cr/ln, clip(hull.String(), 300))
						}
					}
				}
			}
		}
	}
	return nil
}

// exact minimum over edge-aligned enclosing rectangles
func c13MinRects(ring []exact.Pt) (minArea, minWidthSq *big.Rat) {
	n := len(ring) - 1
	for i := 0; i < n; i++ {
		a, b := ring[i], ring[i+1]
		d2 := exact.Dist2(a, b)
		var minD, maxD, maxH *big.Rat
		for _, v := range ring[:n] {
			dd := exact.Dot(a, b, v)
			hh := exact.Cross(a, b, v)
			if minD == nil || dd.Cmp(minD) < 0 {
				minD = dd
			}
			if maxD == nil || dd.Cmp(maxD) > 0 {
				maxD = dd
			}
			if maxH == nil || hh.Cmp(maxH) > 0 {
				maxH = hh
			}
		}
		ext := new(big.Rat).Sub(maxD, minD)
		area := new(big.Rat).Mul(ext, maxH)
		area.Quo(area, d2)
		w1 := new(big.Rat).Mul(ext, ext)
		w1.Quo(w1, d2)
		w2 := new(big.Rat).Mul(maxH, maxH)
		w2.Quo(w2, d2)
		if w2.Cmp(w1) < 0 {
			w1 = w2
		}
		if minArea == nil || area.Cmp(minArea) < 0 {
			minArea = area
		}
		if minWidthSq == nil || w1.Cmp(minWidthSq) < 0 {
			minWidthSq = w1
		}
	}
	return
}

func c13RectCheck(name string, rect gm.G, hull gm.G, wantArea, wantWidthSq *big.Rat, useWidth bool, mag float64) *h.Failure {
	tau := 1e-9 * mag
	if hull.T != gm.Polygon {
		if d := gm.Diff(hull, rect); d != "" {
			return h.Failf("rect/degenerate", "%s of a degenerate hull %s is %s", name, hull, rect)
		}
		return nil
	}
	if rect.T != gm.Polygon || len(rect.Rings) != 1 || len(rect.Rings[0]) != 10 {
		return h.Failf("rect/shape", "%s is not a 5-position polygon: %s", name, rect)
	}
	r := rect.Rings[0]
	px := func(i int) (float64, float64) { return float64(r[2*i]), float64(r[2*i+1]) }
	if r[0] != r[8] || r[1] != r[9] {
		return h.Failf("rect/not-closed", "%s ring is not closed: %s", name, rect)
	}
	var sx, sy [4]float64
	for i := 0; i < 4; i++ {
		ax, ay := px(i)
		bx, by := px(i + 1)
		sx[i], sy[i] = bx-ax, by-ay
	}
	for i := 0; i < 4; i++ {
		j := (i + 1) % 4
		li, lj := math.Hypot(sx[i], sy[i]), math.Hypot(sx[j], sy[j])
		// the component of one side along the other must vanish to within tau (absolute)
		if lm := math.Max(li, lj); lm > 0 && math.Abs(sx[i]*sx[j]+sy[i]*sy[j])/lm > tau {
			return h.Failf("rect/not-orthogonal", "%s: adjacent sides %d and %d are not orthogonal: %s", name, i, j, rect)
		}
	}
	if math.Abs(sx[0]+sx[2]) > tau || math.Abs(sy[0]+sy[2]) > tau {
		return h.Failf("rect/not-parallelogram", "%s: opposite sides differ: %s", name, rect)
	}
	// orientation sign
	area2 := sx[0]*sy[1] - sy[0]*sx[1]
	sgn := 1.0
	if area2 < 0 {
		sgn = -1
	}
	ring := hullRing(hull)
	// covers the hull
	for _, v := range ring {
		vx, vy := v.Floats()
		for i := 0; i < 4; i++ {
			ax, ay := px(i)
			l := math.Hypot(sx[i], sy[i])
			if l == 0 {
				continue
			}
			dist := sgn * (sx[i]*(vy-ay) - sy[i]*(vx-ax)) / l
			if dist < -tau {
				return h.Failf("rect/does-not-cover", "%s: hull vertex %s is %g outside side %d of %s", name, v, -dist, i, rect)
			}
		}
	}
	// one side collinear with a hull edge
	collinear := false
	for i := 0; i < 4 && !collinear; i++ {
		ax, ay := px(i)
		l := math.Hypot(sx[i], sy[i])
		if l == 0 {
			continue
		}
		for k := 0; k+1 < len(ring); k++ {
			ux, uy := ring[k].Floats()
			wx, wy := ring[k+1].Floats()
			d1 := math.Abs(sx[i]*(uy-ay)-sy[i]*(ux-ax)) / l
			d2 := math.Abs(sx[i]*(wy-ay)-sy[i]*(wx-ax)) / l
			if d1 <= tau && d2 <= tau {
				collinear = true
				break
			}
		}
	}
	if !collinear {
		return h.Failf("rect/no-side-on-hull-edge", "%s: no side of %s is collinear with a hull edge of %s", name, rect, clip(hull.String(), 300))
	}
	gotArea := math.Abs(area2)
	l0, l1 := math.Hypot(sx[0], sy[0]), math.Hypot(sx[1], sy[1])
	gotWidthSq := math.Min(l0*l0, l1*l1)
	if !useWidth {
		want := exact.RatFloat(wantArea)
		if gotArea > want*(1+1e-9)+tau*tau || gotArea < want*(1-1e-9)-tau*tau {
			return h.Failf("rect/area-not-minimal", "%s has area %.15g, the minimum over edge-aligned enclosing rectangles is %.15g\nrect = %s\nhull = %s", name, gotArea, want, rect, clip(hull.String(), 300))
		}
	} else {
		want := exact.RatFloat(wantWidthSq)
		if gotWidthSq > want*(1+1e-9)+tau*tau || gotWidthSq < want*(1-1e-9)-tau*tau {
			return h.Failf("rect/width-not-minimal", "%s has squared width %.15g, the minimum over edge-aligned enclosing rectangles is %.15g\nrect = %s\nhull = %s", name, gotWidthSq, want, rect, clip(hull.String(), 300))
		}
	}
	return nil
}

func hullVertexSet(hull gm.G) string {
	var keys []string
	for _, v := range distinctOf(allControlPts(hull)) {
		keys = append(keys, v.Key())
	}
	sort.Strings(keys)
	return hull.T + fmt.Sprint(keys)
}

func c13Check(c C13Case, cx *h.Ctx) *h.Failure {
	model := c.G.Norm()
	cx.Class("type=" + model.T)
	cx.Class("family=" + c.Family)
	g := model.ToGeom()
	all := allControlPts(model)
	pts := distinctOf(all)
	exactMode := c.Family != "float-points"
	if !exactMode && !c13GeneralPosition(pts) {
		cx.Skip("float_points_not_in_general_position")
		return nil
	}
	mag := magnitudeOf(model)
	tau := 1e-9 * mag
	var hullG geom.Geometry
	h.Lib("ConvexHull", func() { hullG = g.ConvexHull() })
	hull := gm.FromGeom(hullG)
	desc := func() string { return "\ng = " + clip(model.String(), 500) }
	if f := c13HullCheck(pts, hull, exactMode, tau); f != nil {
		f.Msg += desc()
		return f
	}
	if len(pts) > 0 && hull.T == gm.Polygon && exactMode {
		if err := hullG.Validate(); err != nil {
			return h.Failf("hull/invalid", "ConvexHull is not valid: %v%s", err, desc())
		}
	}
	// the method of the concrete type gives the same hull as the method of Geometry
	{
		var ch geom.Geometry
		switch g.Type() {
		case geom.TypePoint:
			ch = g.MustAsPoint().ConvexHull()
		case geom.TypeLineString:
			ch = g.MustAsLineString().ConvexHull()
		case geom.TypePolygon:
			ch = g.MustAsPolygon().ConvexHull()
		case geom.TypeMultiPoint:
			ch = g.MustAsMultiPoint().ConvexHull()
		case geom.TypeMultiLineString:
			ch = g.MustAsMultiLineString().ConvexHull()
		case geom.TypeMultiPolygon:
			ch = g.MustAsMultiPolygon().ConvexHull()
		default:
			ch = g.MustAsGeometryCollection().ConvexHull()
		}
		if d := gm.Diff(hull, gm.FromGeom(ch)); d != "" {
			return h.Failf("hull/concrete-type-differs", "%s.ConvexHull() differs from Geometry.ConvexHull(): %s%s", g.Type(), d, desc())
		}
	}
	// idempotent, bit-identical
	if d := gm.Diff(hull, gm.FromGeom(hullG.ConvexHull())); d != "" {
		return h.Failf("hull/not-idempotent", "ConvexHull(ConvexHull(g)) differs: %s%s", d, desc())
	}
	// independent of order / multiplicity / wrapping type
	ph := gm.FromGeom(c.Perm.ToGeom().ConvexHull())
	if exactMode && hullVertexSet(hull) != hullVertexSet(ph) {
		return h.Failf("hull/order-dependent", "hull of the same control points in another order/multiplicity differs:\n%s\nvs\n%s%s\nperm = %s", clip(hull.String(), 300), clip(ph.String(), 300), desc(), clip(c.Perm.String(), 500))
	}
	// rotated rectangles
	var minA, minW *big.Rat
	if hull.T == gm.Polygon && len(hull.Rings) > 0 {
		minA, minW = c13MinRects(hullRing(hull))
	}
	var ra, rw gm.G
	h.Lib("RotatedMinimumAreaBoundingRectangle", func() { ra = gm.FromGeom(geom.RotatedMinimumAreaBoundingRectangle(g)) })
	h.Lib("RotatedMinimumWidthBoundingRectangle", func() { rw = gm.FromGeom(geom.RotatedMinimumWidthBoundingRectangle(g)) })
	if len(pts) == 0 {
		if !ra.IsEmpty() || !rw.IsEmpty() {
			return h.Failf("rect/empty", "rotated rectangles of an empty geometry: %s / %s", ra, rw)
		}
	} else {
		if f := c13RectCheck("RotatedMinimumAreaBoundingRectangle", ra, hull, minA, minW, false, mag); f != nil {
			f.Msg += desc()
			return f
		}
		if f := c13RectCheck("RotatedMinimumWidthBoundingRectangle", rw, hull, minA, minW, true, mag); f != nil {
			f.Msg += desc()
			return f
		}
	}
	// hull and rectangles are functions of the XY control points only: the same geometry carrying Z, M or ZM
	// payload (every position its own values) gives bit-identical XY results
	if model.CT == 0 {
		for lct := 1; lct <= 3; lct++ {
			lg := c16TagWith(forceCT(model, lct), lct%2 == 1).ToGeom()
			var lh geom.Geometry
			h.Lib("ConvexHull", func() { lh = lg.ConvexHull() })
			if d := gm.Diff(hull, gm.FromGeom(lh)); d != "" {
				return h.Failf("hull/zm-dependent", "ConvexHull of the same XY geometry with %s payload differs: %s%s", gm.CTName(lct), d, desc())
			}
			var lra gm.G
			h.Lib("RotatedMinimumAreaBoundingRectangle", func() { lra = gm.FromGeom(geom.RotatedMinimumAreaBoundingRectangle(lg)) })
			if d := gm.Diff(ra, lra); d != "" {
				return h.Failf("rect/zm-dependent", "RotatedMinimumAreaBoundingRectangle of the same XY geometry with %s payload differs: %s%s", gm.CTName(lct), d, desc())
			}
		}
	}
	// results are values: the hull returned first still reads the same after all the later calls, including
	// hulls of other geometries with fewer, as many and more vertices
	for _, k := range []int{3, 4, 5, 8, 13} {
		other := gm.G{T: gm.MultiPoint}
		for i := 0; i < k; i++ {
			other.Mem = append(other.Mem, gm.G{T: gm.Point, Co: gm.Fs(5000+float64(i*i), 7000+float64(i*(k-i)+i))})
		}
		_ = other.ToGeom().ConvexHull()
	}
	if d := gm.Diff(hull, gm.FromGeom(hullG)); d != "" {
		return h.Failf("hull/result-overwritten", "the geometry returned by the first ConvexHull call changed while later hulls were computed: %s%s", d, desc())
	}
	// non-trivial: non-collinear and a collinear triple / duplicate among the control points on the hull boundary
	if hull.T == gm.Polygon && len(hull.Rings) > 0 {
		ring := hullRing(hull)
		onBoundary := 0
		for _, p := range pts {
			for i := 0; i+1 < len(ring); i++ {
				if exact.OnSegment(p, ring[i], ring[i+1]) {
					onBoundary++
					break
				}
			}
		}
		if onBoundary > len(ring)-1 || len(all) > len(pts) {
			cx.NonTrivial()
		}
	}
	cx.Sample(map[string]interface{}{"g": clip(model.String(), 250), "hull": clip(hull.String(), 200), "min_area_rect": clip(ra.String(), 200)})
	return nil
}

func c13Enumerate(cx *h.Ctx, yield func(C13Case)) []string {
	var grid [][2]float64
	for x := 0; x < 4; x++ {
		for y := 0; y < 4; y++ {
			grid = append(grid, [2]float64{float64(x), float64(y)})
		}
	}
	var rec func(start int, cur [][2]float64)
	rec = func(start int, cur [][2]float64) {
		if len(cur) > 0 {
			g := gm.G{T: gm.MultiPoint}
			for _, p := range cur {
				g.Mem = append(g.Mem, gm.G{T: gm.Point, Co: gm.Fs(p[0], p[1])})
			}
			perm := gm.G{T: gm.MultiPoint}
			for i := len(cur) - 1; i >= 0; i-- {
				perm.Mem = append(perm.Mem, gm.G{T: gm.Point, Co: gm.Fs(cur[i][0], cur[i][1])})
			}
			yield(C13Case{G: g, Perm: perm, Family: "enumerated"})
		}
		if len(cur) == 6 {
			return
		}
		for i := start; i < len(grid); i++ {
			rec(i+1, append(cur, grid[i]))
		}
	}
	rec(0, nil)
	// wide inputs: k points in convex position on a parabola (every one is a hull vertex), with the chord
	// midpoints of neighbours thrown in (collinear with nothing, strictly inside), as points and as the
	// vertices of k two-point lines; the second spelling lists them in another order
	for _, k := range []int{127, 128, 129, 255, 256, 257, 1000} {
		var pts [][2]float64
		for i := 0; i < k; i++ {
			x := float64(i - k/2)
			pts = append(pts, [2]float64{2 * x, 2 * x * x})
		}
		for i := 0; i+1 < k; i += 3 {
			pts = append(pts, [2]float64{(pts[i][0] + pts[i+1][0]) / 2, (pts[i][1]+pts[i+1][1])/2 + 1})
		}
		mp, perm := gm.G{T: gm.MultiPoint}, gm.G{T: gm.MultiPoint}
		for i := range pts {
			j := (i*7 + 3) % len(pts)
			if len(pts)%7 == 0 {
				j = len(pts) - 1 - i
			}
			mp.Mem = append(mp.Mem, gm.G{T: gm.Point, Co: gm.Fs(pts[i][0], pts[i][1])})
			perm.Mem = append(perm.Mem, gm.G{T: gm.Point, Co: gm.Fs(pts[j][0], pts[j][1])})
		}
		yield(C13Case{G: mp, Perm: perm, Family: "enumerated"})
		ml, mlp := gm.G{T: gm.MultiLineString}, gm.G{T: gm.MultiLineString}
		for i := 0; i+1 < len(pts); i += 2 {
			l := gm.G{T: gm.LineString, Co: gm.Fs(pts[i][0], pts[i][1], pts[i+1][0], pts[i+1][1])}
			ml.Mem = append(ml.Mem, l)
			mlp.Mem = append([]gm.G{{T: gm.LineString, Co: gm.Fs(pts[i+1][0], pts[i+1][1], pts[i][0], pts[i][1])}}, mlp.Mem...)
		}
		yield(C13Case{G: ml, Perm: mlp, Family: "enumerated"})
	}
	return []string{"every subset of 1..6 points of the 4x4 integer grid (14892 sets), as a MultiPoint and in reverse order",
		"127..257 and 1000 points in convex position on a parabola plus interior points, as a MultiPoint and as two-point lines, in two orders"}
}

func TestC13(t *testing.T) {
	h.Run(t, h.Prop[C13Case]{
		ID:          "C13",
		Rule:        "cases = a multiset of 1..200 integer points on grids of side 1..1024 (all collinear, on the border of a square, or scattered; with repeated points) wrapped as MultiPoint/Point, LineString, MultiLineString, Polygon, MultiPolygon or GeometryCollection (built without validation), paired with the same points shuffled, with extra repetitions and another wrapping; 1 in 10 a valid shape from the C14 generator (incl. the float family); plus an exhaustive sub-space. Oracle (exact rational orientation): empty -> empty; Point / two-point LineString of the extremes / Polygon by affine rank; ring closed, every consecutive triple a strict left turn (so counter-clockwise, no three collinear), every vertex a control point, every control point on or left of every edge - together these characterise the hull; hull(hull) bit-identical; same vertex set for the permuted input. Rectangles: exact minimum area / squared width over all hull-edge-aligned enclosing rectangles; the returned polygon must be a rectangle (orthogonal sides), cover every hull vertex within tau, have a side collinear with a hull edge within tau and match the minimum to 1e-9; degenerate hulls are returned as is. non-trivial = a polygonal hull with control points on its boundary beyond its vertices, or repeated control points",
		Assumptions: []string{"exact kernel primitives (internal/exact/rat.go)", "float family: strict convexity and exact covering are relaxed to the stated tolerance"},
		Gen:         c13Gen,
		Check:       c13Check,
		Enumerate:   c13Enumerate,
	})
}

// c13GeneralPosition: no two distinct points closer than 1e-6 x extent and no
// three points within a relative 1e-6 of collinear (exact arithmetic).
func c13GeneralPosition(pts []exact.Pt) bool {
	if len(pts) > 40 {
		return false
	}
	thr := big.NewRat(1, 1000000000000) // (1e-6)^2
	// extent^2 = largest pairwise squared distance
	ext2 := new(big.Rat)
	for i := 0; i < len(pts); i++ {
		for j := i + 1; j < len(pts); j++ {
			if d := exact.Dist2(pts[i], pts[j]); d.Cmp(ext2) > 0 {
				ext2 = d
			}
		}
	}
	minPair := new(big.Rat).Mul(ext2, thr)
	for i := 0; i < len(pts); i++ {
		for j := i + 1; j < len(pts); j++ {
			if exact.Dist2(pts[i], pts[j]).Cmp(minPair) < 0 {
				return false
			}
		}
	}
	for i := 0; i < len(pts); i++ {
		for j := i + 1; j < len(pts); j++ {
			dij := exact.Dist2(pts[i], pts[j])
			for k := j + 1; k < len(pts); k++ {
				cr := exact.Cross(pts[i], pts[j], pts[k])
				lhs := new(big.Rat).Mul(cr, cr)
				rhs := new(big.Rat).Mul(dij, exact.Dist2(pts[i], pts[k]))
				rhs.Mul(rhs, thr)
				if lhs.Cmp(rhs) < 0 {
					return false
				}
			}
		}
	}
	return true
}

package props

import (
	"errors"
	"fmt"
	"math"
	"math/big"
	"sort"
	"testing"
	"time"

	"github.com/peterstace/simplefeatures/rtree"
	"pgregory.net/rapid"

	"verif/internal/h"
)

// ---------- C11: R-tree searches are exact, ordered, and stop when told to ----------

type C11Query struct {
	Kind     string     `json:"kind"`      // range | priority | nearest
	Box      [4]float64 `json:"box"`       // minx miny maxx maxy
	StopAt   int        `json:"stop_at"`   // callback invocation index (0-based) at which a non-nil value is returned; -1 never
	StopKind int        `json:"stop_kind"` // 1 Stop, 2 wrapped Stop, 3 custom error, 4 doubly wrapped Stop, 5 errors.Join(custom, Stop), 6 two %w verbs (custom, Stop), 7 Join nested in a %w wrap
}

type C11Case struct {
	Boxes   [][4]float64 `json:"boxes"`
	IDBase  int          `json:"id_base"`
	Queries []C11Query   `json:"queries"`
}

var errC11Custom = errors.New("custom callback error")

func c11Items(c C11Case) []rtree.BulkItem {
	items := make([]rtree.BulkItem, len(c.Boxes))
	for i, b := range c.Boxes {
		items[i] = rtree.BulkItem{Box: rtree.Box{MinX: b[0], MinY: b[1], MaxX: b[2], MaxY: b[3]}, RecordID: c.IDBase + i}
	}
	return items
}

func boxesShare(a, b [4]float64) bool {
	return a[0] <= b[2] && b[0] <= a[2] && a[1] <= b[3] && b[1] <= a[3]
}

// exact squared distance between two boxes as a rational.
func boxDist2(a, b [4]float64) *big.Rat {
	gap := func(amin, amax, bmin, bmax float64) *big.Rat {
		z := new(big.Rat)
		if amin > bmax {
			x, y := new(big.Rat).SetFloat64(amin), new(big.Rat).SetFloat64(bmax)
			return z.Sub(x, y)
		}
		if bmin > amax {
			x, y := new(big.Rat).SetFloat64(bmin), new(big.Rat).SetFloat64(amax)
			return z.Sub(x, y)
		}
		return z
	}
	dx := gap(a[0], a[2], b[0], b[2])
	dy := gap(a[1], a[3], b[1], b[3])
	dx.Mul(dx, dx)
	dy.Mul(dy, dy)
	return dx.Add(dx, dy)
}

// c11Nearer reports whether a is nearer than b by more than float64 rounding of the squared distance
// (relative 1e-13): the tree orders by distances computed in float64, so two records whose exact
// distances differ by less than that may legitimately come out in either order.  On the integer and
// k/8 coordinate classes every squared distance is exact in float64 and distinct values differ by far
// more, so nothing is forgiven there.
func c11Nearer(a, b *big.Rat) bool {
	if a.Cmp(b) >= 0 {
		return false
	}
	// float64 squared distances below ~1e-300 underflow (gaps under 1e-150) and those above 1e300 overflow:
	// all such records tie at 0 / +Inf in the tree's arithmetic and may come in any order
	if bf, _ := b.Float64(); bf < 1e-290 {
		return false
	}
	if af, _ := a.Float64(); af > 1e290 {
		return false
	}
	lhs := new(big.Rat).Mul(a, c11TolDen)
	rhs := new(big.Rat).Mul(b, c11TolNum)
	return lhs.Cmp(rhs) < 0
}

var (
	c11TolDen = new(big.Rat).SetInt64(10000000000000)
	c11TolNum = new(big.Rat).SetInt64(10000000000000 - 1)
)

func c11Check(c C11Case, cx *h.Ctx) *h.Failure {
	items := c11Items(c)
	orig := append([]rtree.BulkItem(nil), items...)
	_ = orig
	tree := rtree.BulkLoad(items)
	n := len(c.Boxes)
	if err := tree.VerifCheck(); err != nil {
		return h.Failf("rtree/structure", "VerifCheck after BulkLoad of %d items: %v", n, err)
	}
	if tree.Count() != n {
		return h.Failf("rtree/count", "Count=%d want %d", tree.Count(), n)
	}
	ext, ok := tree.Extent()
	if ok != (n > 0) {
		return h.Failf("rtree/extent-ok", "Extent ok=%v with %d items", ok, n)
	}
	if n > 0 {
		want := c.Boxes[0]
		for _, b := range c.Boxes[1:] {
			want = [4]float64{math.Min(want[0], b[0]), math.Min(want[1], b[1]), math.Max(want[2], b[2]), math.Max(want[3], b[3])}
		}
		got := [4]float64{ext.MinX, ext.MinY, ext.MaxX, ext.MaxY}
		if got != want {
			return h.Failf("rtree/extent", "Extent=%v want %v", got, want)
		}
	}
	cx.Class(fmt.Sprintf("n=%s", sizeBucket(n)))
	for qi, q := range c.Queries {
		if f := c11Query(c, tree, q, qi, cx); f != nil {
			return f
		}
		// the tree must be unchanged by a search (state must not leak)
		if err := tree.VerifCheck(); err != nil {
			return h.Failf("rtree/structure-after-search", "VerifCheck after query %d: %v", qi, err)
		}
	}
	return nil
}

func sizeBucket(n int) string {
	switch {
	case n == 0:
		return "0"
	case n <= 4:
		return "1-4"
	case n <= 8:
		return "5-8"
	case n <= 40:
		return "9-40"
	case n <= 400:
		return "41-400"
	default:
		return ">400"
	}
}

func c11Query(c C11Case, tree *rtree.RTree, q C11Query, qi int, cx *h.Ctx) *h.Failure {
	qb := rtree.Box{MinX: q.Box[0], MinY: q.Box[1], MaxX: q.Box[2], MaxY: q.Box[3]}
	n := len(c.Boxes)
	expected := map[int]bool{}
	for i, b := range c.Boxes {
		if boxesShare(b, q.Box) {
			expected[c.IDBase+i] = true
		}
	}
	var visits []int
	calls := 0
	stopped := false
	callsAfterStop := 0
	var stopErr error
	cb := func(id int) error {
		if stopped {
			callsAfterStop++
			return stopErr
		}
		idx := calls
		calls++
		visits = append(visits, id)
		if idx == q.StopAt {
			stopped = true
			switch q.StopKind {
			case 1:
				stopErr = rtree.Stop
			case 2:
				stopErr = fmt.Errorf("wrapped: %w", rtree.Stop)
			case 4:
				stopErr = fmt.Errorf("outer: %w", fmt.Errorf("inner: %w", rtree.Stop))
			case 5:
				stopErr = errors.Join(errC11Custom, rtree.Stop)
			case 6:
				stopErr = fmt.Errorf("first %w then %w", errC11Custom, rtree.Stop)
			case 7:
				stopErr = fmt.Errorf("outer: %w", errors.Join(errors.New("sibling"), fmt.Errorf("inner: %w", rtree.Stop)))
			default:
				stopErr = errC11Custom
			}
			return stopErr
		}
		return nil
	}
	cx.Class("q=" + q.Kind)
	switch q.Kind {
	case "range":
		err := tree.RangeSearch(qb, cb)
		if callsAfterStop > 0 {
			return h.Failf("rtree/range-called-after-stop", "query %d: RangeSearch invoked the callback %d more times after it returned a non-nil error at visit %d (n=%d)", qi, callsAfterStop, q.StopAt, n)
		}
		seen := map[int]bool{}
		for _, id := range visits {
			if seen[id] {
				return h.Failf("rtree/range-duplicate", "query %d: record %d delivered twice", qi, id)
			}
			seen[id] = true
			if !expected[id] {
				return h.Failf("rtree/range-extra", "query %d: record %d delivered but its box %v does not meet %v", qi, id, c.Boxes[id-c.IDBase], q.Box)
			}
		}
		if !stopped {
			if len(seen) != len(expected) {
				var missing []int
				for id := range expected {
					if !seen[id] {
						missing = append(missing, id)
					}
				}
				sort.Ints(missing)
				return h.Failf("rtree/range-missing", "query %d box %v: %d records delivered, %d expected; missing %v", qi, q.Box, len(seen), len(expected), missing)
			}
			if err != nil {
				return h.Failf("rtree/range-err", "query %d: unexpected error %v", qi, err)
			}
		} else if f := c11StopErr(err, q, qi, "RangeSearch"); f != nil {
			return f
		}
		if n >= 9 && (len(expected) >= 2 || (stopped && len(expected) > q.StopAt+1)) {
			cx.NonTrivial()
		}
	case "priority":
		err := tree.PrioritySearch(qb, cb)
		if callsAfterStop > 0 {
			return h.Failf("rtree/priority-called-after-stop", "query %d: PrioritySearch invoked the callback %d more times after stop", qi, callsAfterStop)
		}
		seen := map[int]bool{}
		var prev *big.Rat
		for vi, id := range visits {
			if id < c.IDBase || id >= c.IDBase+n {
				return h.Failf("rtree/priority-unknown-id", "query %d: unknown record %d", qi, id)
			}
			if seen[id] {
				return h.Failf("rtree/priority-duplicate", "query %d: record %d visited twice", qi, id)
			}
			seen[id] = true
			d := boxDist2(c.Boxes[id-c.IDBase], q.Box)
			if prev != nil && c11Nearer(d, prev) {
				return h.Failf("rtree/priority-order", "query %d box %v: visit %d (record %d, d2=%s) is nearer than the previous visit (d2=%s)", qi, q.Box, vi, id, d.FloatString(6), prev.FloatString(6))
			}
			prev = d
		}
		if !stopped {
			if len(seen) != n {
				return h.Failf("rtree/priority-missing", "query %d: %d of %d records visited", qi, len(seen), n)
			}
			if err != nil {
				return h.Failf("rtree/priority-err", "query %d: unexpected error %v", qi, err)
			}
		} else {
			if f := c11StopErr(err, q, qi, "PrioritySearch"); f != nil {
				return f
			}
			// every unvisited record must be at least as far as the last visited one
			for i, b := range c.Boxes {
				if !seen[c.IDBase+i] && prev != nil && c11Nearer(boxDist2(b, q.Box), prev) {
					return h.Failf("rtree/priority-skipped-nearer", "query %d: record %d not yet visited is nearer than visited ones", qi, c.IDBase+i)
				}
			}
		}
		if n >= 9 {
			cx.NonTrivial()
		}
	case "nearest":
		id, found := tree.Nearest(qb)
		if found != (n > 0) {
			return h.Failf("rtree/nearest-found", "query %d: found=%v with %d items", qi, found, n)
		}
		if found {
			if id < c.IDBase || id >= c.IDBase+n {
				return h.Failf("rtree/nearest-unknown-id", "query %d: unknown record %d", qi, id)
			}
			d := boxDist2(c.Boxes[id-c.IDBase], q.Box)
			for i, b := range c.Boxes {
				if c11Nearer(boxDist2(b, q.Box), d) {
					return h.Failf("rtree/nearest-not-min", "query %d box %v: Nearest returned record %d (d2=%s) but record %d is nearer", qi, q.Box, id, d.FloatString(6), c.IDBase+i)
				}
			}
		}
		if n >= 9 {
			cx.NonTrivial()
		}
	}
	return nil
}

func c11StopErr(err error, q C11Query, qi int, name string) *h.Failure {
	switch q.StopKind {
	case 1, 2, 4, 5, 6, 7:
		if err != nil {
			return h.Failf("rtree/stop-not-nil", "query %d: %s returned %v after the callback returned (wrapped) Stop", qi, name, err)
		}
	default:
		if err != errC11Custom {
			return h.Failf("rtree/error-changed", "query %d: %s returned %v, want the callback's error unchanged", qi, name, err)
		}
	}
	return nil
}

// ---- generators ----

func c11GenCoord(t *rapid.T, layout int, label string) float64 {
	switch layout {
	case 0: // small integer grid: touching and duplicates are common
		return float64(rapid.IntRange(-6, 6).Draw(t, label))
	case 1: // wide integers
		return float64(rapid.IntRange(-1000, 1000).Draw(t, label))
	default: // fractional
		return float64(rapid.IntRange(-4000, 4000).Draw(t, label)) / 8
	}
}

func c11GenBox(t *rapid.T, layout, shape int, cx, cy float64) [4]float64 {
	x := c11GenCoord(t, layout, "x")
	y := c11GenCoord(t, layout, "y")
	var w, hgt float64
	switch shape {
	case 0: // point box
	case 1: // horizontal line
		w = math.Abs(c11GenCoord(t, layout, "w"))
	case 2: // vertical line
		hgt = math.Abs(c11GenCoord(t, layout, "h"))
	default:
		w = math.Abs(c11GenCoord(t, layout, "w"))
		hgt = math.Abs(c11GenCoord(t, layout, "h"))
	}
	return [4]float64{cx + x, cy + y, cx + x + w, cy + y + hgt}
}

func c11GenBoxes(t *rapid.T, n int) [][4]float64 {
	layout := rapid.IntRange(0, 2).Draw(t, "coordclass")
	style := rapid.IntRange(0, 6).Draw(t, "layout")
	boxes := make([][4]float64, 0, n)
	for i := 0; i < n; i++ {
		shape := rapid.IntRange(0, 5).Draw(t, "shape")
		var b [4]float64
		switch style {
		case 0: // uniform
			b = c11GenBox(t, layout, shape, 0, 0)
		case 1: // clustered
			c := float64(rapid.IntRange(0, 3).Draw(t, "cluster")) * 100
			b = c11GenBox(t, 0, shape, c, -c)
		case 2: // collinear (all on one row)
			b = c11GenBox(t, layout, shape, 0, 0)
			b[1], b[3] = 5, 5
		case 3: // identical centres: concentric boxes
			r := math.Abs(c11GenCoord(t, layout, "r"))
			r2 := math.Abs(c11GenCoord(t, layout, "r2"))
			b = [4]float64{-r, -r2, r, r2}
		case 4: // duplicates of a few boxes
			if len(boxes) > 0 && rapid.IntRange(0, 2).Draw(t, "dup") > 0 {
				b = boxes[rapid.IntRange(0, len(boxes)-1).Draw(t, "dupidx")]
			} else {
				b = c11GenBox(t, layout, shape, 0, 0)
			}
		case 5: // nested
			r := float64(i%17 + 1)
			b = [4]float64{-r, -r, r, r}
		default: // grid touching: unit cells sharing edges
			gx := float64(rapid.IntRange(0, 7).Draw(t, "gx"))
			gy := float64(rapid.IntRange(0, 7).Draw(t, "gy"))
			b = [4]float64{gx, gy, gx + 1, gy + 1}
		}
		boxes = append(boxes, b)
	}
	return boxes
}

func c11GenQueries(t *rapid.T, boxes [][4]float64, nq int) []C11Query {
	qs := make([]C11Query, 0, nq)
	for i := 0; i < nq; i++ {
		var q C11Query
		q.Kind = rapid.SampledFrom([]string{"range", "range", "priority", "nearest"}).Draw(t, "kind")
		mode := rapid.IntRange(0, 6).Draw(t, "qmode")
		pick := func(lbl string) [4]float64 {
			if len(boxes) == 0 {
				return [4]float64{0, 0, 1, 1}
			}
			return boxes[rapid.IntRange(0, len(boxes)-1).Draw(t, lbl)]
		}
		switch mode {
		case 0: // random
			q.Box = c11GenBox(t, rapid.IntRange(0, 2).Draw(t, "qc"), rapid.IntRange(0, 5).Draw(t, "qs"), 0, 0)
		case 1: // enclosing everything
			q.Box = [4]float64{-1e6, -1e6, 1e6, 1e6}
		case 2: // disjoint, far away
			q.Box = [4]float64{5000, 5000, 5001, 5002}
		case 3: // edge touching: shares the right edge of an item
			b := pick("eb")
			q.Box = [4]float64{b[2], b[1], b[2] + 3, b[3]}
		case 4: // corner touching
			b := pick("cb")
			q.Box = [4]float64{b[2], b[3], b[2] + 2, b[3] + 2}
		case 5: // degenerate point on an item's corner
			b := pick("pb")
			q.Box = [4]float64{b[0], b[1], b[0], b[1]}
		default: // an item's own box
			q.Box = pick("ib")
		}
		q.StopAt = -1
		if rapid.IntRange(0, 2).Draw(t, "stops") > 0 {
			q.StopAt = rapid.IntRange(0, 12).Draw(t, "stopat")
			q.StopKind = rapid.IntRange(1, 7).Draw(t, "stopkind")
		}
		qs = append(qs, q)
	}
	return qs
}

func c11Gen(t *rapid.T, cx *h.Ctx) C11Case {
	maxN := 300
	if cx.Thorough {
		maxN = 5000
	}
	var n int
	switch rapid.IntRange(0, 9).Draw(t, "sizeclass") {
	case 0, 1, 2, 3:
		n = rapid.IntRange(0, 40).Draw(t, "n")
	case 4, 5, 6, 7:
		n = rapid.IntRange(41, 300).Draw(t, "n")
	default:
		n = rapid.IntRange(41, maxN).Draw(t, "n")
	}
	c := C11Case{IDBase: rapid.IntRange(-3, 3).Draw(t, "idbase")}
	c.Boxes = c11GenBoxes(t, n)
	c.Queries = c11GenQueries(t, c.Boxes, rapid.IntRange(1, 8).Draw(t, "nq"))
	// Non-dyadic ordinates: one monotone map v -> v*s+o applied to every ordinate of every box and query.
	// Equal inputs stay equal (touching stays touching, exactly), but sums, differences and midpoints of
	// the ordinates are no longer exact in float64.
	if rapid.IntRange(0, 2).Draw(t, "scaled") == 0 {
		sc := rapid.SampledFrom([]float64{0.1, 1.0 / 3, 0.7, 1e-3, 1e-7, 12345.678, 1e-170, 3e-200}).Draw(t, "scale")
		off := rapid.SampledFrom([]float64{0, 0.1, -0.3, 1e6 + 0.1}).Draw(t, "offset")
		if sc < 1e-100 {
			off = 0 // tiny magnitudes: gaps whose squares underflow (completeness and exactly-once must still hold)
			cx.Class("coords=tiny")
		}
		f := func(b *[4]float64) {
			for i := range b {
				b[i] = b[i]*sc + off
			}
		}
		for i := range c.Boxes {
			f(&c.Boxes[i])
		}
		for i := range c.Queries {
			f(&c.Queries[i].Box)
		}
		cx.Class("coords=non-dyadic")
	}
	return c
}

// c11Enumerate: every size 0..40 x 8 deterministic layouts x a fixed query set
// x every stop position / stop kind (sizes around every fan-out boundary).
func c11Enumerate(cx *h.Ctx, yield func(C11Case)) []string {
	layouts := []func(i, n int) [4]float64{
		func(i, n int) [4]float64 { x := float64(i); return [4]float64{x, 0, x + 1, 1} },                // touching row
		func(i, n int) [4]float64 { x, y := float64(i%7), float64(i/7); return [4]float64{x, y, x, y} }, // point grid
		func(i, n int) [4]float64 { r := float64(i + 1); return [4]float64{-r, -r, r, r} },              // nested
		func(i, n int) [4]float64 { return [4]float64{1, 1, 2, 2} },                                     // all identical
		func(i, n int) [4]float64 {
			x := float64((i * 7) % 11)
			y := float64((i * 5) % 13)
			return [4]float64{x, y, x + 2, y + 3}
		},
		func(i, n int) [4]float64 { y := float64(i); return [4]float64{3, y, 3, y + 1} },                    // vertical line boxes
		func(i, n int) [4]float64 { x := float64(i*i%17) / 2; return [4]float64{x, -x, x + 0.5, -x + 0.5} }, // diagonal fractional
		func(i, n int) [4]float64 { return [4]float64{float64(i) / 10, 0.1, float64(i+1) / 10, 0.3} },       // touching row in tenths (non-dyadic)
	}
	for n := 0; n <= 40; n++ {
		for li, lay := range layouts {
			boxes := make([][4]float64, n)
			for i := range boxes {
				boxes[i] = lay(i, n)
			}
			qboxes := [][4]float64{{-100, -100, 100, 100}, {1, 1, 1, 1}, {2, 0, 5, 2}, {500, 500, 501, 501}, {3, 3, 3, 9}}
			if n > 0 {
				b := boxes[n/2]
				qboxes = append(qboxes, [4]float64{b[2], b[3], b[2] + 1, b[3] + 1}, b)
			}
			for _, qb := range qboxes {
				c := C11Case{Boxes: boxes, IDBase: li - 3}
				for _, kind := range []string{"range", "priority", "nearest"} {
					c.Queries = append(c.Queries, C11Query{Kind: kind, Box: qb, StopAt: -1})
				}
				yield(c)
				// every stop position for the enclosing and the item query
				for k := 0; k <= n && k <= 41; k++ {
					c := C11Case{Boxes: boxes, IDBase: li - 3}
					sk := 1 + (k+li)%7
					c.Queries = []C11Query{{Kind: "range", Box: qb, StopAt: k, StopKind: sk}, {Kind: "priority", Box: qb, StopAt: k, StopKind: 1 + (k+li+1)%7}}
					yield(c)
				}
			}
		}
	}
	// tree depths 6 and 7 (fan-out 4: 1024 and 4096 leaves are the boundaries), the sizes rapid rarely draws
	for _, n := range []int{1023, 1024, 1025, 4095, 4096, 4097, 5000} {
		if cx.Thorough || n%2 == 1 {
			for li, lay := range layouts[:3] {
				boxes := make([][4]float64, n)
				for i := range boxes {
					boxes[i] = lay(i, n)
					if li == 1 { // point grid: spread over more rows
						x, y := float64(i%97), float64(i/97)
						boxes[i] = [4]float64{x, y, x, y}
					}
				}
				b := boxes[n/2]
				c := C11Case{Boxes: boxes, IDBase: 1}
				for _, qb := range [][4]float64{{-1e6, -1e6, 1e6, 1e6}, b, {b[2], b[3], b[2] + 1, b[3] + 1}, {10, 0, 40, 3}} {
					c.Queries = append(c.Queries, C11Query{Kind: "range", Box: qb, StopAt: -1}, C11Query{Kind: "priority", Box: qb, StopAt: -1}, C11Query{Kind: "nearest", Box: qb, StopAt: -1},
						C11Query{Kind: "range", Box: qb, StopAt: n / 3, StopKind: 1 + (n+li)%7}, C11Query{Kind: "priority", Box: qb, StopAt: n / 3, StopKind: 1 + (n+li+3)%7})
				}
				yield(c)
			}
		}
	}
	return []string{"sizes 1023..5000 around the depth-6/7 boundaries x 3 layouts x 4 query boxes x {range,priority,nearest,stop}", "sizes 0..40 x 8 deterministic layouts x 5-7 query boxes x {range,priority,nearest} x every stop position 0..n with rotating stop kinds"}
}

func TestC11(t *testing.T) {
	h.Run(t, h.Prop[C11Case]{
		ID:              "C11",
		WholeCheckLimit: 300 * time.Second,
		Rule:            "cases = a multiset of boxes bulk-loaded into an R-tree plus 1..8 queries (range/priority/nearest, with a scripted callback that returns nil/Stop/Stop wrapped by %w, by two %w verbs or by errors.Join/custom error at visit k), oracle = linear scan with exact rational box distances (order compared up to 1e-13 relative, the rounding of a float64 squared distance); generated by (a) exhaustive enumeration of sizes 0..40 x 8 layouts x query boxes x every stop position and (b) rapid draws of sizes 0..300 (thorough 0..5000) over 7 layouts x 3 coordinate classes, a third of them mapped to non-dyadic ordinates by one monotone v*s+o; non-trivial = >= 9 items (tree depth >= 2) and, for range queries, >= 2 matching records or a stop with matches remaining; distinct = distinct case hashes",
		Assumptions:     []string{"linear-scan oracle and math/big rational distances are correct", "rtree.VerifCheck hook (build tag verif) reports structural invariants faithfully"},
		Gen:             c11Gen,
		Check:           c11Check,
		Enumerate:       c11Enumerate,
	})
}

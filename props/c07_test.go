package props

import (
	"bytes"
	"encoding/hex"
	"fmt"
	"math"
	"math/big"
	"testing"
	"time"

	"github.com/peterstace/simplefeatures/geom"
	"pgregory.net/rapid"

	"verif/internal/codec"
	"verif/internal/gen"
	"verif/internal/gm"
	"verif/internal/h"
)

// ---------- C07: TWKB decode(encode(g,p)) is g rounded to p places; headers tell the truth ----------

type C07Case struct {
	// RawHex: when set the case is raw TWKB bytes (native fuzzing / replay): decode-encode-decode fixpoint only.
	RawHex string  `json:"raw_hex,omitempty"`
	G      gm.G    `json:"g"`
	PrecXY int     `json:"prec_xy"`
	PrecZ  int     `json:"prec_z"` // -99 = option not given
	PrecM  int     `json:"prec_m"`
	Size   bool    `json:"size"`
	BBox   bool    `json:"bbox"`
	Close  bool    `json:"close_rings"`
	IDs    []int64 `json:"ids"`              // nil = option not given
	Second *gm.G   `json:"second,omitempty"` // a second geometry concatenated after the first (size header splits them)
	// OptOrder permutes the option list (options are independent: their order must not matter)
	OptOrder []int `json:"opt_order,omitempty"`
}

func pow10Rat(p int) *big.Rat {
	r := new(big.Rat).SetInt(new(big.Int).Exp(big.NewInt(10), big.NewInt(int64(absInt(p))), nil))
	if p < 0 {
		r.Inv(r)
	}
	return r
}

func absInt(a int) int {
	if a < 0 {
		return -a
	}
	return a
}

// c07Scaled: exact v*10^p.
func c07Scaled(v float64, p int) *big.Rat {
	r := new(big.Rat)
	r.SetFloat64(v)
	return r.Mul(r, pow10Rat(p))
}

// c07Acceptable returns the acceptable integer(s) for round-half-away(v*10^p):
// the exact rounding, plus the other neighbour when the exact scaled value is
// within max(2^-20, 2^-51*|scaled|) of a half-integer (float product rounding).
func c07Acceptable(v float64, p int) []int64 {
	s := c07Scaled(v, p)
	fl := new(big.Int).Div(s.Num(), s.Denom()) // floor (Div is Euclidean; denominators are positive)
	frac := new(big.Rat).Sub(s, new(big.Rat).SetInt(fl))
	half := big.NewRat(1, 2)
	lo := fl.Int64()
	var exact int64
	switch c := frac.Cmp(half); {
	case c > 0:
		exact = lo + 1
	case c < 0:
		exact = lo
	default: // tie: away from zero
		if s.Sign() >= 0 {
			exact = lo + 1
		} else {
			exact = lo
		}
	}
	tol := big.NewRat(1, 1<<20)
	abs := new(big.Rat).Abs(s)
	rel := new(big.Rat).Mul(abs, new(big.Rat).SetFrac(big.NewInt(1), new(big.Int).Lsh(big.NewInt(1), 51)))
	if rel.Cmp(tol) > 0 {
		tol = rel
	}
	dist := new(big.Rat).Sub(frac, half)
	dist.Abs(dist)
	if dist.Sign() == 0 {
		// an exact tie: when the scaled value is also exact in float64 (so that no product rounding can be blamed),
		// "rounded" means half away from zero, for negative ordinates as for positive ones
		var f float64
		if p >= 0 {
			f = v * math.Pow10(p)
		} else {
			f = v / math.Pow10(-p)
		}
		if fr := new(big.Rat); !math.IsInf(f, 0) && fr.SetFloat64(f) != nil && fr.Cmp(s) == 0 {
			return []int64{exact}
		}
	}
	if dist.Cmp(tol) <= 0 {
		return []int64{lo, lo + 1}
	}
	return []int64{exact}
}

func c07Nearest(k int64, p int) float64 {
	r := new(big.Rat).SetInt64(k)
	r.Mul(r, pow10Rat(-p))
	f, _ := r.Float64()
	return f
}

// ---- generator ----

func c07Gen(t *rapid.T, cx *h.Ctx) C07Case {
	var c C07Case
	c.PrecXY = rapid.IntRange(-8, 7).Draw(t, "precxy")
	c.PrecZ, c.PrecM = -99, -99
	explicit := func(label string) bool {
		if c.PrecXY < 0 {
			return rapid.IntRange(0, 9).Draw(t, label) > 0 // the default (= XY precision) is out of range for Z/M then
		}
		return rapid.Bool().Draw(t, label)
	}
	if explicit("hasprecz") {
		c.PrecZ = rapid.IntRange(0, 7).Draw(t, "precz")
	}
	if explicit("hasprecm") {
		c.PrecM = rapid.IntRange(0, 7).Draw(t, "precm")
	}
	if rapid.IntRange(0, 30).Draw(t, "badprec") == 0 {
		switch rapid.IntRange(0, 2).Draw(t, "badwhich") {
		case 0:
			c.PrecXY = rapid.SampledFrom([]int{-9, 8, -100, 100, 15}).Draw(t, "badxy")
		case 1:
			c.PrecZ = rapid.SampledFrom([]int{-1, 8, 100}).Draw(t, "badz")
		default:
			c.PrecM = rapid.SampledFrom([]int{-1, 8, -7}).Draw(t, "badm")
		}
	}
	c.Size = rapid.Bool().Draw(t, "size")
	c.BBox = rapid.Bool().Draw(t, "bbox")
	c.Close = rapid.Bool().Draw(t, "close")

	q := rapid.IntRange(0, 7).Draw(t, "q")
	// valid shapes on small integers, then mapped to k/10^q with a drawn magnitude
	g := gen.Structure(t, gen.Opts{CT: -1, ValidShapes: true, AllowZero: true,
		XY: func(t *rapid.T, l string) float64 { return float64(rapid.IntRange(-50, 50).Draw(t, l)) },
		ZM: func(t *rapid.T, l string) float64 { return float64(rapid.IntRange(-50, 50).Draw(t, l)) }})
	// scale factor for k: keeps |v*10^p| < 2^52 for every precision in play
	maxP := c.PrecXY
	for _, p := range []int{c.PrecZ, c.PrecM} {
		if p != -99 && p > maxP {
			maxP = p
		}
	}
	if maxP > 7 {
		maxP = 7
	}
	if maxP < 0 {
		maxP = 0
	}
	// |k| < 2^40 and |k|*10^(maxP-q) < 2^51
	lim := math.Ldexp(1, 40)
	if e := maxP - q; e > 0 {
		if l2 := math.Ldexp(1, 51) / math.Pow(10, float64(e)); l2 < lim {
			lim = l2
		}
	}
	mulMax := int64(lim / 4000) // shapes span less than +-4000 after the column layout
	if mulMax < 1 {
		mulMax = 1
	}
	mul := rapid.Int64Range(1, mulMax).Draw(t, "mul")
	if rapid.Bool().Draw(t, "smallmul") {
		mul = rapid.Int64Range(1, 1000).Draw(t, "mul2")
		if mul > mulMax {
			mul = mulMax
		}
	}
	off := rapid.Int64Range(-mul, mul).Draw(t, "off")
	den := math.Pow(10, float64(q))
	g = g.MapPositions(func(p []gm.F, ct int) []gm.F {
		for i := range p {
			k := int64(p[i])*mul + off
			p[i] = gm.F(float64(k) / den)
		}
		return p
	})
	c.G = g

	// ID list: right length, wrong length, or absent
	nm := len(g.Norm().Mem)
	switch rapid.IntRange(0, 5).Draw(t, "idmode") {
	case 0, 1:
		c.IDs = nil
	case 2, 3, 4:
		c.IDs = make([]int64, nm)
		for i := range c.IDs {
			c.IDs[i] = rapid.Int64().Draw(t, "id")
		}
		if nm == 0 {
			c.IDs = nil
		}
	default:
		n := rapid.IntRange(1, 4).Draw(t, "wrongn")
		if n == nm {
			n++
		}
		c.IDs = make([]int64, n)
		for i := range c.IDs {
			c.IDs[i] = int64(rapid.IntRange(-5, 5).Draw(t, "id"))
		}
	}
	if rapid.IntRange(0, 3).Draw(t, "second") == 0 {
		s := gen.Structure(t, gen.Opts{CT: g.Norm().CT, ValidShapes: true,
			XY: func(t *rapid.T, l string) float64 { return float64(rapid.IntRange(-50, 50).Draw(t, l)) },
			ZM: func(t *rapid.T, l string) float64 { return float64(rapid.IntRange(-50, 50).Draw(t, l)) }})
		c.Second = &s
	}
	if rapid.Bool().Draw(t, "shuffleopts") {
		c.OptOrder = rapid.SliceOfN(rapid.IntRange(0, 5), 6, 6).Draw(t, "optorder")
	}
	return c
}

func c07Opts(c C07Case) []geom.TWKBWriterOption {
	var opts []geom.TWKBWriterOption
	if c.PrecZ != -99 {
		opts = append(opts, geom.TWKBPrecisionZ(c.PrecZ))
	}
	if c.PrecM != -99 {
		opts = append(opts, geom.TWKBPrecisionM(c.PrecM))
	}
	if c.Size {
		opts = append(opts, geom.TWKBSizeHeader())
	}
	if c.BBox {
		opts = append(opts, geom.TWKBBoundingBoxHeader())
	}
	if c.Close {
		opts = append(opts, geom.TWKBCloseRings())
	}
	if c.IDs != nil {
		opts = append(opts, geom.TWKBIDList(c.IDs))
	}
	// selection-style shuffle driven by the drawn order
	for i := 0; i < len(opts) && i < len(c.OptOrder); i++ {
		j := i + c.OptOrder[i]%(len(opts)-i)
		opts[i], opts[j] = opts[j], opts[i]
	}
	return opts
}

// effective precisions per dimension index for a coordinate type
func c07Precs(c C07Case, ct int) []int {
	pz, pm := c.PrecZ, c.PrecM
	if pz == -99 {
		pz = c.PrecXY
	}
	if pm == -99 {
		pm = c.PrecXY
	}
	ps := []int{c.PrecXY, c.PrecXY}
	if ct&1 != 0 {
		ps = append(ps, pz)
	}
	if ct&2 != 0 {
		ps = append(ps, pm)
	}
	return ps
}

type c07State struct {
	c         C07Case
	precs     []int
	ct        int
	lo, hi    []int64 // running bbox of chosen integers
	have      bool
	collapsed bool
	offgrid   bool
}

// matchPositions checks that the integers the encoder wrote are acceptable
// roundings of the model's ordinates, and that the decoded floats are the
// nearest float64 to K/10^p.  got is the library-decoded flat list.
func (st *c07State) matchPositions(where string, want []gm.F, ints [][]int64, got []gm.F) *h.Failure {
	d := gm.Dim(st.ct)
	n := len(want) / d
	if len(ints) != n {
		return h.Failf("twkb/position-count", "%s: %d positions encoded, %d expected", where, len(ints), n)
	}
	if len(got) != len(want) {
		return h.Failf("twkb/decoded-position-count", "%s: %d ordinates decoded, %d expected", where, len(got), len(want))
	}
	for i := 0; i < n; i++ {
		for k := 0; k < d; k++ {
			v := float64(want[i*d+k])
			acc := c07Acceptable(v, st.precs[k])
			K := ints[i][k]
			ok := false
			for _, a := range acc {
				if a == K {
					ok = true
				}
			}
			if !ok {
				return h.Failf("twkb/wrong-rounding", "%s position %d dim %d: %v at precision %d was encoded as integer %d, acceptable %v", where, i, k, v, st.precs[k], K, acc)
			}
			exp := c07Nearest(K, st.precs[k])
			if g := float64(got[i*d+k]); g != exp {
				cls := "twkb/decoded-value"
				if st.precs[k] < 0 {
					cls = "twkb/decoded-value-negative-precision"
				}
				return h.Failf(cls, "%s position %d dim %d: integer %d at precision %d decodes to %v, nearest float64 to %d/10^%d is %v (original %v)", where, i, k, K, st.precs[k], g, K, st.precs[k], exp, v)
			}
			if exp != v {
				st.offgrid = true
			}
			if !st.have {
				st.lo = append(st.lo, K)
				st.hi = append(st.hi, K)
			} else {
				if K < st.lo[k] {
					st.lo[k] = K
				}
				if K > st.hi[k] {
					st.hi[k] = K
				}
			}
		}
		st.have = true
	}
	return nil
}

func (st *c07State) bound(ints [][]int64) {
	for _, p := range ints {
		for k, K := range p {
			if !st.have {
				st.lo = append(st.lo, K)
				st.hi = append(st.hi, K)
				continue
			}
			if K < st.lo[k] {
				st.lo[k] = K
			}
			if K > st.hi[k] {
				st.hi[k] = K
			}
		}
		st.have = true
	}
}

// c07StripEmpties replaces every sub-geometry without ordinates by the plain
// empty geometry of its type (the tolerated loss of member structure).
func c07StripEmpties(g gm.G) gm.G {
	g = g.Norm()
	if g.IsEmpty() {
		return gm.G{T: g.T, CT: g.CT}
	}
	out := g
	if g.Mem != nil {
		out.Mem = make([]gm.G, len(g.Mem))
		for i, m := range g.Mem {
			out.Mem[i] = c07StripEmpties(m)
		}
	}
	return out
}

// ring handling: the encoder drops (or keeps) the closing position, the decoder re-closes.
func (st *c07State) matchRing(where string, want []gm.F, ints [][]int64, got []gm.F) *h.Failure {
	d := gm.Dim(st.ct)
	n := len(want) / d
	enc := want
	if !st.c.Close && n >= 2 {
		enc = want[:(n-1)*d]
	}
	if len(ints) != len(enc)/d {
		return h.Failf("twkb/ring-position-count", "%s: ring of %d positions encoded with %d (close_rings=%v)", where, n, len(ints), st.c.Close)
	}
	// does rounding merge the last encoded position with the first one? then the decoder cannot know
	m := len(ints)
	if !st.c.Close && m >= 2 {
		same := true
		for k := 0; k < d; k++ {
			if ints[0][k] != ints[m-1][k] {
				same = false
			}
		}
		if same {
			st.collapsed = true
			st.bound(ints)
			return nil
		}
	}
	if len(got) != len(want) {
		return h.Failf("twkb/ring-decoded-count", "%s: ring of %d positions decodes to %d", where, n, len(got)/d)
	}
	if f := st.matchPositions(where, enc, ints, got[:len(enc)]); f != nil {
		return f
	}
	// closing position equals the first decoded position
	for k := 0; k < d; k++ {
		if float64(got[(n-1)*d+k]) != float64(got[k]) {
			return h.Failf("twkb/ring-not-closed", "%s: decoded ring is not closed", where)
		}
	}
	return nil
}

var c07TypeNum = map[string]int{gm.Point: 1, gm.LineString: 2, gm.Polygon: 3, gm.MultiPoint: 4, gm.MultiLineString: 5, gm.MultiPolygon: 6, gm.GeometryCollection: 7}

// c07Compare walks model / independent-reader node / library-decoded model together.
func (st *c07State) compare(where string, want gm.G, node codec.TWKBNode, got gm.G, top bool) *h.Failure {
	want = want.Norm()
	if node.Type != c07TypeNum[want.T] {
		return h.Failf("twkb/type", "%s: encoded type %d for %s", where, node.Type, want.T)
	}
	if got.T != want.T {
		return h.Failf("twkb/decoded-type", "%s: decoded as %s, want %s", where, got.T, want.T)
	}
	if node.PrecXY != st.c.PrecXY {
		return h.Failf("twkb/precision-header", "%s: precision header %d, requested %d", where, node.PrecXY, st.c.PrecXY)
	}
	if want.IsEmpty() {
		// tolerated loss: member structure and coordinate type of a geometry without any ordinate
		if !node.Empty {
			// an empty collection of empties may be written member by member; then every member must be empty
			if !got.IsEmpty() {
				return h.Failf("twkb/empty-became-nonempty", "%s: %s decodes to non-empty %s", where, want, got)
			}
			return nil
		}
		if node.HasSize || node.HasBBox || node.HasIDs {
			return h.Failf("twkb/empty-with-header-flags", "%s: empty geometry carries size/bbox/id flags", where)
		}
		if !got.IsEmpty() {
			return h.Failf("twkb/empty-became-nonempty", "%s: %s decodes to non-empty %s", where, want, got)
		}
		return nil
	}
	if node.Empty {
		return h.Failf("twkb/nonempty-flagged-empty", "%s: non-empty %s has the empty flag", where, want)
	}
	if node.HasZ != (st.ct&1 != 0) || node.HasM != (st.ct&2 != 0) {
		return h.Failf("twkb/dimension-flags", "%s: hasZ=%v hasM=%v for coordinate type %s", where, node.HasZ, node.HasM, gm.CTName(st.ct))
	}
	if got.CT != st.ct {
		return h.Failf("twkb/decoded-ctype", "%s: decoded coordinate type %s, want %s", where, gm.CTName(got.CT), gm.CTName(st.ct))
	}
	if node.HasZ && node.PrecZ != st.precs[2] {
		return h.Failf("twkb/precision-z-header", "%s: Z precision header %d, want %d", where, node.PrecZ, st.precs[2])
	}
	if node.HasM && node.PrecM != st.precs[len(st.precs)-1] {
		return h.Failf("twkb/precision-m-header", "%s: M precision header %d, want %d", where, node.PrecM, st.precs[len(st.precs)-1])
	}
	if node.HasSize != st.c.Size {
		return h.Failf("twkb/size-flag", "%s: size flag %v, requested %v", where, node.HasSize, st.c.Size)
	}
	if node.HasSize && node.SizeAt+int(node.Size) != node.End {
		return h.Failf("twkb/size-header", "%s: size header says %d bytes follow, actually %d", where, node.Size, node.End-node.SizeAt)
	}
	if !top && (node.HasBBox || node.HasIDs) {
		// allowed by the format, but then they must be truthful; the library does not write them
	}
	switch want.T {
	case gm.Point:
		return st.matchPositions(where, want.Co, node.Pos, got.Co)
	case gm.LineString:
		return st.matchPositions(where, want.Co, node.Pos, got.Co)
	case gm.Polygon:
		if len(node.Rings) != len(want.Rings) {
			return h.Failf("twkb/ring-count", "%s: %d rings encoded, want %d", where, len(node.Rings), len(want.Rings))
		}
		if len(got.Rings) != len(want.Rings) {
			return h.Failf("twkb/decoded-ring-count", "%s: %d rings decoded, want %d", where, len(got.Rings), len(want.Rings))
		}
		for i := range want.Rings {
			if f := st.matchRing(fmt.Sprintf("%s ring %d", where, i), want.Rings[i], node.Rings[i], got.Rings[i]); f != nil {
				return f
			}
		}
	case gm.MultiPoint:
		// empty Points cannot be expressed: they must be dropped (or the encoder must refuse)
		var flat []gm.F
		var gotFlat []gm.F
		kept := 0
		for _, m := range want.Mem {
			if len(m.Co) > 0 {
				flat = append(flat, m.Co...)
				kept++
			}
		}
		if len(got.Mem) != kept {
			return h.Failf("twkb/multipoint-member-count", "%s: %s decodes to %d points, want %d (empty Points dropped)", where, want, len(got.Mem), kept)
		}
		for _, m := range got.Mem {
			if len(m.Co) == 0 {
				return h.Failf("twkb/multipoint-empty-decoded", "%s: decoded MultiPoint has an empty member", where)
			}
			gotFlat = append(gotFlat, m.Co...)
		}
		return st.matchPositions(where, flat, node.Pos, gotFlat)
	case gm.MultiLineString:
		if len(node.Rings) != len(want.Mem) || len(got.Mem) != len(want.Mem) {
			return h.Failf("twkb/member-count", "%s: %d lines encoded, %d decoded, want %d", where, len(node.Rings), len(got.Mem), len(want.Mem))
		}
		for i, m := range want.Mem {
			if f := st.matchPositions(fmt.Sprintf("%s line %d", where, i), m.Co, node.Rings[i], got.Mem[i].Co); f != nil {
				return f
			}
		}
	case gm.MultiPolygon:
		if len(node.Polys) != len(want.Mem) || len(got.Mem) != len(want.Mem) {
			return h.Failf("twkb/member-count", "%s: %d polygons encoded, %d decoded, want %d", where, len(node.Polys), len(got.Mem), len(want.Mem))
		}
		for i, m := range want.Mem {
			if len(node.Polys[i]) != len(m.Rings) || len(got.Mem[i].Rings) != len(m.Rings) {
				return h.Failf("twkb/ring-count", "%s polygon %d: %d rings encoded, %d decoded, want %d", where, i, len(node.Polys[i]), len(got.Mem[i].Rings), len(m.Rings))
			}
			for j := range m.Rings {
				if f := st.matchRing(fmt.Sprintf("%s polygon %d ring %d", where, i, j), m.Rings[j], node.Polys[i][j], got.Mem[i].Rings[j]); f != nil {
					return f
				}
			}
		}
	case gm.GeometryCollection:
		if len(node.Members) != len(want.Mem) || len(got.Mem) != len(want.Mem) {
			return h.Failf("twkb/member-count", "%s: %d members encoded, %d decoded, want %d", where, len(node.Members), len(got.Mem), len(want.Mem))
		}
		for i, m := range want.Mem {
			if f := st.compare(fmt.Sprintf("%s member %d", where, i), m, node.Members[i], got.Mem[i], false); f != nil {
				return f
			}
		}
	}
	return nil
}

func c07Check(c C07Case, cx *h.Ctx) *h.Failure {
	if c.RawHex != "" {
		b, _ := hex.DecodeString(c.RawHex)
		cx.Class("raw-bytes")
		return c07Raw(b)
	}
	model := c.G.Norm()
	g := c.G.ToGeom()
	cx.Class("type=" + model.T)
	cx.Class(fmt.Sprintf("precxy=%d", c.PrecXY))
	opts := c07Opts(c)
	b, err := geom.MarshalTWKB(g, c.PrecXY, opts...)

	// out-of-range precisions are rejected
	badPrec := c.PrecXY < -8 || c.PrecXY > 7
	if model.CT&1 != 0 && c.PrecZ != -99 && (c.PrecZ < 0 || c.PrecZ > 7) {
		badPrec = true
	}
	if model.CT&2 != 0 && c.PrecM != -99 && (c.PrecM < 0 || c.PrecM > 7) {
		badPrec = true
	}
	// defaults: Z/M precision = XY precision, which must then be in 0..7 if the dimension exists
	if model.CT&1 != 0 && c.PrecZ == -99 && c.PrecXY < 0 {
		badPrec = true
	}
	if model.CT&2 != 0 && c.PrecM == -99 && c.PrecXY < 0 {
		badPrec = true
	}
	if badPrec {
		cx.Class("expect=precision-error")
		if err == nil {
			return h.Failf("twkb/bad-precision-accepted", "MarshalTWKB accepted precisions xy=%d z=%d m=%d for %s", c.PrecXY, c.PrecZ, c.PrecM, gm.CTName(model.CT))
		}
		return nil
	}
	// ID list: only collection types have members to identify
	isColl := model.T == gm.MultiPoint || model.T == gm.MultiLineString || model.T == gm.MultiPolygon || model.T == gm.GeometryCollection
	if len(c.IDs) > 0 && !model.IsEmpty() {
		mismatch := !isColl || len(c.IDs) != len(model.Mem)
		if mismatch {
			cx.Class("expect=id-count-error")
			if err == nil {
				// non-collection types: the writer may also ignore the list, but then the output must decode
				if _, derr := geom.UnmarshalTWKB(b, geom.NoValidate{}); derr != nil || isColl {
					return h.Failf("twkb/id-mismatch-accepted", "MarshalTWKB accepted an ID list of %d entries for %s with %d members (decode error: %v)", len(c.IDs), model.T, len(model.Mem), derr)
				}
			}
			return nil
		}
	}
	if err != nil && len(c.IDs) > 0 && model.IsEmpty() {
		// a geometry without any ordinate cannot carry an ID list in TWKB; refusing is fine
		cx.Class("refused-idlist-on-empty")
		return nil
	}
	if err != nil {
		// refusing a MultiPoint that contains an empty Point is allowed
		if model.T == gm.MultiPoint || containsEmptyPointInMulti(model) {
			if containsEmptyPointInMulti(model) {
				cx.Class("refused-empty-point-in-multipoint")
				return nil
			}
		}
		return h.Failf("twkb/marshal-error", "MarshalTWKB(%s, %d) fails: %v", model, c.PrecXY, err)
	}

	// the returned bytes are the caller's: later encodings leave them alone
	{
		held := append([]byte(nil), b...)
		for _, other := range []geom.Geometry{dirty(model.T), g, dirty(gm.MultiPoint)} {
			geom.MarshalTWKB(other, c.PrecXY, opts...)
			geom.MarshalTWKB(other, 0)
		}
		if msg := scribbleStable("MarshalTWKB", func() []byte { r, _ := geom.MarshalTWKB(g, c.PrecXY, opts...); return r }); msg != "" {
			return h.Failf("twkb/result-shared", "%s (%s)", msg, model)
		}
		if !bytes.Equal(b, held) {
			return h.Failf("twkb/result-overwritten", "the bytes returned by MarshalTWKB changed after later MarshalTWKB calls:\nwas %x\nnow %x", held, b)
		}
	}
	node, rerr := codec.ReadTWKB(b)
	if rerr != nil {
		return h.Failf("twkb/independent-reader-error", "independent TWKB reader rejects the output for %s: %v\n%x", model, rerr, b)
	}
	if node.End != len(b) {
		return h.Failf("twkb/stray-bytes", "encoding of %s has %d bytes, the geometry ends at %d\n%x", model, len(b), node.End, b)
	}
	dec, err := geom.UnmarshalTWKB(b, geom.NoValidate{})
	if err != nil {
		return h.Failf("twkb/decode-error", "UnmarshalTWKB(MarshalTWKB(g)) fails for %s: %v\n%x", model, err, b)
	}
	got := gm.FromGeom(dec)
	st := &c07State{c: c, ct: model.CT, precs: c07Precs(c, model.CT)}
	if f := st.compare("top", model, node, got, true); f != nil {
		f.Msg += fmt.Sprintf("\ng = %s\nopts: precxy=%d precz=%d precm=%d size=%v bbox=%v close=%v ids=%v\ntwkb = %x\ndecoded = %s", model, c.PrecXY, c.PrecZ, c.PrecM, c.Size, c.BBox, c.Close, c.IDs, b, got)
		return f
	}
	if st.collapsed {
		cx.Class("ring-collapsed-by-rounding")
	}
	empty := model.IsEmpty()
	// on-grid geometries decode (with validation) to exactly g
	if !st.offgrid && !st.collapsed && !empty && !containsEmptyPointInMulti(model) {
		cx.Class("on-grid")
		v, err := geom.UnmarshalTWKB(b)
		if err != nil {
			if g.Validate() == nil {
				return h.Failf("twkb/validating-decode-error", "validating UnmarshalTWKB fails for an on-grid valid geometry %s: %v", model, err)
			}
		} else if d := gm.Diff(c07StripEmpties(negZeroToZero(model)), c07StripEmpties(negZeroToZero(gm.FromGeom(v)))); d != "" {
			return h.Failf("twkb/on-grid-not-identical", "on-grid geometry %s does not decode to itself: %s", model, d)
		}
	} else if st.offgrid {
		cx.Class("rounded")
	}

	// headers
	if !empty {
		if node.HasBBox != c.BBox {
			return h.Failf("twkb/bbox-flag", "bbox flag %v, requested %v", node.HasBBox, c.BBox)
		}
		if c.BBox && st.have {
			for k := range st.lo {
				if node.BBox[2*k] != st.lo[k] || node.BBox[2*k]+node.BBox[2*k+1] != st.hi[k] {
					return h.Failf("twkb/bbox-header", "bbox header dim %d = [%d, %d], the encoded integers span [%d, %d]\ng = %s\ntwkb = %x", k, node.BBox[2*k], node.BBox[2*k]+node.BBox[2*k+1], st.lo[k], st.hi[k], model, b)
				}
			}
		}
		wantIDs := len(c.IDs) > 0
		if node.HasIDs != wantIDs {
			return h.Failf("twkb/id-flag", "id-list flag %v, requested %v", node.HasIDs, wantIDs)
		}
		if wantIDs {
			if fmt.Sprint(node.IDs) != fmt.Sprint(c.IDs) {
				return h.Failf("twkb/id-list", "id list written %v, requested %v", node.IDs, c.IDs)
			}
		}
	}
	// header-only readers agree with the full decode
	sz, hasSz, err := geom.UnmarshalTWKBSize(b)
	if err != nil {
		return h.Failf("twkb/size-reader-error", "UnmarshalTWKBSize: %v", err)
	}
	if hasSz != node.HasSize || (hasSz && sz != len(b)) {
		return h.Failf("twkb/size-reader", "UnmarshalTWKBSize = %d,%v; encoding has %d bytes, size flag %v", sz, hasSz, len(b), node.HasSize)
	}
	ids, hasIDs, err := geom.UnmarshalTWKBIDList(b)
	if err != nil {
		return h.Failf("twkb/idlist-reader-error", "UnmarshalTWKBIDList: %v", err)
	}
	if hasIDs != node.HasIDs || (hasIDs && fmt.Sprint(ids) != fmt.Sprint(node.IDs)) {
		return h.Failf("twkb/idlist-reader", "UnmarshalTWKBIDList = %v,%v; encoding has %v,%v", ids, hasIDs, node.IDs, node.HasIDs)
	}
	env, hasEnv, err := geom.UnmarshalTWKBEnvelope(b)
	if err != nil {
		return h.Failf("twkb/envelope-reader-error", "UnmarshalTWKBEnvelope: %v", err)
	}
	if hasEnv != node.HasBBox {
		return h.Failf("twkb/envelope-reader-flag", "UnmarshalTWKBEnvelope has=%v, encoding bbox flag %v", hasEnv, node.HasBBox)
	}
	if hasEnv && !empty {
		if f := c07EnvelopeAgrees(env, dec, model.CT); f != nil {
			f.Msg += fmt.Sprintf("\ng = %s\ntwkb = %x", model, b)
			return f
		}
	}
	// concatenation: the size header splits a stream
	if c.Second != nil && c.Size && !empty {
		sg := c.Second.ToGeom()
		b2, err := geom.MarshalTWKB(sg, c.PrecXY, opts2(c)...)
		if err == nil {
			stream := append(append([]byte(nil), b...), b2...)
			n1, ok, err := geom.UnmarshalTWKBSize(stream)
			if err != nil || !ok || n1 != len(b) {
				return h.Failf("twkb/stream-split", "size of the first TWKB in a stream = %d,%v,%v, want %d", n1, ok, err, len(b))
			}
			first, err1 := geom.UnmarshalTWKB(stream[:n1], geom.NoValidate{})
			second, err2 := geom.UnmarshalTWKB(stream[n1:], geom.NoValidate{})
			if err1 != nil || err2 != nil {
				return h.Failf("twkb/stream-decode", "decoding split stream: %v / %v", err1, err2)
			}
			alone, _ := geom.UnmarshalTWKB(b2, geom.NoValidate{})
			if !bytes.Equal(first.AsBinary(), dec.AsBinary()) || !bytes.Equal(second.AsBinary(), alone.AsBinary()) {
				return h.Failf("twkb/stream-differs", "geometries decoded from a concatenated stream differ from those decoded alone")
			}
			// decoding the whole stream yields the first geometry (trailing data ignored)
			cx.Class("stream-split")
		}
	}

	nontrivial := (len(model.Mem) >= 2 || c.Size || c.BBox || len(c.IDs) > 0) && model.NumPositions() >= 2
	if nontrivial {
		cx.NonTrivial()
	}
	cx.Sample(map[string]interface{}{"g": clip(model.String(), 300), "precxy": c.PrecXY, "precz": c.PrecZ, "precm": c.PrecM, "size": c.Size, "bbox": c.BBox, "close": c.Close, "ids": c.IDs, "twkb": clip(hex.EncodeToString(b), 200)})
	return nil
}

func opts2(c C07Case) []geom.TWKBWriterOption {
	c.IDs = nil
	c.BBox = false
	return c07Opts(c)
}

func containsEmptyPointInMulti(g gm.G) bool {
	found := false
	g.Walk(func(n gm.G) {
		if n.T == gm.MultiPoint && len(n.Mem) > 0 {
			for _, m := range n.Mem {
				if len(m.Co) == 0 {
					found = true
				}
			}
		}
	})
	return found
}

// the bbox header must equal the envelope (and Z/M ranges) of the decoded geometry
func c07EnvelopeAgrees(env geom.ExtendedEnvelope, dec geom.Geometry, ct int) *h.Failure {
	want := dec.Envelope()
	wmin, wmax, ok := want.MinMaxXYs()
	gmin, gmax, ok2 := env.XYEnvelope.MinMaxXYs()
	if ok != ok2 || wmin != gmin || wmax != gmax {
		return h.Failf("twkb/envelope-reader-xy", "UnmarshalTWKBEnvelope XY = %v..%v, envelope of the decoded geometry = %v..%v", gmin, gmax, wmin, wmax)
	}
	seq := dec.DumpCoordinates()
	zmin, zmax, mmin, mmax := math.Inf(1), math.Inf(-1), math.Inf(1), math.Inf(-1)
	for i := 0; i < seq.Length(); i++ {
		c := seq.Get(i)
		zmin, zmax = math.Min(zmin, c.Z), math.Max(zmax, c.Z)
		mmin, mmax = math.Min(mmin, c.M), math.Max(mmax, c.M)
	}
	if ct&1 != 0 && seq.Length() > 0 {
		lo, hi, _ := env.ZRange.MinMax()
		if lo != zmin || hi != zmax {
			return h.Failf("twkb/envelope-reader-z", "UnmarshalTWKBEnvelope Z range = [%v,%v], decoded geometry has [%v,%v]", lo, hi, zmin, zmax)
		}
	}
	if ct&2 != 0 && seq.Length() > 0 {
		lo, hi, _ := env.MRange.MinMax()
		if lo != mmin || hi != mmax {
			return h.Failf("twkb/envelope-reader-m", "UnmarshalTWKBEnvelope M range = [%v,%v], decoded geometry has [%v,%v]", lo, hi, mmin, mmax)
		}
	}
	return nil
}

func TestC07(t *testing.T) {
	h.Run(t, h.Prop[C07Case]{
		ID:              "C07",
		WholeCheckLimit: 300 * time.Second,
		Rule:            "cases = a valid-by-construction geometry (7 types x 4 coordinate types, empty members, nested collections, zero values) with ordinates k/10^q (q 0..7, |k| < 2^40 and additionally |ordinate x 10^precision| < 2^52 so that float64 resolves the grid) x XY precision -8..7 x optional Z/M precisions 0..7 (plus out-of-range ones) x every subset of {size, bbox, id list (right length / wrong length), closed rings} x optionally a second geometry concatenated; oracles = exact rational rounding (either neighbour accepted within max(2^-20, 2^-51|scaled|) of a tie), an independent varint-level TWKB reader (integers, headers, sizes), nearest-float64 of K/10^p via math/big, envelope of the decoded geometry; non-trivial = (>= 2 members or a header option) and >= 2 positions",
		Assumptions:     []string{"independent TWKB reader (internal/codec/twkb.go) follows the TWKB specification", "math/big", "domain restricted to |ordinate x 10^p| < 2^52: beyond that float64 cannot resolve the grid and the int64 varint cannot hold the value"},
		Gen:             c07Gen,
		Check:           c07Check,
		Enumerate:       c07Enumerate,
	})
}

// c07Enumerate: counts that need more than one varint byte (128 and up, 16384 and up): points of a line, points
// of a MultiPoint, rings of a polygon, members of Multi* and collections, entries of an id list; integer ordinates.
func c07Enumerate(cx *h.Ctx, yield func(C07Case)) []string {
	sq := func(x0, y0, x1, y1 int) []gm.F {
		return gm.Fs(float64(x0), float64(y0), float64(x1), float64(y0), float64(x1), float64(y1), float64(x0), float64(y1), float64(x0), float64(y0))
	}
	for vi, k := range []int{127, 128, 129, 300, 16383, 16384, 16385} {
		var line []gm.F
		mpt, mls, mpg, gc := gm.G{T: gm.MultiPoint}, gm.G{T: gm.MultiLineString}, gm.G{T: gm.MultiPolygon}, gm.G{T: gm.GeometryCollection}
		poly := gm.G{T: gm.Polygon, Rings: [][]gm.F{sq(0, 0, 4*k, 4)}}
		for i := 0; i < k; i++ {
			x := float64(4 * i)
			line = append(line, gm.F(x), gm.F(float64(i%3)))
			mpt.Mem = append(mpt.Mem, gm.G{T: gm.Point, Co: gm.Fs(x, float64(i%5))})
			if k <= 300 {
				mls.Mem = append(mls.Mem, gm.G{T: gm.LineString, Co: gm.Fs(x, 0, x+2, 3)})
				mpg.Mem = append(mpg.Mem, gm.G{T: gm.Polygon, Rings: [][]gm.F{sq(4*i, 0, 4*i+2, 2)}})
				gc.Mem = append(gc.Mem, []gm.G{{T: gm.Point, Co: gm.Fs(x, 1)}, {T: gm.LineString, Co: gm.Fs(x, 2, x+1, 3)}}[i%2])
				if i > 0 {
					poly.Rings = append(poly.Rings, gm.Fs(x+1, 1, x+2, 1, x+1, 2, x+1, 1))
				}
			}
		}
		gs := []gm.G{{T: gm.LineString, Co: line}, mpt}
		if k <= 300 {
			gs = append(gs, mls, mpg, gc, poly)
		}
		for gi, g := range gs {
			c := C07Case{G: g, PrecXY: (vi + gi) % 3, PrecZ: -99, PrecM: -99, Size: (vi+gi)%2 == 0, BBox: gi%2 == 0, Close: gi%3 == 0}
			if n := len(g.Mem); n > 0 && (vi+gi)%2 == 1 {
				c.IDs = make([]int64, n)
				for j := range c.IDs {
					c.IDs[j] = int64(j*j) - 70
				}
			}
			yield(c)
		}
	}
	return []string{"lines and MultiPoints of 127..129, 300 and 16383..16385 points, Multi*/collections of 127..300 members and polygons of 127..300 rings, with and without size / bbox / id-list headers (counts and sizes that need 2 and 3 varint bytes)"}
}

package props

import (
	"math"

	"pgregory.net/rapid"

	"verif/internal/exact"
	"verif/internal/gm"
	"verif/internal/h"
)

// genFloatPair: the general-position float family.  Ordinates are arbitrary float64 values (random 52-bit
// mantissas), so - unlike on the lattice families and their dyadic affine images - the crossing points of
// the two operands are NOT representable: the library has to round the nodes it creates, and every
// orientation test runs on inexact products.  Shapes are small (the exact kernel pays for the bit length):
// points, polylines (which may cross themselves), star-shaped polygons with an optional hole, and
// multi/collection combinations of those, both operands placed in the same window so that proper crossings
// are the common case.  Validity and general position (clearance >= 1e-6 x magnitude) are decided exactly
// by the callers; near-degenerate draws are skipped and counted there.
// small: fewer vertices and members (C01 runs ten overlay operations and an exact arrangement per result on
// each pair; the kernel's cost grows with the bit length of the crossing points).
func genFloatPair(t *rapid.T, cx *h.Ctx, disjointMembers, small bool) PairCase {
	maxStar, maxLine, maxMem := 8, 5, 3
	if small {
		maxStar, maxLine, maxMem = 5, 3, 2
	}
	// window: origin (ox,oy), size s; magnitude = max(|o|, s)
	s := math.Ldexp(1+float64(rapid.IntRange(0, 1023).Draw(t, "smant"))/1024, rapid.IntRange(-20, 20).Draw(t, "sexp"))
	var ox, oy float64
	switch rapid.IntRange(0, 3).Draw(t, "origin") {
	case 0:
		ox, oy = -s/2, -s/2 // window straddles the axes: ordinates of both signs and every exponent
	case 1:
		ox, oy = s*float64(rapid.IntRange(-3000, 3000).Draw(t, "ox"))/1000, s*float64(rapid.IntRange(-3000, 3000).Draw(t, "oy"))/1000
	case 2:
		ox, oy = s*float64(rapid.IntRange(50000, 1000000).Draw(t, "oxfar"))/1000, -s*float64(rapid.IntRange(50000, 1000000).Draw(t, "oyfar"))/1000
	default:
		ox, oy = 0, 0
	}
	// u: a fraction of the window with absolute resolution 2^-53 (never a tiny non-zero value: products of
	// ordinate differences must neither underflow nor overflow, see DESIGN 8.5).  Mostly full 53-bit
	// mantissas (a drawn integer pushed through a multiplicative hash, so that it still shrinks to 0),
	// sometimes a short dyadic fraction.
	u := func(l string) float64 {
		k := rapid.Uint64().Draw(t, l)
		if k%3 == 0 {
			return float64((k/3)%1024) / 1024
		}
		return float64((k*0x9E3779B97F4A7C15)>>11) / (1 << 53)
	}
	pt := func(l string) (float64, float64) { return ox + s*u(l+"x"), oy + s*u(l+"y") }

	star := func(l string, cxp, cyp, r float64, hole bool) gm.G {
		n := rapid.IntRange(4, maxStar).Draw(t, l+"n")
		phase := 2 * math.Pi * u(l+"phase")
		ring := make([]gm.F, 0, 2*(n+1))
		rmin := math.Inf(1)
		for i := 0; i < n; i++ {
			th := phase + 2*math.Pi*(float64(i)+0.3*u(l+"jit"))/float64(n)
			ri := r * (0.55 + 0.45*u(l+"rad"))
			rmin = math.Min(rmin, ri)
			ring = append(ring, gm.F(cxp+ri*math.Cos(th)), gm.F(cyp+ri*math.Sin(th)))
		}
		ring = append(ring, ring[0], ring[1])
		if rapid.Bool().Draw(t, l+"cw") {
			ring = reverseFlat(ring, 2)
		}
		g := gm.G{T: gm.Polygon, Rings: [][]gm.F{ring}}
		if hole {
			// consecutive vertices are < 117 degrees apart, so the disc of radius rmin/2 is inside
			hr := 0.4 * rmin
			m := rapid.IntRange(3, 5).Draw(t, l+"hn")
			hp := 2 * math.Pi * u(l+"hphase")
			hring := make([]gm.F, 0, 2*(m+1))
			for i := 0; i < m; i++ {
				th := hp + 2*math.Pi*(float64(i)+0.3*u(l+"hjit"))/float64(m)
				ri := hr * (0.5 + 0.5*u(l+"hrad"))
				hring = append(hring, gm.F(cxp+ri*math.Cos(th)), gm.F(cyp+ri*math.Sin(th)))
			}
			hring = append(hring, hring[0], hring[1])
			g.Rings = append(g.Rings, hring)
		}
		return g
	}
	line := func(l string) gm.G {
		n := rapid.IntRange(2, maxLine).Draw(t, l+"n")
		co := make([]gm.F, 0, 2*n)
		for i := 0; i < n; i++ {
			x, y := pt(l + "p")
			co = append(co, gm.F(x), gm.F(y))
		}
		return gm.G{T: gm.LineString, Co: co}
	}
	point := func(l string) gm.G {
		x, y := pt(l)
		return gm.G{T: gm.Point, Co: gm.Fs(x, y)}
	}
	poly := func(l string) gm.G {
		x, y := pt(l + "c")
		return star(l, x, y, s*(0.15+0.35*u(l+"r")), !small && rapid.IntRange(0, 2).Draw(t, l+"hole") == 0 || small && rapid.IntRange(0, 5).Draw(t, l+"hole") == 0)
	}
	var shape func(l string, typ string, depth int) gm.G
	shape = func(l string, typ string, depth int) gm.G {
		switch typ {
		case gm.Point:
			return point(l)
		case gm.LineString:
			return line(l)
		case gm.Polygon:
			return poly(l)
		case gm.MultiPoint:
			n := rapid.IntRange(1, maxMem+1).Draw(t, l+"mn")
			g := gm.G{T: gm.MultiPoint}
			for i := 0; i < n; i++ {
				g.Mem = append(g.Mem, point(l+"m"))
			}
			return g
		case gm.MultiLineString:
			n := rapid.IntRange(1, maxMem).Draw(t, l+"mn")
			g := gm.G{T: gm.MultiLineString}
			for i := 0; i < n; i++ {
				g.Mem = append(g.Mem, line(l+"m"))
			}
			return g
		case gm.MultiPolygon:
			// two stars whose centres are further apart than the sum of their radii
			r := s * (0.1 + 0.1*u(l+"r"))
			x, y := pt(l + "c")
			ang := 2 * math.Pi * u(l+"ang")
			d := 2*r + s*(0.05+0.3*u(l+"gap"))
			g := gm.G{T: gm.MultiPolygon, Mem: []gm.G{star(l+"a", x, y, r, rapid.Bool().Draw(t, l+"ha"))}}
			if rapid.Bool().Draw(t, l+"two") {
				g.Mem = append(g.Mem, star(l+"b", x+d*math.Cos(ang), y+d*math.Sin(ang), r, false))
			}
			return g
		default:
			g := gm.G{T: gm.GeometryCollection}
			if disjointMembers || depth > 0 {
				// one areal and one far-away puntal member: disjoint by construction
				r := s * 0.2
				x, y := pt(l + "c")
				g.Mem = []gm.G{star(l+"a", x, y, r, false), {T: gm.Point, Co: gm.Fs(x+3*r, y+r*u(l+"py"))}}
				return g
			}
			n := rapid.IntRange(1, maxMem).Draw(t, l+"gn")
			for i := 0; i < n; i++ {
				mt := rapid.SampledFrom([]string{gm.Point, gm.LineString, gm.Polygon, gm.MultiLineString, gm.GeometryCollection}).Draw(t, l+"gt")
				g.Mem = append(g.Mem, shape(l+"g", mt, depth+1))
			}
			return g
		}
	}
	ta := rapid.SampledFrom(gm.Types).Draw(t, "ftypeA")
	tb := rapid.SampledFrom(gm.Types).Draw(t, "ftypeB")
	// Soundness under shrinking: degenerate draws (all mantissas equal: a two-point line of zero length, a
	// collapsed star) are not valid geometries; the exact validity oracle decides, and an invalid operand
	// is replaced by a point.
	a, b := shape("A", ta, 0), shape("B", tb, 0)
	if exact.Valid(a) != nil {
		a = gm.G{T: gm.Point, Co: gm.Fs(ox, oy)}
	}
	if exact.Valid(b) != nil {
		b = gm.G{T: gm.Point, Co: gm.Fs(ox+s, oy)}
	}
	return PairCase{A: a, B: b, Family: "general+float"}
}

// genConcurrentPair: three to fourteen integer-endpoint segments that all pass through one common point P = (a/q, b/q)
// which is NOT a lattice point: exactly concurrent edges whose pairwise crossing points, computed separately
// in float64, differ in the last bits and have to be merged into one node.  q odd (3..13): P is not
// representable; q a power of two: P is a dyadic point, i.e. it sits exactly on the boundary of the
// power-of-two sized node buckets, so that the rounded crossings fall on both sides of it.  The segments are split
// between the two operands (some in both); optionally one operand also carries a polygon around P or a point.
// Endpoints: A_i a random lattice point, B_i a lattice point of the ray from A_i through P beyond P; |c| <= 1024.
func genConcurrentPair(t *rapid.T, disjointMembers bool) PairCase {
	q := rapid.SampledFrom([]int{2, 2, 4, 4, 8, 16, 64, 3, 5, 7, 11, 13}).Draw(t, "cq")
	a := rapid.IntRange(-300*q, 300*q).Draw(t, "ca")
	b := rapid.IntRange(-300*q, 300*q).Draw(t, "cb")
	if a%q == 0 && b%q == 0 {
		a++ // keep P off the lattice
	}
	n := rapid.IntRange(3, 14).Draw(t, "cn") // many lines: each further crossing point is another chance to land in a neighbouring node bucket
	type seg struct{ ax, ay, bx, by int }
	var segs []seg
	for i := 0; i < n; i++ {
		w := min(300, 1000/q) // start points near P, or the primitive step towards P is too long for |c| <= 1024
		ax, ay := a/q+rapid.IntRange(-w, w).Draw(t, "cax"), b/q+rapid.IntRange(-w, w).Draw(t, "cay")
		dx, dy := a-q*ax, b-q*ay
		if dx == 0 && dy == 0 {
			continue
		}
		// the line from A towards P continues in primitive integer steps (u,v); P is reached after g/q steps,
		// which is not an integer in general, and B is any later lattice point: the parameter of P on the
		// segment, g/(q j), is a generic rational
		g := gcdInt(absInt(dx), absInt(dy))
		u, v := dx/g, dy/g
		j := g/q + 1 + rapid.IntRange(0, 40).Draw(t, "cj")
		for j > g/q+1 && (absInt(ax+j*u) > 1024 || absInt(ay+j*v) > 1024) {
			j--
		}
		if absInt(ax+j*u) > 1024 || absInt(ay+j*v) > 1024 {
			continue
		}
		segs = append(segs, seg{ax, ay, ax + j*u, ay + j*v})
	}
	line := func(s seg) gm.G {
		return gm.G{T: gm.LineString, Co: gm.Fs(float64(s.ax), float64(s.ay), float64(s.bx), float64(s.by))}
	}
	var la, lb []gm.G
	for _, s := range segs {
		switch rapid.IntRange(0, 4).Draw(t, "cside") {
		case 0, 1:
			la = append(la, line(s))
		case 2, 3:
			lb = append(lb, line(s))
		default:
			la, lb = append(la, line(s)), append(lb, line(s))
		}
	}
	mk := func(ls []gm.G, l string) gm.G {
		switch {
		case len(ls) == 0:
			return gm.G{T: gm.Point, Co: gm.Fs(float64(rapid.IntRange(-3, 3).Draw(t, l+"px")), float64(rapid.IntRange(-3, 3).Draw(t, l+"py")))}
		case len(ls) == 1 && rapid.Bool().Draw(t, l+"single"):
			return ls[0]
		}
		g := gm.G{T: gm.MultiLineString, Mem: ls}
		// members of a collection must be pairwise disjoint for C02: concurrent lines are not, so no collection there
		if !disjointMembers && rapid.IntRange(0, 3).Draw(t, l+"poly") == 0 {
			r := float64(rapid.IntRange(4, 9).Draw(t, l+"r"))
			sq := gm.G{T: gm.Polygon, Rings: [][]gm.F{gm.Fs(-r, -r, r, -r, r, r, -r, r, -r, -r)}}
			return gm.G{T: gm.GeometryCollection, Mem: []gm.G{g, sq}}
		}
		return g
	}
	return PairCase{A: mk(la, "A"), B: mk(lb, "B"), Family: "concurrent"}
}

func gcdInt(a, b int) int {
	for b != 0 {
		a, b = b, a%b
	}
	if a == 0 {
		return 1
	}
	return a
}

package props

import (
	"fmt"
	"math"
	"sort"
	"testing"

	"github.com/peterstace/simplefeatures/geom"
	"pgregory.net/rapid"

	"verif/internal/exact"
	"verif/internal/gm"
	"verif/internal/h"
)

// ---------- C15: Boundary and PointOnSurface are consistent with the interior/boundary model ----------

type C15Case struct {
	OneCase
}

func c15Gen(t *rapid.T, cx *h.Ctx) C15Case { return C15Case{OneCase: genOne(t, cx, true)} }

func structuralDim(g gm.G) int {
	g = g.Norm()
	switch g.T {
	case gm.Point, gm.MultiPoint:
		return 0
	case gm.LineString, gm.MultiLineString:
		return 1
	case gm.Polygon, gm.MultiPolygon:
		return 2
	}
	d := 0
	for _, m := range g.Mem {
		if md := structuralDim(m); md > d {
			d = md
		}
	}
	return d
}

// definitional boundary of a non-collection geometry: end points (mod-2) or ring segments
func defBoundaryPoints(part exact.Part) []string {
	cnt := map[string]int{}
	for _, l := range part.Lines {
		if l[0].Eq(l[len(l)-1]) {
			continue
		}
		cnt[l[0].Key()]++
		cnt[l[len(l)-1].Key()]++
	}
	var out []string
	for k, n := range cnt {
		if n%2 == 1 {
			out = append(out, k)
		}
	}
	sort.Strings(out)
	return out
}

func segKeys(segs []exact.Seg) []string {
	var out []string
	for _, s := range segs {
		a, b := s.A, s.B
		if a.Eq(b) {
			continue
		}
		if a.Cmp(b) > 0 {
			a, b = b, a
		}
		out = append(out, a.Key()+"|"+b.Key())
	}
	sort.Strings(out)
	return out
}

func c15Check(c C15Case, cx *h.Ctx) *h.Failure {
	model := c.G.Norm()
	eg := exact.MustFromModel(model)
	g := model.ToGeom()
	cx.Class("type=" + model.T)
	cx.Class("family=" + c.Family)
	if c.Shape != "" {
		cx.Class("shape=" + c.Shape)
	}
	desc := func() string { return "\ng = " + clip(model.String(), 700) }

	// Dimension / IsEmpty agree with the structure
	if g.Dimension() != structuralDim(model) {
		return h.Failf("boundary/dimension", "Dimension() = %d, structure says %d%s", g.Dimension(), structuralDim(model), desc())
	}
	if g.IsEmpty() != model.IsEmpty() {
		return h.Failf("boundary/isempty", "IsEmpty() = %v, structure says %v%s", g.IsEmpty(), model.IsEmpty(), desc())
	}

	b := g.Boundary()
	bm := gm.FromGeom(b)
	if err := b.Validate(); err != nil && c.Family == "lattice" {
		return h.Failf("boundary/invalid", "Boundary() is not valid: %v%s", err, desc())
	}
	eb := exact.MustFromModel(bm)
	// dimension one lower (or empty)
	topDim := eg.Dim()
	if !eb.IsEmpty() {
		if eb.Dim() >= topDim && model.T != gm.GeometryCollection {
			return h.Failf("boundary/dimension-not-lower", "Boundary() has dimension %d for a geometry of dimension %d\nboundary = %s%s", eb.Dim(), topDim, clip(bm.String(), 300), desc())
		}
	}
	if topDim <= 0 && !eb.IsEmpty() {
		return h.Failf("boundary/of-points-not-empty", "Boundary() of a point geometry is %s%s", clip(bm.String(), 300), desc())
	}
	// boundary of the boundary is empty
	if bb := b.Boundary(); !bb.IsEmpty() {
		return h.Failf("boundary/of-boundary-not-empty", "Boundary().Boundary() = %s%s", clip(bb.AsText(), 300), desc())
	}
	// every point of the boundary relates to g as boundary
	for _, v := range eb.Vertices() {
		if l := exact.Locate(v, eg); l != exact.Boundary {
			return h.Failf("boundary/vertex-not-on-boundary", "Boundary() vertex %s is located %s in g\nboundary = %s%s", v, exact.LocName(l), clip(bm.String(), 300), desc())
		}
	}
	for _, s := range eb.Segs() {
		m := exact.Mid(s.A, s.B)
		if l := exact.Locate(m, eg); l != exact.Boundary {
			return h.Failf("boundary/segment-not-on-boundary", "midpoint %s of a Boundary() segment is located %s in g\nboundary = %s%s", m, exact.LocName(l), clip(bm.String(), 300), desc())
		}
	}
	// exactly the definitional boundary: per non-collection part
	var wantPts, wantSegs []string
	for _, p := range eg.Parts {
		switch p.Kind {
		case 1:
			wantPts = append(wantPts, defBoundaryPoints(p)...)
		case 2:
			wantSegs = append(wantSegs, segKeys(exact.Geom{Parts: []exact.Part{p}}.Segs())...)
		}
	}
	sort.Strings(wantPts)
	sort.Strings(wantSegs)
	var gotPts []string
	for _, p := range eb.AllPoints() {
		gotPts = append(gotPts, p.Key())
	}
	sort.Strings(gotPts)
	if fmt.Sprint(gotPts) != fmt.Sprint(wantPts) {
		return h.Failf("boundary/endpoints", "Boundary() points %v, the odd-degree end points are %v\nboundary = %s%s", gotPts, wantPts, clip(bm.String(), 300), desc())
	}
	if got := segKeys(eb.Segs()); fmt.Sprint(got) != fmt.Sprint(wantSegs) {
		return h.Failf("boundary/rings", "Boundary() segments differ from the rings of g (%d vs %d segments)\nboundary = %s%s", len(got), len(wantSegs), clip(bm.String(), 300), desc())
	}
	// collection: members' non-empty boundaries, in order
	if model.T == gm.GeometryCollection && !model.IsEmpty() {
		if bm.T != gm.GeometryCollection {
			return h.Failf("boundary/collection-type", "Boundary() of a collection is a %s%s", bm.T, desc())
		}
		var want []gm.G
		for _, m := range model.Mem {
			mb := m.ToGeom().Boundary()
			if !mb.IsEmpty() {
				want = append(want, gm.FromGeom(mb.Force2D()))
			}
		}
		if len(want) != len(bm.Mem) {
			return h.Failf("boundary/collection-members", "Boundary() of the collection has %d members, %d members have a non-empty boundary%s", len(bm.Mem), len(want), desc())
		}
		for i := range want {
			if d := gm.Diff(want[i], bm.Mem[i]); d != "" {
				return h.Failf("boundary/collection-member-differs", "member %d of the collection's boundary differs from that member's own boundary: %s%s", i, d, desc())
			}
		}
	}

	// PointOnSurface
	pos := g.PointOnSurface()
	if pos.IsEmpty() != model.IsEmpty() {
		return h.Failf("pos/empty", "PointOnSurface() empty=%v for a geometry with empty=%v%s", pos.IsEmpty(), model.IsEmpty(), desc())
	}
	nontrivial := false
	if xy, ok := pos.XY(); ok {
		if math.IsNaN(xy.X) || math.IsInf(xy.X, 0) || math.IsNaN(xy.Y) || math.IsInf(xy.Y, 0) {
			return h.Failf("pos/not-finite", "PointOnSurface() = %v%s", xy, desc())
		}
		p := exact.P(xy.X, xy.Y)
		// restrict to the members of the highest dimension
		top := exact.Geom{}
		for _, part := range eg.Parts {
			if part.Kind == topDim && len(part.Points)+len(part.Lines)+len(part.Polys) > 0 {
				top.Parts = append(top.Parts, part)
			}
		}
		loc := exact.Locate(p, top)
		switch {
		case topDim == 2 && loc != exact.Interior:
			// float family: the point is computed in floats; allow it if it is inside within rounding
			if c.Family == "float" && loc == exact.Boundary {
				cx.Skip("pos_on_boundary_float_family")
			} else {
				return h.Failf("pos/not-interior", "PointOnSurface() = %v is located %s in the areal part%s", xy, exact.LocName(loc), desc())
			}
		case topDim < 2 && loc == exact.Exterior:
			if c.Family == "float" && topDim == 1 {
				// a point on a float line is generally not exactly on it: check the distance
				d := math.Sqrt(exact.RatFloat(exact.GeomDist2(exact.Geom{Parts: []exact.Part{{Kind: 0, Points: []exact.Pt{p}}}}, top)))
				if d > 1e-9*magnitudeOf(model) {
					return h.Failf("pos/off-geometry", "PointOnSurface() = %v is %g away from the geometry%s", xy, d, desc())
				}
			} else {
				return h.Failf("pos/off-geometry", "PointOnSurface() = %v does not lie on a member of the highest dimension (%d)%s", xy, topDim, desc())
			}
		}
		if pos.CoordinatesType() != geom.DimXY {
			return h.Failf("pos/ctype", "PointOnSurface() has coordinate type %s%s", pos.CoordinatesType(), desc())
		}
		// non-trivial: areal with a vertex on the row through the point; lineal with shared end points; collection with an empty member
		if topDim == 2 {
			for _, v := range top.Vertices() {
				if v.Y.Cmp(p.Y) == 0 {
					nontrivial = true
				}
			}
		}
	}
	if topDim == 1 {
		for _, part := range eg.Parts {
			if part.Kind == 1 && len(part.Lines) >= 2 {
				nontrivial = true
			}
		}
	}
	if hasEmptyMember(model) || len(wantSegs) > 4 {
		nontrivial = true
	}
	// boundary and point on surface are functions of the XY point set: the same geometry carrying Z, M or ZM payload
	// (every position its own values, so coincident end points differ in Z/M) has the same boundary in XY and
	// the same point on surface (the coordinate type of the boundary itself is not part of the property)
	if model.CT == 0 {
		for lct := 1; lct <= 3; lct++ {
			lg := c16TagWith(forceCT(model, lct), lct != 2).ToGeom()
			lb := lg.Boundary()
			if d := gm.Diff(bm, gm.FromGeom(lb.Force2D())); d != "" {
				return h.Failf("boundary/zm-dependent", "Boundary() of the same XY geometry with %s payload differs in XY: %s\nXY boundary %s\nwith payload %s%s", gm.CTName(lct), d, clip(bm.String(), 300), clip(lb.AsText(), 300), desc())
			}
			if lp := lg.PointOnSurface(); lp.AsText() != pos.AsText() {
				return h.Failf("pos/zm-dependent", "PointOnSurface() of the same XY geometry with %s payload is %s, not %s%s", gm.CTName(lct), lp.AsText(), pos.AsText(), desc())
			}
			if lg.Dimension() != g.Dimension() || lg.IsEmpty() != g.IsEmpty() {
				return h.Failf("boundary/zm-dependent", "Dimension/IsEmpty change with %s payload%s", gm.CTName(lct), desc())
			}
		}
	}
	if nontrivial {
		cx.NonTrivial()
	}
	cx.Sample(map[string]interface{}{"g": clip(model.String(), 250), "boundary": clip(bm.String(), 200), "point_on_surface": pos.AsText()})
	return nil
}

func TestC15(t *testing.T) {
	h.Run(t, h.Prop[C15Case]{
		ID:          "C15",
		Rule:        "cases = one valid geometry of any type from the C14 generator (triangulated integer grids under an injective integer map; 1 in 4 pushed through a float affine map): polygons with holes touching the shell and each other, narrow/concave shapes, closed and self-touching lines, MultiLineStrings sharing end points several ways, collections (pairwise disjoint members) with empty members. Checks: Dimension/IsEmpty = structural values; Boundary(g): dimension one lower or empty, empty for points, Boundary(Boundary(g)) empty, every vertex and segment midpoint of it is located B in g by the exact OGC locator, its points are exactly the odd-degree end points and its segments exactly the ring segments of g (as exact sets), a collection's boundary is the ordered list of its members' non-empty boundaries; PointOnSurface(g): empty iff g is, finite, XY, exactly Interior for areal g and on a member of the highest dimension otherwise. non-trivial = areal with a vertex on the row of the returned point, or lineal with >= 2 lines, or an empty member, or > 4 boundary segments",
		Assumptions: []string{"exact kernel (internal/exact)", "float family: a returned point may sit on the boundary / within 1e-9 x magnitude of a line because the geometry itself is rounded (counted)"},
		Gen:         c15Gen,
		Check:       c15Check,
		Enumerate:   c15Enumerate,
	})
}

// c15Enumerate: MultiLineStrings in which one end point is shared by many
// lines (a star of k spokes from one hub; k around 128 and 256): the hub
// belongs to the boundary exactly when k is odd.
func c15Enumerate(cx *h.Ctx, yield func(C15Case)) []string {
	for _, k := range []int{64, 127, 128, 129, 130, 255, 256, 257} {
		for variant := 0; variant < 3; variant++ {
			var lines []gm.G
			for i := 0; i < k; i++ {
				// distinct primitive directions: (i+1, 1) in alternating quadrants
				x, y := float64(i+1), 1.0
				if i%2 == 1 {
					x, y = -x, -1
				}
				co := gm.Fs(5, 7, 5+x, 7+y)
				if variant == 1 && i%3 == 0 {
					co = gm.Fs(5+x, 7+y, 5, 7) // some spokes run inwards
				}
				lines = append(lines, gm.G{T: gm.LineString, Co: co})
			}
			g := gm.G{T: gm.MultiLineString, Mem: lines}
			if variant == 2 {
				g = gm.G{T: gm.GeometryCollection, Mem: []gm.G{{T: gm.Point, Co: gm.Fs(-900, -900)}, g}}
			}
			yield(C15Case{OneCase{G: g, Family: "lattice", Shape: "star", Aff: [6]float64{1, 0, 0, 0, 1, 0}}})
		}
	}
	return []string{"stars of 64, 127..130 and 255..257 lines sharing one end point (MultiLineString, spokes in either direction, as a collection member)"}
}

var _ = rapid.Bool

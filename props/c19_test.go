package props

import (
	"fmt"
	"math"
	"testing"
	"time"

	"github.com/peterstace/simplefeatures/carto"
	"github.com/peterstace/simplefeatures/geom"
	"pgregory.net/rapid"

	"verif/internal/h"
)

// ---------- C19: map projections invert exactly and have the geometric character they claim ----------

type C19Case struct {
	Proj   string       `json:"proj"`
	Radius float64      `json:"radius"`
	Lon0   float64      `json:"lon0"`
	Lat0   float64      `json:"lat0"`
	P1     float64      `json:"p1"`
	P2     float64      `json:"p2"`
	Zoom   int          `json:"zoom"`
	Pts    [][2]float64 `json:"pts"` // lon, lat
	// Order: 0 origin/centre first then parallels, 1 parallels first, 2 both set to other values first and
	// then re-set (re-configuration must leave no stale state), 4 / 5 the projection is used between two
	// configurations that share the parallels / the origin.  Omit: bit 0 = the origin/centre/meridian
	// setter is not called (the case then uses the default (0,0)), bit 1 = the standard-parallel setter is
	// not called (only where the default is documented: Albers 30/60, equirectangular equator).
	Order int `json:"order,omitempty"`
	Omit  int `json:"omit,omitempty"`
}

var c19Projs = []string{"albers", "azimuthal", "equidistantconic", "equirectangular", "lambertconformal", "lambertcylindrical", "orthographic", "sinusoidal", "webmercator"}

type c19Projection interface {
	Forward(geom.XY) geom.XY
	Reverse(geom.XY) geom.XY
}

func c19Build(c C19Case) c19Projection {
	o := geom.XY{X: c.Lon0, Y: c.Lat0}
	other := geom.XY{X: c.Lon0/2 + 17, Y: -c.Lat0/2 + 11}
	// configure runs the two setters in the drawn order, optionally after setting other values first, and
	// leaves out the ones the case omits
	var proj c19Projection
	use := func() {
		// the projection is used under the intermediate configuration (results not examined)
		q := proj.Forward(geom.XY{X: other.X + 3, Y: other.Y - 2})
		proj.Reverse(q)
	}
	configure := func(origin func(geom.XY), parallels func(p1, p2 float64)) {
		steps := []func(){}
		so := func() {
			if origin != nil && c.Omit&1 == 0 {
				origin(o)
			}
		}
		sp := func() {
			if parallels != nil && c.Omit&2 == 0 {
				parallels(c.P1, c.P2)
			}
		}
		switch c.Order {
		case 1:
			steps = append(steps, sp, so)
		case 2:
			steps = append(steps, func() {
				if origin != nil && c.Omit&1 == 0 {
					origin(other)
				}
				if parallels != nil && c.Omit&2 == 0 {
					parallels(c.P2/2+20, c.P1/3-35)
				}
			}, sp, so)
		case 4:
			// used between two configurations that share the parallels: final parallels, another origin, use, final origin
			steps = append(steps, sp, func() {
				if origin != nil && c.Omit&1 == 0 {
					origin(other)
				}
			}, use, so)
		case 5:
			// ... that share the origin: final origin, other parallels, use, final parallels
			steps = append(steps, so, func() {
				if parallels != nil && c.Omit&2 == 0 {
					parallels(c.P2/2+20, c.P1/3-35)
				}
			}, use, sp)
		default:
			steps = append(steps, so, sp)
		}
		for _, st := range steps {
			st()
		}
	}
	switch c.Proj {
	case "albers":
		p := carto.NewAlbersEqualAreaConic(c.Radius)
		proj = p
		configure(p.SetOrigin, p.SetStandardParallels)
		return p
	case "azimuthal":
		p := carto.NewAzimuthalEquidistant(c.Radius)
		proj = p
		configure(p.SetCenter, nil)
		return p
	case "equidistantconic":
		p := carto.NewEquidistantConic(c.Radius)
		proj = p
		configure(func(o geom.XY) { p.SetOrigin(o) }, func(a, b float64) { p.SetStandardParallels(a, b) })
		return p
	case "equirectangular":
		p := carto.NewEquirectangular(c.Radius)
		proj = p
		configure(func(o geom.XY) { p.SetCentralMeridian(o.X) }, func(a, _ float64) { p.SetStandardParallels(a) })
		return p
	case "lambertconformal":
		p := carto.NewLambertConformalConic(c.Radius)
		proj = p
		configure(p.SetOrigin, p.SetStandardParallels)
		return p
	case "lambertcylindrical":
		p := carto.NewLambertCylindricalEqualArea(c.Radius)
		proj = p
		configure(func(o geom.XY) { p.SetCentralMeridian(o.X) }, nil)
		return p
	case "orthographic":
		p := carto.NewOrthographic(c.Radius)
		proj = p
		configure(p.SetCenter, nil)
		return p
	case "sinusoidal":
		p := carto.NewSinusoidal(c.Radius)
		proj = p
		configure(func(o geom.XY) { p.SetCentralMeridian(o.X) }, nil)
		return p
	default:
		return carto.NewWebMercator(c.Zoom)
	}
}

func d2r(d float64) float64 { return d * math.Pi / 180 }

// great-circle angle (radians) between two lon/lat points, numerically stable
func gcAngle(lon1, lat1, lon2, lat2 float64) float64 {
	p1, p2, dl := d2r(lat1), d2r(lat2), d2r(lon2-lon1)
	a := math.Cos(p2) * math.Sin(dl)
	b := math.Cos(p1)*math.Sin(p2) - math.Sin(p1)*math.Cos(p2)*math.Cos(dl)
	c := math.Sin(p1)*math.Sin(p2) + math.Cos(p1)*math.Cos(p2)*math.Cos(dl)
	return math.Atan2(math.Hypot(a, b), c)
}

// cone constant of each conic
func c19ConeConstant(c C19Case) float64 {
	p1, p2 := d2r(c.P1), d2r(c.P2)
	switch c.Proj {
	case "albers":
		return (math.Sin(p1) + math.Sin(p2)) / 2
	case "equidistantconic":
		return (math.Cos(p1) - math.Cos(p2)) / (p2 - p1)
	case "lambertconformal":
		return math.Log(math.Cos(p1)/math.Cos(p2)) / math.Log(math.Tan(math.Pi/4+p2/2)/math.Tan(math.Pi/4+p1/2))
	}
	return 1
}

func isConic(p string) bool {
	return p == "albers" || p == "equidistantconic" || p == "lambertconformal"
}

func c19Gen(t *rapid.T, cx *h.Ctx) C19Case {
	c := C19Case{Proj: rapid.SampledFrom(c19Projs).Draw(t, "proj")}
	c.Radius = rapid.SampledFrom([]float64{1, carto.WGS84EllipsoidMeanRadiusM, carto.WGS84EllipsoidEquatorialRadiusM, 6371}).Draw(t, "radius")
	c.Lon0 = float64(rapid.IntRange(-180, 180).Draw(t, "lon0"))
	c.Lat0 = float64(rapid.IntRange(-80, 80).Draw(t, "lat0"))
	if rapid.IntRange(0, 3).Draw(t, "fraclon") == 0 {
		c.Lon0 += rapid.Float64Range(-0.5, 0.5).Draw(t, "lon0f")
		c.Lat0 += rapid.Float64Range(-0.5, 0.5).Draw(t, "lat0f")
	}
	if rapid.IntRange(0, 5).Draw(t, "defaultcentre") == 0 {
		c.Lon0, c.Lat0 = 0, 0
	}
	// polar aspects (centre exactly on a pole) and near-polar centres for the azimuthal projections
	if (c.Proj == "azimuthal" || c.Proj == "orthographic") && rapid.IntRange(0, 5).Draw(t, "polar") == 0 {
		c.Lat0 = rapid.SampledFrom([]float64{90, -90, 89.5, -89.5, 85, -85}).Draw(t, "polelat")
	}
	// standard parallels: both hemispheres and orders, not symmetric (cone constant 0), not equal
	for {
		c.P1 = float64(rapid.IntRange(-75, 75).Draw(t, "p1"))
		c.P2 = float64(rapid.IntRange(-75, 75).Draw(t, "p2"))
		if math.Abs(c.P1-c.P2) >= 5 && math.Abs(c.P1+c.P2) >= 10 {
			break
		}
	}
	if c.Proj == "equirectangular" {
		c.P1 = float64(rapid.IntRange(-80, 80).Draw(t, "eqp1"))
	}
	c.Zoom = rapid.IntRange(0, 30).Draw(t, "zoom")
	// configuration history: setter order, re-configuration, setters left at their documented defaults
	c.Order = rapid.SampledFrom([]int{0, 1, 2, 4, 5}).Draw(t, "order")
	c.Omit = rapid.SampledFrom([]int{0, 0, 0, 1, 2, 3}).Draw(t, "omit")
	if c.Omit&2 != 0 {
		switch c.Proj {
		case "albers":
			c.P1, c.P2 = 30, 60 // "The standard parallels are set to 30 and 60 degrees north"
		case "equirectangular":
			c.P1 = 0 // equator
		default:
			c.Omit &^= 2
		}
	}
	if c.Omit&1 != 0 {
		c.Lon0, c.Lat0 = 0, 0
	}
	n := c19ConeConstant(c)
	// points: graticule points, random points, the centre/origin, points on the standard parallels
	np := rapid.IntRange(4, 16).Draw(t, "npts")
	for len(c.Pts) < np {
		var lon, lat float64
		switch rapid.IntRange(0, 5).Draw(t, "ptkind") {
		case 0:
			lon, lat = c.Lon0, c.Lat0
		case 1:
			lon, lat = c.Lon0+float64(rapid.IntRange(-60, 60).Draw(t, "dlon")), c.P1
		case 2:
			lon, lat = c.Lon0+float64(rapid.IntRange(-60, 60).Draw(t, "dlon")), c.P2
		case 3:
			lon, lat = float64(rapid.IntRange(-180, 180).Draw(t, "glon")), float64(rapid.IntRange(-85, 85).Draw(t, "glat"))
		default:
			lon, lat = rapid.Float64Range(-180, 180).Draw(t, "rlon"), rapid.Float64Range(-85, 85).Draw(t, "rlat")
		}
		if !c19InDomain(c, n, lon, lat) {
			// pull the point towards the centre until it is in the domain (keeps the draw count bounded)
			lon, lat = c.Lon0+(lon-c.Lon0)*0.3, c.Lat0+(lat-c.Lat0)*0.3
			if !c19InDomain(c, n, lon, lat) {
				lon, lat = c.Lon0, c.Lat0
				if !c19InDomain(c, n, lon, lat) {
					lon, lat = c.Lon0, (c.P1+c.P2)/2
				}
			}
		}
		c.Pts = append(c.Pts, [2]float64{lon, lat})
	}
	return c
}

// c19InDomain: the well-conditioned one-to-one domain of each implementation.
func c19InDomain(c C19Case, n, lon, lat float64) bool {
	if (c.Proj == "azimuthal" || c.Proj == "orthographic") && lon == c.Lon0 && lat == c.Lat0 {
		return true // the centre itself, also when it is a pole
	}
	if math.Abs(lat) > 85 {
		return false
	}
	dl := lon - c.Lon0
	switch c.Proj {
	case "azimuthal", "orthographic":
		return gcAngle(c.Lon0, c.Lat0, lon, lat) <= d2r(60)
	case "albers", "equidistantconic", "lambertconformal":
		return math.Abs(n*dl) < 89 && math.Abs(dl) <= 180
	case "webmercator":
		return lon >= -180 && lon <= 180
	default:
		return math.Abs(dl) <= 180
	}
}

func c19Check(c C19Case, cx *h.Ctx) *h.Failure {
	p := c19Build(c)
	cx.Class("proj=" + c.Proj)
	n := c19ConeConstant(c)
	R := c.Radius
	if c.Proj == "webmercator" {
		R = 1
	}
	desc := func() string {
		return fmt.Sprintf("\nprojection %s radius=%v origin/centre=(%v %v) standard parallels=(%v %v) zoom=%d", c.Proj, c.Radius, c.Lon0, c.Lat0, c.P1, c.P2, c.Zoom)
	}
	for _, pt := range c.Pts {
		lon, lat := pt[0], pt[1]
		if !c19InDomain(c, n, lon, lat) {
			cx.Skip("point_outside_domain")
			continue
		}
		in := geom.XY{X: lon, Y: lat}
		f := p.Forward(in)
		if math.IsNaN(f.X) || math.IsNaN(f.Y) || math.IsInf(f.X, 0) || math.IsInf(f.Y, 0) {
			return h.Failf("proj/forward-not-finite", "Forward(%v %v) = (%v %v)%s", lon, lat, f.X, f.Y, desc())
		}
		back := p.Reverse(f)
		dlon := math.Mod(back.X-lon+540, 360) - 180
		dlat := back.Y - lat
		atPole := math.Abs(lat) == 90
		if atPole {
			dlon = 0 // every longitude names the pole
		}
		if !(math.Abs(dlon) <= 1e-9) || !(math.Abs(dlat) <= 1e-9) {
			cls := "proj/roundtrip"
			if lon == c.Lon0 && lat == c.Lat0 {
				cls = "proj/roundtrip-at-centre"
			}
			return h.Failf(cls+":"+c.Proj, "Reverse(Forward(%v %v)) = (%v %v): off by (%g, %g) degrees%s", lon, lat, back.X, back.Y, dlon, dlat, desc())
		}
		if atPole {
			if math.Hypot(f.X, f.Y) > 1e-9*R {
				return h.Failf("proj/centre-not-origin:"+c.Proj, "Forward of the polar centre (%v %v) = (%g %g), want (0 0)%s", lon, lat, f.X, f.Y, desc())
			}
			cx.Class("at-polar-centre")
			continue // no Jacobian in lon/lat at a pole
		}
		// Jacobian by central differences (per radian)
		hd := 1e-4 // degrees: large enough that rounding in x,y (cancellation in conics with a small cone constant) stays below 1e-8 relative
		fx1, fx0 := p.Forward(geom.XY{X: lon + hd, Y: lat}), p.Forward(geom.XY{X: lon - hd, Y: lat})
		fy1, fy0 := p.Forward(geom.XY{X: lon, Y: lat + hd}), p.Forward(geom.XY{X: lon, Y: lat - hd})
		k := 180 / math.Pi / (2 * hd)
		ax, ay := (fx1.X-fx0.X)*k, (fx1.Y-fx0.Y)*k // d/dlambda
		bx, by := (fy1.X-fy0.X)*k, (fy1.Y-fy0.Y)*k // d/dphi
		cosφ := math.Cos(d2r(lat))
		scale := R
		if c.Proj == "webmercator" {
			scale = float64(int(1)<<c.Zoom) / (2 * math.Pi)
		}
		rel := func(got, want float64) bool {
			return math.Abs(got-want) <= 1e-6*math.Max(math.Abs(want), 1e-9*scale*scale)
		}
		switch c.Proj {
		case "albers", "lambertcylindrical", "sinusoidal": // equal area: det J = R^2 cos(lat)
			det := ax*by - ay*bx
			if !rel(det, scale*scale*cosφ) {
				return h.Failf("proj/not-equal-area:"+c.Proj, "at (%v %v): det J = %.12g, R^2 cos(lat) = %.12g%s", lon, lat, det, scale*scale*cosφ, desc())
			}
		case "lambertconformal", "webmercator": // conformal: columns orthogonal, |d/dlambda| / cos(lat) = |d/dphi|
			la, lb := math.Hypot(ax, ay), math.Hypot(bx, by)
			// a rotation, not a reflection: east-then-north stays counter-clockwise (web Mercator's y runs
			// southward by definition, so there it is clockwise)
			if det := ax*by - ay*bx; c.Proj == "lambertconformal" && !(det > 0) || c.Proj == "webmercator" && !(det < 0) {
				return h.Failf("proj/not-conformal:"+c.Proj, "at (%v %v): J columns (%g %g) and (%g %g) have det %g: the map is mirrored%s", lon, lat, ax, ay, bx, by, det, desc())
			}
			if math.Abs(ax*bx+ay*by) > 1e-6*la*lb || !rel(la/cosφ, lb) {
				return h.Failf("proj/not-conformal:"+c.Proj, "at (%v %v): J columns (%g %g) and (%g %g) are not a rotation times a scalar after the cos(lat) correction%s", lon, lat, ax, ay, bx, by, desc())
			}
		}
		switch c.Proj {
		case "azimuthal": // distance from the centre preserved
			want := scale * gcAngle(c.Lon0, c.Lat0, lon, lat)
			if got := math.Hypot(f.X, f.Y); math.Abs(got-want) > 1e-9*scale {
				return h.Failf("proj/not-equidistant:azimuthal", "|Forward(%v %v)| = %.12g, R x great-circle angle to the centre = %.12g%s", lon, lat, got, want, desc())
			}
		case "equidistantconic", "equirectangular": // scale 1 along meridians
			if lb := math.Hypot(bx, by); !rel(lb, scale) {
				return h.Failf("proj/meridian-scale:"+c.Proj, "at (%v %v): |d/dlat| = %.12g per radian, want R = %.12g%s", lon, lat, lb, scale, desc())
			}
		}
		// standard parallels true to scale
		onStd := (isConic(c.Proj) && (lat == c.P1 || lat == c.P2)) || (c.Proj == "equirectangular" && lat == c.P1)
		if onStd {
			if la := math.Hypot(ax, ay); !rel(la, scale*cosφ) {
				return h.Failf("proj/standard-parallel-scale:"+c.Proj, "on the standard parallel %v at lon %v: |d/dlon| = %.12g per radian, want R cos(lat) = %.12g%s", lat, lon, la, scale*cosφ, desc())
			}
			cx.Class("on-standard-parallel")
		}
		if lon == c.Lon0 && lat == c.Lat0 {
			cx.Class("at-centre")
		}
	}
	if c.Proj == "webmercator" {
		P := float64(int(1) << c.Zoom)
		maxLat := 2*math.Atan(math.Exp(math.Pi))*180/math.Pi - 90 // 85.0511...
		tl, br, ctr := p.Forward(geom.XY{X: -180, Y: maxLat}), p.Forward(geom.XY{X: 180, Y: -maxLat}), p.Forward(geom.XY{X: 0, Y: 0})
		tol := 1e-9 * P
		if math.Abs(tl.X) > tol || math.Abs(tl.Y) > tol || math.Abs(br.X-P) > tol || math.Abs(br.Y-P) > tol {
			return h.Failf("proj/webmercator-square", "zoom %d: the world maps to (%g %g)-(%g %g), want (0 0)-(%g %g)", c.Zoom, tl.X, tl.Y, br.X, br.Y, P, P)
		}
		if math.Abs(ctr.X-P/2) > tol || math.Abs(ctr.Y-P/2) > tol {
			return h.Failf("proj/webmercator-centre", "zoom %d: Forward(0,0) = (%g %g), want the centre (%g %g)", c.Zoom, ctr.X, ctr.Y, P/2, P/2)
		}
		if n1, s1 := p.Forward(geom.XY{X: 10, Y: 40}), p.Forward(geom.XY{X: 10, Y: -40}); !(n1.Y < s1.Y) {
			return h.Failf("proj/webmercator-y-direction", "zoom %d: y does not increase southward", c.Zoom)
		}
	}
	nonDefault := c.Lon0 != 0 || c.Lat0 != 0
	far := false
	for _, pt := range c.Pts {
		if gcAngle(c.Lon0, c.Lat0, pt[0], pt[1]) >= d2r(1) {
			far = true
		}
	}
	if nonDefault && far {
		cx.NonTrivial()
	}
	cx.Sample(map[string]interface{}{"proj": c.Proj, "radius": c.Radius, "centre": []float64{c.Lon0, c.Lat0}, "parallels": []float64{c.P1, c.P2}, "zoom": c.Zoom, "points": c.Pts[:min(3, len(c.Pts))]})
	return nil
}

// c19Enumerate: the full 1-degree graticule (restricted to each projection's domain) for a fixed set of configurations.
func c19Enumerate(cx *h.Ctx, yield func(C19Case)) []string {
	step := 5
	if cx.Thorough {
		step = 1
	}
	configs := []C19Case{}
	for _, proj := range c19Projs {
		for _, cfg := range [][4]float64{{0, 0, 30, 60}, {134, -25, -18, -36}, {-96, 39, 33, 45}, {25, 5, -20, 45}, {151.2, -33.9, 60, 30}} {
			for _, r := range []float64{1, carto.WGS84EllipsoidMeanRadiusM} {
				configs = append(configs, C19Case{Proj: proj, Radius: r, Lon0: cfg[0], Lat0: cfg[1], P1: cfg[2], P2: cfg[3], Zoom: (int(cfg[2])%20 + 20) % 20})
			}
		}
	}
	for _, base := range configs {
		n := c19ConeConstant(base)
		for lat := -85; lat <= 85; lat += step {
			c := base
			for lon := -180; lon <= 180; lon += step {
				if c19InDomain(c, n, float64(lon), float64(lat)) {
					c.Pts = append(c.Pts, [2]float64{float64(lon), float64(lat)})
				}
			}
			if len(c.Pts) > 0 {
				yield(c)
			}
		}
	}
	return []string{fmt.Sprintf("the %d-degree graticule (restricted to each implementation's well-conditioned domain) for 9 projections x 5 configurations x radius {1, WGS84 mean}", step)}
}

func TestC19(t *testing.T) {
	h.Run(t, h.Prop[C19Case]{
		ID:              "C19",
		WholeCheckLimit: 300 * time.Second,
		Rule:            "cases = one of the 9 carto projections with a drawn configuration (centre/origin over the sphere incl. the default and, for the two azimuthal projections, exactly and nearly polar centres, standard parallels in both hemispheres and orders with |p1-p2| >= 5 and |p1+p2| >= 10 degrees, the setters called in either order, after a previous configuration, with the projection used between two configurations, or left at their documented defaults, radius 1 / WGS84 mean / WGS84 equatorial / 6371, zoom 0..30) and 4..16 points: the centre/origin itself, points on the standard parallels, graticule points and random points, restricted to the well-conditioned domain (|lat| <= 85, within 60 degrees of arc for azimuthal/orthographic, |n x dlon| < 89 degrees for conics); plus the enumerated graticule (5-degree in quick, 1-degree in thorough) for 5 fixed configurations. Checks: Forward finite; Reverse(Forward(p)) within 1e-9 degrees (a NaN fails); Jacobian by central differences at 1e-4 degrees: equal-area det J = R^2 cos(lat) (Albers, Lambert cylindrical, sinusoidal), conformal J^T J = s^2 diag(cos^2 lat, 1) with det J > 0 (Lambert conformal conic) / < 0 (web Mercator, y southward), azimuthal |Forward(p)| = R x great-circle angle, meridian scale 1 (equidistant conic, equirectangular), standard parallels true to scale, web Mercator world -> [0,2^zoom]^2, centre, y southward; relative tolerance 1e-6 on Jacobians. non-trivial = non-default centre/origin and a point >= 1 degree away",
		Assumptions:     []string{"math package accuracy", "singular configurations (equal or symmetric standard parallels, cos(p1) = 0) are excluded"},
		Gen:             c19Gen,
		Check:           c19Check,
		Enumerate:       c19Enumerate,
	})
}

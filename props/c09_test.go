package props

import (
	"fmt"
	"math"
	"testing"

	"github.com/peterstace/simplefeatures/geom"
	"pgregory.net/rapid"

	"verif/internal/exact"
	"verif/internal/gm"
	"verif/internal/h"
)

// ---------- C09: Intersects and Distance agree with exact geometry and with Relate ----------

type C09Case struct {
	PairCase
	C gm.G `json:"c"` // third geometry for the triangle-type inequality
	// Dense: when set, A and B are dense zig-zag lines / fans (many segments) and the oracle is a float brute force
	Dense bool `json:"dense,omitempty"`
}

func c09Dense(t *rapid.T, n int, label string) gm.G {
	// zig-zag polyline with n segments inside a drawn box, or a MultiLineString of short segments
	x0 := float64(rapid.IntRange(-500, 500).Draw(t, label+"x0"))
	y0 := float64(rapid.IntRange(-500, 500).Draw(t, label+"y0"))
	dx := float64(rapid.IntRange(1, 4).Draw(t, label+"dx"))
	amp := float64(rapid.IntRange(1, 40).Draw(t, label+"amp"))
	switch rapid.IntRange(0, 2).Draw(t, label+"kind") {
	case 0:
		g := gm.G{T: gm.LineString}
		for i := 0; i <= n; i++ {
			y := y0
			if i%2 == 1 {
				y += amp
			}
			g.Co = append(g.Co, gm.F(x0+dx*float64(i)), gm.F(y))
		}
		return g
	case 1:
		g := gm.G{T: gm.MultiLineString}
		for i := 0; i < n; i++ {
			xa := x0 + dx*float64(i%50)*3
			ya := y0 + float64(i/50)*3
			g.Mem = append(g.Mem, gm.G{T: gm.LineString, Co: gm.Fs(xa, ya, xa+1, ya+1)})
		}
		return g
	default:
		g := gm.G{T: gm.MultiPoint}
		for i := 0; i < n; i++ {
			g.Mem = append(g.Mem, gm.G{T: gm.Point, Co: gm.Fs(x0+float64((i*7)%101), y0+float64((i*13)%89))})
		}
		return g
	}
}

func c09Gen(t *rapid.T, cx *h.Ctx) C09Case {
	if rapid.IntRange(0, 9).Draw(t, "densefamily") == 0 {
		maxN := 300
		if cx.Thorough {
			maxN = 2000
		}
		c := C09Case{Dense: true}
		c.A = c09Dense(t, rapid.IntRange(20, maxN).Draw(t, "na"), "a")
		c.B = c09Dense(t, rapid.IntRange(20, maxN).Draw(t, "nb"), "b")
		c.C = gm.G{T: gm.Point, Co: gm.Fs(0, 0)}
		c.Family = "dense"
		return c
	}
	c := C09Case{PairCase: genPair(t, cx, false, nil)}
	// third geometry on the same kind of grid
	p2 := genPair(t, cx, false, nil)
	c.C = p2.A
	return c
}

func floatBruteDistance(a, b exact.Geom) (float64, bool) {
	type seg struct{ ax, ay, bx, by float64 }
	conv := func(g exact.Geom) (segs []seg, pts [][2]float64) {
		for _, s := range g.Segs() {
			ax, ay := s.A.Floats()
			bx, by := s.B.Floats()
			segs = append(segs, seg{ax, ay, bx, by})
		}
		for _, p := range g.AllPoints() {
			x, y := p.Floats()
			pts = append(pts, [2]float64{x, y})
		}
		return
	}
	sa, pa := conv(a)
	sb, pb := conv(b)
	best := math.Inf(1)
	ps := func(px, py float64, s seg) float64 { return distToSegs(px, py, []fseg{{s.ax, s.ay, s.bx, s.by}}) }
	cross := func(ax, ay, bx, by, cx, cy float64) float64 { return (bx-ax)*(cy-ay) - (by-ay)*(cx-ax) }
	for _, x := range sa {
		for _, y := range sb {
			// proper crossing -> 0
			d1, d2 := cross(x.ax, x.ay, x.bx, x.by, y.ax, y.ay), cross(x.ax, x.ay, x.bx, x.by, y.bx, y.by)
			d3, d4 := cross(y.ax, y.ay, y.bx, y.by, x.ax, x.ay), cross(y.ax, y.ay, y.bx, y.by, x.bx, x.by)
			if d1*d2 < 0 && d3*d4 < 0 {
				return 0, true
			}
			best = math.Min(best, math.Min(math.Min(ps(x.ax, x.ay, y), ps(x.bx, x.by, y)), math.Min(ps(y.ax, y.ay, x), ps(y.bx, y.by, x))))
		}
		for _, p := range pb {
			best = math.Min(best, ps(p[0], p[1], x))
		}
	}
	for _, y := range sb {
		for _, p := range pa {
			best = math.Min(best, ps(p[0], p[1], y))
		}
	}
	for _, p := range pa {
		for _, q := range pb {
			best = math.Min(best, math.Hypot(p[0]-q[0], p[1]-q[1]))
		}
	}
	return best, !math.IsInf(best, 1)
}

func geomDiameter(g exact.Geom) float64 {
	vs := g.Vertices()
	best := 0.0
	for i := range vs {
		xi, yi := vs[i].Floats()
		for j := i + 1; j < len(vs); j++ {
			xj, yj := vs[j].Floats()
			best = math.Max(best, math.Hypot(xi-xj, yi-yj))
		}
	}
	return best
}

func c09Check(c C09Case, cx *h.Ctx) *h.Failure {
	ea, eb := exact.MustFromModel(c.A), exact.MustFromModel(c.B)
	A, B := c.A.ToGeom(), c.B.ToGeom()
	cx.Class("pair=" + c.A.T + "/" + c.B.T)
	cx.Class("family=" + c.Family)
	desc := func() string {
		return fmt.Sprintf("\nA = %s\nB = %s", clip(c.A.String(), 500), clip(c.B.String(), 500))
	}
	magOf := func(gs ...exact.Geom) float64 {
		m := 0.0
		for _, g := range gs {
			for _, v := range g.Vertices() {
				x, y := v.Floats()
				m = math.Max(m, math.Max(math.Abs(x), math.Abs(y)))
			}
		}
		if m == 0 {
			m = 1
		}
		return m
	}
	mag := magOf(ea, eb)
	tau := 1e-9 * mag
	gotI := geom.Intersects(A, B)
	if gotI != geom.Intersects(B, A) {
		return h.Failf("intersects/asymmetric", "Intersects(A,B)=%v but Intersects(B,A)=%v%s", gotI, !gotI, desc())
	}
	var d, d2 float64
	var ok, ok2 bool
	h.Lib("Distance", func() { d, ok = geom.Distance(A, B); d2, ok2 = geom.Distance(B, A) })
	if ok != ok2 || (ok && math.Abs(d-d2) > tau) {
		return h.Failf("distance/asymmetric", "Distance(A,B)=%v,%v but Distance(B,A)=%v,%v%s", d, ok, d2, ok2, desc())
	}
	// Intersects and Distance are functions of the XY point sets: the same operands carrying Z / M / ZM payload give the
	// same answers
	{
		lctA, lctB := 1+len(c.A.String())%3, 1+len(c.B.String())%3
		AL, BL := c16TagWith(forceCT(c.A, lctA), true).ToGeom(), c16TagWith(forceCT(c.B, lctB), false).ToGeom()
		dl, okl := geom.Distance(AL, BL)
		if il := geom.Intersects(AL, BL); il != gotI || okl != ok || (ok && dl != d) {
			return h.Failf("distance/zm-dependent", "with %s / %s payload Intersects=%v Distance=%v,%v; without payload %v and %v,%v%s", gm.CTName(lctA), gm.CTName(lctB), il, dl, okl, gotI, d, ok, desc())
		}
	}
	wantOK := !ea.IsEmpty() && !eb.IsEmpty()
	if ok != wantOK {
		return h.Failf("distance/defined", "Distance(A,B) defined=%v, want %v (an operand is empty: %v/%v)%s", ok, wantOK, ea.IsEmpty(), eb.IsEmpty(), desc())
	}
	if ok && (math.IsNaN(d) || d < 0 || math.IsInf(d, 0)) {
		return h.Failf("distance/not-finite", "Distance(A,B) = %v%s", d, desc())
	}

	if c.Dense {
		want, wok := floatBruteDistance(ea, eb)
		if wok != ok {
			return h.Failf("distance/defined", "Distance defined=%v, brute force defined=%v%s", ok, wok, desc())
		}
		if math.Abs(d-want) > tau {
			return h.Failf("distance/dense-value", "Distance(A,B) = %.15g, brute-force minimum over %d x %d primitives = %.15g%s", d, len(ea.Segs())+len(ea.AllPoints()), len(eb.Segs())+len(eb.AllPoints()), want, desc())
		}
		if gotI != (want == 0) && want > tau {
			return h.Failf("intersects/dense", "Intersects=%v but brute-force distance %g%s", gotI, want, desc())
		}
		cx.NonTrivial()
		cx.Sample(map[string]interface{}{"dense": true, "segments_a": len(ea.Segs()), "segments_b": len(eb.Segs()), "distance": d})
		return nil
	}

	wantI := exact.Intersects(ea, eb)
	if gotI != wantI {
		return h.Failf("intersects/value", "Intersects(A,B) = %v, exact = %v%s", gotI, wantI, desc())
	}
	ar := exact.Arrange(ea, eb)
	strict := pairStrict(ar)
	if dj, err := geom.Disjoint(A, B); strict && (err != nil || dj == gotI) {
		return h.Failf("intersects/vs-disjoint", "Intersects(A,B)=%v but Disjoint(A,B)=%v (%v)%s", gotI, dj, err, desc())
	}
	if strict {
		inter, err := geom.Intersection(A, B)
		if err != nil {
			return h.Failf("intersects/intersection-error", "Intersection error: %v%s", err, desc())
		}
		if inter.IsEmpty() == gotI {
			return h.Failf("intersects/vs-intersection", "Intersects(A,B)=%v but Intersection(A,B) = %s%s", gotI, clip(inter.AsText(), 200), desc())
		}
	}
	if ok {
		wd2 := exact.GeomDist2(ea, eb)
		want := exact.Sqrt(wd2)
		if (d == 0) != wantI {
			return h.Failf("distance/zero-iff-intersects", "Distance(A,B) = %g but exact Intersects = %v%s", d, wantI, desc())
		}
		if math.Abs(d-want) > tau {
			return h.Failf("distance/value", "Distance(A,B) = %.15g, exact minimum distance = %.15g%s", d, want, desc())
		}
		if ed, eok := A.Envelope().Distance(B.Envelope()); eok && d < ed-tau {
			return h.Failf("distance/below-envelope-distance", "Distance(A,B) = %g is smaller than the distance between the envelopes %g%s", d, ed, desc())
		}
		// d(a,c) <= d(a,b) + diam(b) + d(b,c)
		C := c.C.ToGeom()
		ec := exact.MustFromModel(c.C)
		if !ec.IsEmpty() {
			dac, _ := geom.Distance(A, C)
			dbc, _ := geom.Distance(B, C)
			if dac > d+geomDiameter(eb)+dbc+1e-9*magOf(ea, eb, ec) {
				return h.Failf("distance/triangle", "d(A,C)=%g > d(A,B)=%g + diam(B)=%g + d(B,C)=%g%s\nC = %s", dac, d, geomDiameter(eb), dbc, desc(), c.C)
			}
		}
	}
	// non-trivial: envelopes overlap, or the nearest features are not both vertices (interior of a segment)
	envOverlap := A.Envelope().Intersects(B.Envelope())
	if wantOK && envOverlap {
		cx.NonTrivial()
		cx.Class("envelopes-overlap")
	}
	if wantI {
		cx.Class("intersecting")
	}
	cx.Sample(map[string]interface{}{"a": clip(c.A.String(), 200), "b": clip(c.B.String(), 200), "intersects": gotI, "distance": d})
	return nil
}

func TestC09(t *testing.T) {
	h.Run(t, h.Prop[C09Case]{
		ID:          "C09",
		Rule:        "cases = the C01 pair generator (all 7x7 type pairs, collections with overlapping members, empty members, points exactly on edges/vertices, polygons in holes, collinear overlaps) plus a third geometry, and (1 in 10) a dense family: zig-zag lines / many short segments / many points with 20..300 (thorough 2000) primitives per operand so that the R-tree pruning decides. Oracles: exact Intersects (any exact segment-pair intersection or a vertex of one located in the other); exact minimum squared distance over all primitive pairs in rational arithmetic, square root at 200 bits (float brute force for the dense family); checks: Intersects symmetric, = not Disjoint, = Intersection non-empty (strict domain), Distance symmetric, defined iff both non-empty, zero iff exact intersects, within 1e-9 x magnitude of the exact value, >= envelope distance, d(a,c) <= d(a,b)+diam(b)+d(b,c); non-trivial = both non-empty and envelopes overlap (early exits do not decide), or the dense family Families of the shared pair generator: triangulated integer grids that coincide / are offset by half a cell / are shifted, under an injective integer map and optionally an exact dyadic affine image; hole-nesting (annulus, island, covering members, far-away decoy members in front of the deciding one); general-position floats (random 53-bit mantissas in a window - crossing points not representable); concurrent (3..14 integer segments through one non-lattice point, dyadic or not).",
		Assumptions: []string{"exact kernel (internal/exact)", "float64 brute force is accurate to 1e-12 relative for the dense family (integer inputs)"},
		Gen:         c09Gen,
		Check:       c09Check,
		Enumerate:   c09Enumerate,
	})
}

// c09Enumerate: wide operands (127..257 members in a row) where only one
// late member (the last, or the one before) decides the answer; B never lies
// inside a polygon of A, so the float brute force over boundaries is the oracle.
func c09Enumerate(cx *h.Ctx, yield func(C09Case)) []string {
	for _, k := range []int{127, 128, 129, 255, 256, 257} {
		for _, typ := range []string{gm.MultiPoint, gm.MultiLineString, gm.MultiPolygon, gm.GeometryCollection} {
			a := gm.G{T: typ}
			for i := 0; i < k; i++ {
				x := float64(10 * i)
				switch typ {
				case gm.MultiPoint:
					a.Mem = append(a.Mem, gm.G{T: gm.Point, Co: gm.Fs(x, 0)})
				case gm.MultiLineString:
					a.Mem = append(a.Mem, gm.G{T: gm.LineString, Co: gm.Fs(x, 0, x+4, 4)})
				case gm.MultiPolygon:
					a.Mem = append(a.Mem, gm.G{T: gm.Polygon, Rings: [][]gm.F{gm.Fs(x, 0, x+4, 0, x+4, 4, x, 4, x, 0)}})
				default:
					a.Mem = append(a.Mem, []gm.G{{T: gm.Point, Co: gm.Fs(x, 0)}, {T: gm.LineString, Co: gm.Fs(x, 0, x+4, 4)},
						{T: gm.Polygon, Rings: [][]gm.F{gm.Fs(x, 0, x+4, 0, x+4, 4, x, 4, x, 0)}}}[i%3])
				}
			}
			for _, j := range []int{k - 1, k - 2} {
				x := float64(10 * j)
				for _, b := range []gm.G{
					{T: gm.Point, Co: gm.Fs(x, 0)},                  // on member j
					{T: gm.Point, Co: gm.Fs(x, -3)},                 // 3 below member j
					{T: gm.LineString, Co: gm.Fs(x-2, 2, x+1, -1)},  // crosses the lower left corner region of member j
					{T: gm.LineString, Co: gm.Fs(x-3, -7, x+9, -2)}, // passes below
					{T: gm.MultiPoint, Mem: []gm.G{{T: gm.Point, Co: gm.Fs(-50, -50)}, {T: gm.Point, Co: gm.Fs(x, -1)}}},
				} {
					yield(C09Case{PairCase: PairCase{A: a, B: b, Family: "wide"}, C: gm.G{T: gm.Point}, Dense: true})
				}
			}
		}
	}
	return []string{"operands of 127..257 members in a row (MultiPoint, MultiLineString, MultiPolygon, mixed collection) against a small geometry on / near / crossing one of the last two members"}
}

package props

import (
	"bytes"
	"fmt"
	"math"
	"math/big"
	"testing"
	"time"

	"github.com/peterstace/simplefeatures/geom"
	"pgregory.net/rapid"

	"verif/internal/codec"
	"verif/internal/exact"
	"verif/internal/gen"
	"verif/internal/gm"
	"verif/internal/h"
)

// ---------- C18: ExactEquals is structural identity; IgnoreOrder ignores only order ----------

type C18Case struct {
	A    gm.G    `json:"a"`
	B    gm.G    `json:"b"`
	C    gm.G    `json:"c"`
	How  string  `json:"how"` // how B was derived from A
	HowC string  `json:"how_c"`
	Tol  float64 `json:"tol"`
}

// ---- oracle ----

func negZeroToZero(g gm.G) gm.G {
	return g.MapPositions(func(p []gm.F, ct int) []gm.F {
		for i := range p {
			if p[i] == 0 {
				p[i] = 0
			}
		}
		return p
	})
}

func c18WKBEqual(a, b gm.G) bool {
	return bytes.Equal(codec.EncodeWKB(negZeroToZero(a.Norm()), nil), codec.EncodeWKB(negZeroToZero(b.Norm()), nil))
}

func posEq(a, b []gm.F) bool {
	if c18Tol != nil {
		return posEqTol(a, b)
	}
	for i := range a {
		if float64(a[i]) != float64(b[i]) { // -0 == +0; inputs are finite
			return false
		}
	}
	return true
}

// c18Tol, when set, makes posEq compare XY within that distance (exact
// arithmetic) and Z/M exactly; c18TolUncertain is raised when a distance is
// within 1e-9 (relative) of the tolerance, where float rounding may decide.
var (
	c18Tol          *float64
	c18TolUncertain bool
)

func posEqTol(a, b []gm.F) bool {
	for i := 2; i < len(a); i++ {
		if float64(a[i]) != float64(b[i]) {
			return false
		}
	}
	d2 := exact.Dist2(exact.P(float64(a[0]), float64(a[1])), exact.P(float64(b[0]), float64(b[1])))
	t := exact.R(*c18Tol)
	t2 := new(big.Rat).Mul(t, t)
	diff := new(big.Rat).Sub(d2, t2)
	diff.Abs(diff)
	margin := new(big.Rat).Mul(t2, big.NewRat(1, 1000000000))
	if diff.Cmp(margin) <= 0 {
		c18TolUncertain = true
	}
	return d2.Cmp(t2) <= 0
}

type lineInfo struct {
	n          int
	closed     bool
	ring       bool // closed and simple (exact)
	fullClosed bool // closing position repeats the first in every dimension
	clean      bool // no repeated consecutive positions and, if closed, >= 4 positions: ring status well defined
}

func analyseLine(fs []gm.F, ct int) lineInfo {
	d := gm.Dim(ct)
	n := len(fs) / d
	li := lineInfo{n: n, clean: true}
	if n == 0 {
		return li
	}
	pts := make([]exact.Pt, n)
	for i := 0; i < n; i++ {
		pts[i] = exact.P(float64(fs[i*d]), float64(fs[i*d+1]))
	}
	li.closed = n >= 2 && pts[0].Eq(pts[n-1])
	li.fullClosed = li.closed && posEq(fs[:d], fs[(n-1)*d:])
	if !li.closed {
		return li
	}
	// Repeated consecutive vertices do not affect simplicity (zero-length
	// segments carry no points of their own): test the de-duplicated chain.
	dp := pts[:1]
	for i := 1; i < n; i++ {
		if !pts[i].Eq(dp[len(dp)-1]) {
			dp = append(dp, pts[i])
		}
	}
	if len(dp) < 4 {
		li.clean = false // degenerate closed line: ring status not well defined
		return li
	}
	ns := len(dp) - 1
	simple := true
	for i := 0; i < ns && simple; i++ {
		for j := i + 1; j < ns; j++ {
			in := exact.Intersect(dp[i], dp[i+1], dp[j], dp[j+1])
			adjacent := j == i+1 || (i == 0 && j == ns-1)
			if in.Kind == 2 || (in.Kind == 1 && !adjacent) {
				simple = false
				break
			}
		}
	}
	li.ring = simple
	return li
}

// lineEqIO: identity, reversal, and for rings any rotation in either direction.
// ok=false when ring status is not well defined for these inputs (skip).
func lineEqIO(a, b []gm.F, ct int) (eq bool, ok bool) {
	d := gm.Dim(ct)
	if len(a) != len(b) {
		return false, true
	}
	n := len(a) / d
	at := func(fs []gm.F, i int) []gm.F { return fs[i*d : i*d+d] }
	same := func(m func(int) int) bool {
		for i := 0; i < n; i++ {
			if !posEq(at(a, i), at(b, m(i))) {
				return false
			}
		}
		return true
	}
	if same(func(i int) int { return i }) || same(func(i int) int { return n - 1 - i }) {
		return true, true
	}
	la, lb := analyseLine(a, ct), analyseLine(b, ct)
	if !la.closed || !lb.closed {
		return false, true
	}
	if !la.clean || !lb.clean {
		return false, false
	}
	if !la.ring || !lb.ring || !la.fullClosed || !lb.fullClosed {
		return false, true
	}
	for o := 0; o < n-1; o++ {
		if same(func(i int) int { return (i + o) % (n - 1) }) || same(func(i int) int { return ((n - 1 - i) + o) % (n - 1) }) {
			return true, true
		}
	}
	return false, true
}

func permMatch(n int, eq func(i, j int) bool) bool {
	used := make([]bool, n)
	var rec func(i int) bool
	rec = func(i int) bool {
		if i == n {
			return true
		}
		for j := 0; j < n; j++ {
			if !used[j] && eq(i, j) {
				used[j] = true
				if rec(i + 1) {
					return true
				}
				used[j] = false
			}
		}
		return false
	}
	return rec(0)
}

func eqIO(a, b gm.G, ok *bool) bool {
	a, b = a.Norm(), b.Norm()
	if a.T != b.T || a.CT != b.CT {
		return false
	}
	switch a.T {
	case gm.Point:
		if len(a.Co) == 0 || len(b.Co) == 0 {
			return len(a.Co) == len(b.Co)
		}
		return posEq(a.Co, b.Co)
	case gm.LineString:
		e, o := lineEqIO(a.Co, b.Co, a.CT)
		if !o {
			*ok = false
		}
		return e
	case gm.Polygon:
		if len(a.Rings) != len(b.Rings) {
			return false
		}
		if len(a.Rings) == 0 {
			return true
		}
		e, o := lineEqIO(a.Rings[0], b.Rings[0], a.CT)
		if !o {
			*ok = false
		}
		if !e {
			return false
		}
		return permMatch(len(a.Rings)-1, func(i, j int) bool {
			e, o := lineEqIO(a.Rings[i+1], b.Rings[j+1], a.CT)
			if !o {
				*ok = false
			}
			return e
		})
	default:
		if len(a.Mem) != len(b.Mem) {
			return false
		}
		return permMatch(len(a.Mem), func(i, j int) bool { return eqIO(a.Mem[i], b.Mem[j], ok) })
	}
}

// ---- mutations (all driven by rapid draws) ----

type nodeRef struct {
	path []int
}

func collect(g gm.G, path []int, pred func(gm.G) bool, out *[][]int) {
	if pred(g) {
		*out = append(*out, append([]int(nil), path...))
	}
	for i, m := range g.Mem {
		collect(m, append(path, i), pred, out)
	}
}

func at(g *gm.G, path []int) *gm.G {
	for _, i := range path {
		g = &g.Mem[i]
	}
	return g
}

func ulpStep(f float64, up bool) float64 {
	if f == math.MaxFloat64 {
		up = false
	} else if f == -math.MaxFloat64 {
		up = true
	}
	if up {
		return math.Nextafter(f, math.Inf(1))
	}
	return math.Nextafter(f, math.Inf(-1))
}

func reverseFlat(fs []gm.F, d int) []gm.F {
	n := len(fs) / d
	out := make([]gm.F, 0, len(fs))
	for i := n - 1; i >= 0; i-- {
		out = append(out, fs[i*d:i*d+d]...)
	}
	return out
}

func rotateRing(fs []gm.F, d, o int) []gm.F {
	n := len(fs) / d
	if n < 2 {
		return fs
	}
	out := make([]gm.F, 0, len(fs))
	for i := 0; i < n; i++ {
		j := (i + o) % (n - 1)
		out = append(out, fs[j*d:j*d+d]...)
	}
	return out
}

func forceCT(g gm.G, ct int) gm.G {
	out := g.MapPositions(func(p []gm.F, old int) []gm.F {
		x, y := p[0], p[1]
		var z, m gm.F
		switch old {
		case 1:
			z = p[2]
		case 2:
			m = p[2]
		case 3:
			z, m = p[2], p[3]
		}
		np := []gm.F{x, y}
		if ct&1 != 0 {
			np = append(np, z)
		}
		if ct&2 != 0 {
			np = append(np, m)
		}
		return np
	})
	var set func(n *gm.G)
	set = func(n *gm.G) {
		n.CT = ct
		for i := range n.Mem {
			set(&n.Mem[i])
		}
	}
	set(&out)
	return out
}

func shuffled(t *rapid.T, n int, label string) []int {
	p := make([]int, n)
	for i := range p {
		p[i] = i
	}
	for i := n - 1; i > 0; i-- {
		j := rapid.IntRange(0, i).Draw(t, label)
		p[i], p[j] = p[j], p[i]
	}
	return p
}

// reorderAll applies a random order-only change at every level.
func reorderAll(t *rapid.T, g gm.G) gm.G {
	out := g.Clone()
	d := gm.Dim(g.CT)
	switch g.T {
	case gm.LineString:
		li := analyseLine(out.Co, g.CT)
		if li.closed && li.clean && li.ring {
			out.Co = rotateRing(out.Co, d, rapid.IntRange(0, li.n-2).Draw(t, "rot"))
		}
		if rapid.Bool().Draw(t, "rev") {
			out.Co = reverseFlat(out.Co, d)
		}
	case gm.Polygon:
		if len(out.Rings) > 1 {
			p := shuffled(t, len(out.Rings)-1, "holeperm")
			holes := append([][]gm.F(nil), out.Rings[1:]...)
			for i, j := range p {
				out.Rings[1+i] = holes[j]
			}
		}
		for i, r := range out.Rings {
			li := analyseLine(r, g.CT)
			if li.closed && li.clean && li.ring {
				r = rotateRing(r, d, rapid.IntRange(0, li.n-2).Draw(t, "rrot"))
			}
			if rapid.Bool().Draw(t, "rrev") {
				r = reverseFlat(r, d)
			}
			out.Rings[i] = r
		}
	default:
		if len(out.Mem) > 0 {
			p := shuffled(t, len(out.Mem), "memperm")
			mem := make([]gm.G, len(out.Mem))
			for i, j := range p {
				mem[i] = reorderAll(t, g.Mem[j])
			}
			out.Mem = mem
		}
	}
	return out
}

func mutate(t *rapid.T, a gm.G, tol float64) (gm.G, string) {
	b := a.Norm().Clone()
	kind := rapid.IntRange(0, 12).Draw(t, "mutkind")
	switch kind {
	case 0:
		return b, "identical"
	case 1, 2: // one ordinate +-1 ulp
		var nodes [][]int
		collect(b, nil, func(g gm.G) bool { return len(g.Co) > 0 || len(g.Rings) > 0 }, &nodes)
		if len(nodes) == 0 {
			return b, "identical"
		}
		n := at(&b, nodes[rapid.IntRange(0, len(nodes)-1).Draw(t, "node")])
		up := rapid.Bool().Draw(t, "up")
		if len(n.Co) > 0 {
			i := rapid.IntRange(0, len(n.Co)-1).Draw(t, "ord")
			n.Co[i] = gm.F(ulpStep(float64(n.Co[i]), up))
		} else {
			r := rapid.IntRange(0, len(n.Rings)-1).Draw(t, "ring")
			i := rapid.IntRange(0, len(n.Rings[r])-1).Draw(t, "ord")
			n.Rings[r][i] = gm.F(ulpStep(float64(n.Rings[r][i]), up))
		}
		return b, "one-ordinate-one-ulp"
	case 3: // swap two members / holes
		var nodes [][]int
		collect(b, nil, func(g gm.G) bool { return len(g.Mem) >= 2 || len(g.Rings) >= 2 }, &nodes)
		if len(nodes) == 0 {
			return b, "identical"
		}
		n := at(&b, nodes[rapid.IntRange(0, len(nodes)-1).Draw(t, "node")])
		if len(n.Rings) >= 2 && (len(n.Rings) == 2 || rapid.Bool().Draw(t, "shellswap")) {
			// the shell trades places with a hole: not an order IgnoreOrder ignores
			j := rapid.IntRange(1, len(n.Rings)-1).Draw(t, "shellswapwith")
			n.Rings[0], n.Rings[j] = n.Rings[j], n.Rings[0]
			return b, "shell-and-hole-swapped"
		}
		if len(n.Mem) >= 2 {
			i := rapid.IntRange(0, len(n.Mem)-2).Draw(t, "i")
			n.Mem[i], n.Mem[i+1] = n.Mem[i+1], n.Mem[i]
		} else {
			n.Rings[1], n.Rings[2] = n.Rings[2], n.Rings[1]
		}
		return b, "members-swapped"
	case 4: // rotate or reverse one ring/line
		var nodes [][]int
		collect(b, nil, func(g gm.G) bool { return (g.T == gm.LineString && len(g.Co) > 0) || len(g.Rings) > 0 }, &nodes)
		if len(nodes) == 0 {
			return b, "identical"
		}
		n := at(&b, nodes[rapid.IntRange(0, len(nodes)-1).Draw(t, "node")])
		d := gm.Dim(n.CT)
		target := &n.Co
		if len(n.Rings) > 0 {
			target = &n.Rings[rapid.IntRange(0, len(n.Rings)-1).Draw(t, "ring")]
		}
		if rapid.Bool().Draw(t, "dorev") {
			*target = reverseFlat(*target, d)
			return b, "one-line-reversed"
		}
		if cnt := len(*target) / d; cnt >= 3 {
			*target = rotateRing(*target, d, rapid.IntRange(1, cnt-2).Draw(t, "rot"))
		}
		return b, "one-ring-rotated"
	case 5: // one member's emptiness
		var nodes [][]int
		collect(b, nil, func(g gm.G) bool { return len(g.Mem) > 0 }, &nodes)
		if len(nodes) == 0 {
			return b, "identical"
		}
		n := at(&b, nodes[rapid.IntRange(0, len(nodes)-1).Draw(t, "node")])
		i := rapid.IntRange(0, len(n.Mem)-1).Draw(t, "i")
		n.Mem[i] = gm.G{T: n.Mem[i].T, CT: n.Mem[i].CT}
		return b, "member-emptied"
	case 6: // coordinate type
		nct := rapid.IntRange(0, 3).Draw(t, "nct")
		return forceCT(b, nct), "coordinate-type-changed"
	case 7: // Point <-> one-member MultiPoint
		if b.T == gm.Point {
			return gm.G{T: gm.MultiPoint, CT: b.CT, Mem: []gm.G{b}}, "point-to-multipoint"
		}
		if b.T == gm.MultiPoint && len(b.Mem) == 1 {
			return b.Mem[0], "multipoint-to-point"
		}
		if b.T == gm.LineString {
			return gm.G{T: gm.MultiLineString, CT: b.CT, Mem: []gm.G{b}}, "line-to-multiline"
		}
		return gm.G{T: gm.GeometryCollection, CT: b.CT, Mem: []gm.G{b}}, "wrapped-in-collection"
	case 8: // sign of a zero
		changed := false
		b = b.MapPositions(func(p []gm.F, ct int) []gm.F {
			for i := range p {
				if p[i] == 0 && !changed {
					if math.Signbit(float64(p[i])) {
						p[i] = 0
					} else {
						p[i] = gm.F(math.Copysign(0, -1))
					}
					changed = true
				}
			}
			return p
		})
		return b, "zero-sign-flipped"
	case 9, 10: // order-only changes at every level
		return reorderAll(t, b), "reordered"
	case 11: // drop or duplicate a member
		var nodes [][]int
		collect(b, nil, func(g gm.G) bool { return len(g.Mem) > 0 }, &nodes)
		if len(nodes) == 0 {
			return b, "identical"
		}
		n := at(&b, nodes[rapid.IntRange(0, len(nodes)-1).Draw(t, "node")])
		i := rapid.IntRange(0, len(n.Mem)-1).Draw(t, "i")
		if rapid.Bool().Draw(t, "dup") {
			n.Mem = append(n.Mem, n.Mem[i].Clone())
			return b, "member-duplicated"
		}
		n.Mem = append(n.Mem[:i:i], n.Mem[i+1:]...)
		return b, "member-dropped"
	default: // XY jitter relative to the tolerance
		far := rapid.Bool().Draw(t, "far")
		first := true
		b = b.MapPositions(func(p []gm.F, ct int) []gm.F {
			if far {
				if first {
					p[0] = gm.F(float64(p[0]) + 3*tol)
					first = false
				}
				return p
			}
			p[0] = gm.F(float64(p[0]) + tol*0.3)
			p[1] = gm.F(float64(p[1]) - tol*0.3)
			return p
		})
		if far {
			return b, "one-vertex-moved-3tol"
		}
		return b, "all-vertices-within-tol"
	}
}

func c18Gen(t *rapid.T, cx *h.Ctx) C18Case {
	var a gm.G
	fam := rapid.IntRange(0, 2).Draw(t, "family")
	switch fam {
	case 0: // arbitrary structure, finite floats of every magnitude
		a = gen.Structure(t, gen.Opts{XY: gen.FiniteFloat, ZM: gen.FiniteFloat, CT: -1, AllowZero: true, MaxMem: 6})
	default: // valid shapes (real rings), scaled by an exact power of two
		a = gen.Structure(t, gen.Opts{ZM: gen.FiniteFloat, CT: -1, ValidShapes: true, MaxMem: 6,
			XY: func(t *rapid.T, l string) float64 { return float64(rapid.IntRange(-9, 9).Draw(t, l)) }})
		e := rapid.SampledFrom([]int{-1066, -500, -20, 0, 0, 10, 990}).Draw(t, "scale")
		s := math.Ldexp(1, e)
		a = a.MapPositions(func(p []gm.F, ct int) []gm.F {
			p[0], p[1] = gm.F(float64(p[0])*s), gm.F(float64(p[1])*s)
			return p
		})
		// duplicate members make the permutation matching backtrack
		if len(a.Mem) > 0 && rapid.Bool().Draw(t, "dupmember") {
			i := rapid.IntRange(0, len(a.Mem)-1).Draw(t, "dupidx")
			a.Mem = append(a.Mem, a.Mem[i].Clone())
		}
	}
	c := C18Case{A: a}
	c.Tol = math.Ldexp(1, rapid.IntRange(-8, 4).Draw(t, "tolexp"))
	if fam == 2 && rapid.Bool().Draw(t, "tolfamily") {
		// tolerance-matching family: small integer half-grid, B = shuffled and jittered A
		c.A = c18GridGeom(t)
		c.Tol = rapid.SampledFrom([]float64{0.75, 1.25, 0.3}).Draw(t, "gridtol")
		b := reorderAll(t, c.A)
		b = b.MapPositions(func(p []gm.F, ct int) []gm.F {
			p[0] = gm.F(float64(p[0]) + float64(rapid.IntRange(-2, 2).Draw(t, "jx"))/2)
			return p
		})
		c.B, c.How = b, "grid-shuffled-jittered"
		c.C, c.HowC = mutate(t, c.B, c.Tol)
		return c
	}
	if fam != 0 && rapid.IntRange(0, 3).Draw(t, "dupvertex") == 0 {
		c.A = dupRingVertex(t, c.A)
	}
	a = c.A
	c.B, c.How = mutate(t, a, c.Tol)
	c.C, c.HowC = mutate(t, c.B, c.Tol)
	return c
}

func c18Check(c C18Case, cx *h.Ctx) *h.Failure {
	A, B, C := c.A.ToGeom(), c.B.ToGeom(), c.C.ToGeom()
	cx.Class("how=" + c.How)
	desc := func() string {
		return fmt.Sprintf("\nA = %s\nB = %s (%s)\nC = %s (%s)", c.A, c.B, c.How, c.C, c.HowC)
	}
	pairs := []struct {
		n1, n2 string
		m1, m2 gm.G
		g1, g2 geom.Geometry
	}{{"A", "B", c.A, c.B, A, B}, {"B", "C", c.B, c.C, B, C}, {"A", "C", c.A, c.C, A, C}}
	var plain [3]bool
	for i, p := range pairs {
		want := c18WKBEqual(p.m1, p.m2)
		got := geom.ExactEquals(p.g1, p.g2)
		rev := geom.ExactEquals(p.g2, p.g1)
		plain[i] = got
		if got != rev {
			return h.Failf("exactequals/asymmetric", "ExactEquals(%s,%s)=%v but ExactEquals(%s,%s)=%v%s", p.n1, p.n2, got, p.n2, p.n1, rev, desc())
		}
		if got != want {
			return h.Failf("exactequals/plain-vs-wkb", "ExactEquals(%s,%s)=%v but WKB equality (with -0 = +0) is %v%s", p.n1, p.n2, got, want, desc())
		}
		// IgnoreOrder
		ok := true
		wantIO := eqIO(p.m1, p.m2, &ok)
		gotIO := geom.ExactEquals(p.g1, p.g2, geom.IgnoreOrder)
		revIO := geom.ExactEquals(p.g2, p.g1, geom.IgnoreOrder)
		if gotIO != revIO {
			return h.Failf("exactequals/ignoreorder-asymmetric", "IgnoreOrder: (%s,%s)=%v but (%s,%s)=%v%s", p.n1, p.n2, gotIO, p.n2, p.n1, revIO, desc())
		}
		if !ok {
			cx.Skip("ignoreorder_ring_status_undefined")
		} else if gotIO != wantIO && (extremeRing(p.m1) || extremeRing(p.m2)) && (misjudgedRing(p.m1) || misjudgedRing(p.m2)) {
			return h.Failf("exactequals/ignoreorder-ring-extreme-magnitude", "ExactEquals(%s,%s,IgnoreOrder)=%v, want %v, for closed lines that differ only by rotation; their coordinates are so small/large that the library's ring (simplicity) test under/overflows and disagrees with the exact ring status%s", p.n1, p.n2, gotIO, wantIO, desc())
		} else if gotIO != wantIO && (misjudgedRing(p.m1) || misjudgedRing(p.m2)) {
			return h.Failf("exactequals/ignoreorder-ring-float-simplicity", "ExactEquals(%s,%s,IgnoreOrder)=%v, want %v, for closed lines that differ only by rotation/direction; LineString.IsRing(), evaluated in float64, disagrees with the exact ring status (nearly collinear adjacent segments)%s", p.n1, p.n2, gotIO, wantIO, desc())
		} else if gotIO != wantIO {
			return h.Failf("exactequals/ignoreorder", "ExactEquals(%s,%s,IgnoreOrder)=%v, brute-force order-insensitive comparison says %v%s", p.n1, p.n2, gotIO, wantIO, desc())
		}
		if want && !gotIO {
			return h.Failf("exactequals/ignoreorder-weaker", "ExactEquals(%s,%s) but not with IgnoreOrder%s", p.n1, p.n2, desc())
		}
	}
	// IgnoreOrder and ToleranceXY together: order-insensitive matching where the
	// member relation is "within tol" (not an equivalence, so the matching has to backtrack)
	{
		tol := c.Tol
		c18Tol, c18TolUncertain = &tol, false
		ok := true
		wantBoth := eqIO(c.A, c.B, &ok)
		c18Tol = nil
		gotBoth := geom.ExactEquals(A, B, geom.IgnoreOrder, geom.ToleranceXY(c.Tol))
		revBoth := geom.ExactEquals(B, A, geom.ToleranceXY(c.Tol), geom.IgnoreOrder)
		switch {
		case !ok || c18TolUncertain:
			cx.Skip("both_options_undecided")
		case gotBoth != revBoth:
			return h.Failf("exactequals/both-asymmetric", "IgnoreOrder+ToleranceXY(%v): (A,B)=%v (B,A)=%v%s", c.Tol, gotBoth, revBoth, desc())
		case gotBoth != wantBoth && (extremeRing(c.A) || extremeRing(c.B)) && (misjudgedRing(c.A) || misjudgedRing(c.B)):
			return h.Failf("exactequals/ignoreorder-ring-extreme-magnitude", "IgnoreOrder+ToleranceXY(%v) = false for rotated rings at extreme magnitude%s", c.Tol, desc())
		case gotBoth != wantBoth && (misjudgedRing(c.A) || misjudgedRing(c.B)):
			return h.Failf("exactequals/ignoreorder-ring-float-simplicity", "IgnoreOrder+ToleranceXY(%v) = false for rotated rings that LineString.IsRing() (float64) rejects although they are exactly simple%s", c.Tol, desc())
		case gotBoth != wantBoth:
			return h.Failf("exactequals/both-options", "ExactEquals(A,B,IgnoreOrder,ToleranceXY(%v))=%v, brute-force matching says %v%s", c.Tol, gotBoth, wantBoth, desc())
		}
		if wantBoth && !plain[0] {
			cx.Class("both-options-equal-but-not-plain")
		}
	}
	// reflexive
	for i, g := range []geom.Geometry{A, B, C} {
		if !geom.ExactEquals(g, g) || !geom.ExactEquals(g, g, geom.IgnoreOrder) || !geom.ExactEquals(g, g, geom.ToleranceXY(c.Tol)) {
			return h.Failf("exactequals/not-reflexive", "geometry %d is not ExactEquals to itself%s", i, desc())
		}
	}
	// transitive
	if plain[0] && plain[1] && !plain[2] {
		return h.Failf("exactequals/not-transitive", "A=B and B=C but not A=C%s", desc())
	}
	// tolerance
	tAB := geom.ExactEquals(A, B, geom.ToleranceXY(c.Tol))
	if tBA := geom.ExactEquals(B, A, geom.ToleranceXY(c.Tol)); tAB != tBA {
		return h.Failf("exactequals/tolerance-asymmetric", "ToleranceXY(%v): (A,B)=%v (B,A)=%v%s", c.Tol, tAB, tBA, desc())
	}
	// an option value is a value: stored and applied again and again it means the same thing
	{
		opt := geom.ToleranceXY(c.Tol)
		for r := 0; r < 4; r++ {
			if got := geom.ExactEquals(A, B, opt); got != tAB {
				return h.Failf("exactequals/option-value-reuse", "ExactEquals(A,B,opt) with a stored opt = ToleranceXY(%v) gives %v on use %d, a fresh option gives %v%s", c.Tol, got, r+1, tAB, desc())
			}
		}
		fresh := geom.ExactEquals(A, B, geom.IgnoreOrder, geom.ToleranceXY(c.Tol))
		for r := 0; r < 3; r++ {
			if got := geom.ExactEquals(A, B, geom.IgnoreOrder, opt); got != fresh {
				return h.Failf("exactequals/option-value-reuse", "ExactEquals(A,B,IgnoreOrder,opt) with a stored ToleranceXY(%v) gives %v on a later use, a fresh option gives %v%s", c.Tol, got, fresh, desc())
			}
		}
	}
	if plain[0] && !tAB {
		return h.Failf("exactequals/tolerance-weaker", "ExactEquals(A,B) but not with ToleranceXY(%v)%s", c.Tol, desc())
	}
	switch c.How {
	case "all-vertices-within-tol":
		if c18JitterExact(c.A, c.B, c.Tol, false) && !tAB {
			return h.Failf("exactequals/tolerance-rejects-near", "every vertex of B is within tol/2 of A's but ToleranceXY(%v) says unequal%s", c.Tol, desc())
		}
	case "one-vertex-moved-3tol":
		if c18JitterExact(c.A, c.B, c.Tol, true) && tAB {
			return h.Failf("exactequals/tolerance-accepts-far", "a vertex of B is farther than 2*tol from A's but ToleranceXY(%v) says equal%s", c.Tol, desc())
		}
	}
	if c.How != "identical" || len(c.A.Norm().Mem) >= 2 {
		cx.NonTrivial()
	}
	cx.Sample(map[string]interface{}{"a": c.A.String(), "b": c.B.String(), "how": c.How, "plain": plain[0]})
	return nil
}

// c18JitterExact verifies, in exact arithmetic, the premise of the tolerance
// claims: near: all corresponding vertices within tol/2; far: some vertex
// farther than 2*tol (and the structures correspond).
func c18JitterExact(a, b gm.G, tol float64, far bool) bool {
	pa, pb := a.Norm(), b.Norm()
	var xa, xb [][2]float64
	pa.MapPositions(func(p []gm.F, ct int) []gm.F { xa = append(xa, [2]float64{float64(p[0]), float64(p[1])}); return p })
	pb.MapPositions(func(p []gm.F, ct int) []gm.F { xb = append(xb, [2]float64{float64(p[0]), float64(p[1])}); return p })
	if len(xa) != len(xb) || len(xa) == 0 {
		return false
	}
	half := exact.R(tol / 2)
	half.Mul(half, half)
	two := exact.R(tol * 2)
	two.Mul(two, two)
	anyFar := false
	for i := range xa {
		d2 := exact.Dist2(exact.P(xa[i][0], xa[i][1]), exact.P(xb[i][0], xb[i][1]))
		if !far && d2.Cmp(half) > 0 {
			return false
		}
		if d2.Cmp(two) > 0 {
			anyFar = true
		}
	}
	if far {
		return anyFar
	}
	return true
}

func TestC18(t *testing.T) {
	h.Run(t, h.Prop[C18Case]{
		ID:              "C18",
		WholeCheckLimit: 300 * time.Second,
		Rule:            "cases = a base geometry A (arbitrary structures over all finite float64 classes, or valid shapes with real rings scaled by 2^k, k from -1066 to 990; members 0..6 incl. duplicate members), B derived from A and C derived from B by one drawn change (identical / one ordinate +-1 ulp / two members or holes swapped / one ring rotated / one line reversed / one member emptied / coordinate type changed / Point<->MultiPoint wrapping / sign of a zero / order-only changes at every level / member dropped or duplicated / XY jitter relative to a tolerance); oracles = WKB equality via the independent writer after -0 -> +0 (no options), brute-force order-insensitive matcher with exact ring simplicity (IgnoreOrder), exact rational distances for the ToleranceXY premises; also reflexivity, symmetry, transitivity on the triple; non-trivial = B differs from A in exactly one respect (anything but 'identical') or A has >= 2 members",
		Assumptions:     []string{"independent WKB writer", "exact rational ring-simplicity test", "closed lines with repeated consecutive vertices or < 4 positions have undefined ring status and are skipped for IgnoreOrder (counted)"},
		Gen:             c18Gen,
		Check:           c18Check,
		Enumerate:       c18Enumerate,
	})
}

// c18Enumerate: wide collections (127..257 distinct members): B lists A's
// members in another order, C is B with one member replaced by a copy of
// another (the multiset differs only in two multiplicities).
func c18Enumerate(cx *h.Ctx, yield func(C18Case)) []string {
	for _, k := range []int{127, 128, 129, 255, 256, 257} {
		for _, typ := range []string{gm.MultiPoint, gm.MultiLineString, gm.MultiPolygon, gm.GeometryCollection} {
			if typ == gm.MultiPolygon && k > 129 {
				continue // (the brute-force oracle tests every ring pairing for exact simplicity: seconds per comparison)
			}
			a := gm.G{T: typ}
			for i := 0; i < k; i++ {
				x := float64(10 * i)
				var m gm.G
				switch typ {
				case gm.MultiPoint:
					m = gm.G{T: gm.Point, Co: gm.Fs(x, float64(i%7))}
				case gm.MultiLineString:
					m = gm.G{T: gm.LineString, Co: gm.Fs(x, 0, x+3, float64(1+i%5))}
				case gm.MultiPolygon:
					m = gm.G{T: gm.Polygon, Rings: [][]gm.F{gm.Fs(x, 0, x+4, 0, x+4, 4, x, 4, x, 0)}}
				default:
					m = []gm.G{{T: gm.Point, Co: gm.Fs(x, 1)}, {T: gm.LineString, Co: gm.Fs(x, 2, x+1, 3)}, {T: gm.MultiPoint, Mem: []gm.G{{T: gm.Point, Co: gm.Fs(x, 5)}}}}[i%3]
				}
				a.Mem = append(a.Mem, m)
			}
			for variant := 0; variant < 2; variant++ {
				b := a.Clone()
				if variant == 0 { // reversed order
					for i, j := 0, k-1; i < j; i, j = i+1, j-1 {
						b.Mem[i], b.Mem[j] = b.Mem[j], b.Mem[i]
					}
				} else { // rotated by a third
					b.Mem = append(append([]gm.G{}, a.Clone().Mem[k/3:]...), a.Clone().Mem[:k/3]...)
				}
				c := b.Clone()
				c.Mem[k-1] = c.Mem[(k-1)%3].Clone()
				yield(C18Case{A: a, B: b, C: c, How: "wide-reordered", HowC: "wide-one-member-replaced-by-a-copy-of-another", Tol: 0.25})
			}
		}
	}
	return []string{"collections of 127..257 distinct members (MultiPoint, MultiLineString, MultiPolygon, GeometryCollection): reordered, and with one member replaced by a copy of another"}
}

// extremeRing: the geometry has a closed line/ring whose non-zero XY magnitudes
// are below 1e-150 or above 1e150 (products of coordinate differences under- or
// overflow float64).
func extremeRing(g gm.G) bool {
	found := false
	chk := func(fs []gm.F, ct int) {
		li := analyseLine(fs, ct)
		if !li.closed {
			return
		}
		d := gm.Dim(ct)
		for i := 0; i+d <= len(fs); i += d {
			for _, v := range []float64{math.Abs(float64(fs[i])), math.Abs(float64(fs[i+1]))} {
				if v != 0 && (v < 1e-150 || v > 1e150) {
					found = true
				}
			}
		}
	}
	g.Norm().Walk(func(n gm.G) {
		if n.T == gm.LineString {
			chk(n.Co, n.CT)
		}
		for _, r := range n.Rings {
			chk(r, n.CT)
		}
	})
	return found
}

// misjudgedRing: for some closed line or polygon ring of g the exact ring status (closed and simple, rational
// arithmetic) differs from the library's LineString.IsRing(), evaluated in float64 - in either direction.  This is the root cause of
// the open findings F18/F28: ExactEquals only tries rotations when IsRing() holds.
func misjudgedRing(g gm.G) bool {
	found := false
	chk := func(fs []gm.F, ct int) {
		li := analyseLine(fs, ct)
		if !li.closed || !li.clean {
			return
		}
		ls := gm.G{T: gm.LineString, CT: ct, Co: fs}.ToGeom()
		if ls.IsLineString() && ls.MustAsLineString().IsRing() != li.ring {
			found = true
		}
	}
	g.Norm().Walk(func(n gm.G) {
		if n.T == gm.LineString {
			chk(n.Co, n.CT)
		}
		for _, r := range n.Rings {
			chk(r, n.CT)
		}
	})
	return found
}

// c18GridGeom: MultiPoint / MultiLineString / collection on a half-integer grid 0..3.
func c18GridGeom(t *rapid.T) gm.G {
	ct := rapid.IntRange(0, 1).Draw(t, "gct")
	pos := func() []gm.F {
		p := []gm.F{gm.F(float64(rapid.IntRange(0, 6).Draw(t, "gx")) / 2), gm.F(rapid.IntRange(0, 1).Draw(t, "gy"))}
		if ct == 1 {
			p = append(p, gm.F(rapid.IntRange(0, 1).Draw(t, "gz")))
		}
		return p
	}
	n := rapid.IntRange(2, 6).Draw(t, "gn")
	switch rapid.IntRange(0, 3).Draw(t, "gkind") {
	case 3: // small triangles at grid positions (several may coincide): members with extent
		g := gm.G{T: gm.MultiPolygon, CT: ct}
		for i := 0; i < n; i++ {
			p0 := pos()
			d := len(p0)
			mk := func(dx, dy float64) []gm.F {
				q := append([]gm.F{}, p0...)
				q[0], q[1] = gm.F(float64(q[0])+dx), gm.F(float64(q[1])+dy)
				return q[:d]
			}
			ring := append(append(append(append([]gm.F{}, p0...), mk(0.25, 0)...), mk(0, 0.25)...), p0...)
			g.Mem = append(g.Mem, gm.G{T: gm.Polygon, CT: ct, Rings: [][]gm.F{ring}})
		}
		return g
	case 0:
		g := gm.G{T: gm.MultiPoint, CT: ct}
		for i := 0; i < n; i++ {
			g.Mem = append(g.Mem, gm.G{T: gm.Point, CT: ct, Co: pos()})
		}
		return g
	case 1:
		g := gm.G{T: gm.MultiLineString, CT: ct}
		for i := 0; i < n; i++ {
			g.Mem = append(g.Mem, gm.G{T: gm.LineString, CT: ct, Co: append(pos(), pos()...)})
		}
		return g
	default:
		g := gm.G{T: gm.GeometryCollection, CT: ct}
		for i := 0; i < n; i++ {
			if rapid.Bool().Draw(t, "gpt") {
				g.Mem = append(g.Mem, gm.G{T: gm.Point, CT: ct, Co: pos()})
			} else {
				g.Mem = append(g.Mem, gm.G{T: gm.LineString, CT: ct, Co: append(pos(), pos()...)})
			}
		}
		return g
	}
}

// dupRingVertex repeats one vertex of one ring/closed line consecutively
// (possibly the start vertex); the point set and ring status are unchanged.
func dupRingVertex(t *rapid.T, g gm.G) gm.G {
	out := g.Norm().Clone()
	var nodes [][]int
	collect(out, nil, func(n gm.G) bool { return len(n.Rings) > 0 || (n.T == gm.LineString && len(n.Co) > 0) }, &nodes)
	if len(nodes) == 0 {
		return out
	}
	n := at(&out, nodes[rapid.IntRange(0, len(nodes)-1).Draw(t, "dupnode")])
	d := gm.Dim(n.CT)
	target := &n.Co
	if len(n.Rings) > 0 {
		target = &n.Rings[rapid.IntRange(0, len(n.Rings)-1).Draw(t, "dupring")]
	}
	cnt := len(*target) / d
	i := rapid.IntRange(0, cnt-1).Draw(t, "dupat")
	if i == cnt-1 && cnt > 1 {
		i = 0
	}
	fs := *target
	res := append([]gm.F(nil), fs[:(i+1)*d]...)
	res = append(res, fs[i*d:(i+1)*d]...)
	res = append(res, fs[(i+1)*d:]...)
	*target = res
	return out
}

package props

import (
	"fmt"
	"math"
	"math/big"

	"github.com/peterstace/simplefeatures/geom"
	"pgregory.net/rapid"

	"verif/internal/gen"
	"verif/internal/gm"
	"verif/internal/h"
)

// ---------- C12, float family: envelope algebra on arbitrary finite float64 ordinates ----------
//
// The integer lattice {-2..2}^2 decides every comparison exactly but cannot expose arithmetic that is only
// wrong after rounding (midpoint/extent formulations of overlap, a distance that loses its gap to
// cancellation).  Here a case draws a small pool of ordinates (so equal, touching and nested boxes stay
// common) from non-dyadic decimals, huge, tiny and mixed-sign floats; predicates and joins are compared with
// plain float64 comparisons (exact), measures with the correctly rounded value of the exact rational.

type FBox struct {
	Empty bool    `json:"empty,omitempty"`
	V     [4]gm.F `json:"v"` // x0 y0 x1 y1, x0<=x1, y0<=y1
}

func (b FBox) env() geom.Envelope {
	if b.Empty {
		return geom.Envelope{}
	}
	return geom.NewEnvelope(geom.XY{X: float64(b.V[0]), Y: float64(b.V[1])}, geom.XY{X: float64(b.V[2]), Y: float64(b.V[3])})
}

func (b FBox) String() string {
	if b.Empty {
		return "EMPTY"
	}
	return fmt.Sprintf("[%v,%v]x[%v,%v]", float64(b.V[0]), float64(b.V[2]), float64(b.V[1]), float64(b.V[3]))
}

func (b FBox) f() (x0, y0, x1, y1 float64) {
	return float64(b.V[0]), float64(b.V[1]), float64(b.V[2]), float64(b.V[3])
}

func joinFBox(a, b FBox) FBox {
	if a.Empty {
		return b
	}
	if b.Empty {
		return a
	}
	return FBox{V: [4]gm.F{gm.F(math.Min(float64(a.V[0]), float64(b.V[0]))), gm.F(math.Min(float64(a.V[1]), float64(b.V[1]))),
		gm.F(math.Max(float64(a.V[2]), float64(b.V[2]))), gm.F(math.Max(float64(a.V[3]), float64(b.V[3])))}}
}

// eqz: float equality that identifies -0 and +0 (an envelope may report either).
func eqz(a, b float64) bool { return a == b }

func fenvIs(e geom.Envelope, b FBox) bool {
	mn, mx, ok := e.MinMaxXYs()
	if b.Empty {
		return !ok && e.IsEmpty()
	}
	x0, y0, x1, y1 := b.f()
	return ok && !e.IsEmpty() && eqz(mn.X, x0) && eqz(mn.Y, y0) && eqz(mx.X, x1) && eqz(mx.Y, y1)
}

// closeRel: |got-want| <= tol*max(|want|,scale), with infinities equal to themselves.
func closeRel(got, want, scale, tol float64) bool {
	if got == want {
		return true
	}
	if math.IsNaN(got) || math.IsInf(got, 0) || math.IsInf(want, 0) {
		return false
	}
	return math.Abs(got-want) <= tol*math.Max(math.Abs(want), scale)
}

func ratOf(f float64) *big.Rat { return new(big.Rat).SetFloat64(f) }

func c12CheckFEnv(c C12Case, cx *h.Ctx) *h.Failure {
	a, b := c.FE[0], c.FE[1]
	ea, eb := a.env(), b.env()
	if !fenvIs(ea, a) || !fenvIs(eb, b) {
		return h.Failf("envelope/new", "NewEnvelope does not give %s / %s: %v / %v", a, b, ea, eb)
	}
	ax0, ay0, ax1, ay1 := a.f()
	bx0, by0, bx1, by1 := b.f()
	inter := !a.Empty && !b.Empty && ax0 <= bx1 && bx0 <= ax1 && ay0 <= by1 && by0 <= ay1
	if ea.Intersects(eb) != inter || eb.Intersects(ea) != inter {
		return h.Failf("envelope/intersects", "%s Intersects %s = %v/%v, want %v", a, b, ea.Intersects(eb), eb.Intersects(ea), inter)
	}
	covers := !a.Empty && !b.Empty && ax0 <= bx0 && ay0 <= by0 && ax1 >= bx1 && ay1 >= by1
	if ea.Covers(eb) != covers {
		return h.Failf("envelope/covers", "%s Covers %s = %v, want %v", a, b, ea.Covers(eb), covers)
	}
	d, ok := ea.Distance(eb)
	d2, ok2 := eb.Distance(ea)
	if ok != (!a.Empty && !b.Empty) || ok2 != ok {
		return h.Failf("envelope/distance-defined", "%s Distance %s defined=%v/%v", a, b, ok, ok2)
	}
	if ok {
		if d != d2 {
			return h.Failf("envelope/distance-asymmetric", "%s Distance %s = %v, reversed %v", a, b, d, d2)
		}
		gap := func(a0, a1, b0, b1 float64) *big.Rat {
			switch {
			case b0 > a1:
				return new(big.Rat).Sub(ratOf(b0), ratOf(a1))
			case a0 > b1:
				return new(big.Rat).Sub(ratOf(a0), ratOf(b1))
			}
			return new(big.Rat)
		}
		gx, gy := gap(ax0, ax1, bx0, bx1), gap(ay0, ay1, by0, by1)
		s := new(big.Rat).Add(new(big.Rat).Mul(gx, gx), new(big.Rat).Mul(gy, gy))
		sf := new(big.Float).SetPrec(200).SetRat(s)
		want, _ := new(big.Float).SetPrec(200).Sqrt(sf).Float64()
		gxf, _ := gx.Float64()
		gyf, _ := gy.Float64()
		big1 := math.Max(gxf, gyf)
		small := math.Min(gxf, gyf)
		if small == 0 {
			small = big1
		}
		// squares of the gaps must neither overflow nor underflow in float64 for the value to be demanded
		if big1 == 0 || (big1 < 1e150 && small > 1e-150) {
			if !closeRel(d, want, 0, 1e-14) {
				return h.Failf("envelope/distance", "%s Distance %s = %v, exact %v", a, b, d, want)
			}
			if (d == 0) != inter {
				return h.Failf("envelope/distance-zero", "%s Distance %s = %v but Intersects = %v", a, b, d, inter)
			}
			cx.Count("fenv_distance_compared", 1)
		} else {
			cx.Count("fenv_distance_skipped_extreme_gap", 1)
			if inter && d != 0 {
				return h.Failf("envelope/distance-zero", "%s Distance %s = %v but they intersect", a, b, d)
			}
		}
	}
	j := joinFBox(a, b)
	if got := ea.ExpandToIncludeEnvelope(eb); !fenvIs(got, j) {
		return h.Failf("envelope/join", "%s join %s = %v, want %s", a, b, got, j)
	}
	if got := eb.ExpandToIncludeEnvelope(ea); !fenvIs(got, j) {
		return h.Failf("envelope/join-commutative", "%s join %s = %v, want %s", b, a, got, j)
	}
	if got := ea.ExpandToIncludeEnvelope(ea); !fenvIs(got, a) {
		return h.Failf("envelope/join-idempotent", "%s join itself = %v", a, got)
	}
	if !a.Empty && !b.Empty {
		je := ea.ExpandToIncludeEnvelope(eb)
		if !je.Covers(ea) || !je.Covers(eb) || !je.Intersects(ea) {
			return h.Failf("envelope/join-covers", "join of %s and %s does not cover/intersect its operands", a, b)
		}
		if covers != fenvIs(je, a) {
			return h.Failf("envelope/covers-vs-join", "%s Covers %s = %v but join==a is %v", a, b, covers, fenvIs(je, a))
		}
	}
	cc := c.FE[2]
	ec := cc.env()
	l := ea.ExpandToIncludeEnvelope(eb).ExpandToIncludeEnvelope(ec)
	r := ea.ExpandToIncludeEnvelope(eb.ExpandToIncludeEnvelope(ec))
	if !fenvIs(l, joinFBox(joinFBox(a, b), cc)) || !fenvIs(r, joinFBox(a, joinFBox(b, cc))) {
		return h.Failf("envelope/join-associative", "join of %s %s %s: %v / %v", a, b, cc, l, r)
	}
	if ea.Covers(eb) && eb.Covers(ec) && !ea.Covers(ec) {
		return h.Failf("envelope/covers-transitive", "%s covers %s covers %s but not transitively", a, b, cc)
	}
	if !a.Empty {
		w, hh := ax1-ax0, ay1-ay0 // correctly rounded differences
		if !closeRel(ea.Width(), w, 0, 4e-16) || !closeRel(ea.Height(), hh, 0, 4e-16) {
			return h.Failf("envelope/measures", "%s: Width/Height = %v/%v, want %v/%v", a, ea.Width(), ea.Height(), w, hh)
		}
		// area: exact product of the exact extents, rounded
		wr := new(big.Rat).Sub(ratOf(ax1), ratOf(ax0))
		hr := new(big.Rat).Sub(ratOf(ay1), ratOf(ay0))
		ar, _ := new(big.Rat).Mul(wr, hr).Float64()
		if !(math.IsInf(ar, 0) || (ar != 0 && ar < 1e-290)) && !closeRel(ea.Area(), ar, 0, 1e-15) {
			return h.Failf("envelope/measures", "%s: Area = %v, exact %v", a, ea.Area(), ar)
		}
		if xy, ok := ea.Center().XY(); !ok {
			return h.Failf("envelope/center", "%s: Center is empty", a)
		} else {
			cxr, _ := new(big.Rat).Quo(new(big.Rat).Add(ratOf(ax0), ratOf(ax1)), big.NewRat(2, 1)).Float64()
			cyr, _ := new(big.Rat).Quo(new(big.Rat).Add(ratOf(ay0), ratOf(ay1)), big.NewRat(2, 1)).Float64()
			sx := math.Max(math.Abs(ax0), math.Abs(ax1))
			sy := math.Max(math.Abs(ay0), math.Abs(ay1))
			if !closeRel(xy.X, cxr, sx, 4e-16) || !closeRel(xy.Y, cyr, sy, 4e-16) || xy.X < ax0 || xy.X > ax1 || xy.Y < ay0 || xy.Y > ay1 {
				return h.Failf("envelope/center", "%s: Center = %v, exact (%v %v)", a, xy, cxr, cyr)
			}
			if !ea.Contains(xy) {
				return h.Failf("envelope/center-not-contained", "%s does not contain its Center %v", a, xy)
			}
		}
		isPt, isLn, isRc := ax0 == ax1 && ay0 == ay1, (ax0 == ax1) != (ay0 == ay1), ax0 != ax1 && ay0 != ay1
		if ea.IsPoint() != isPt || ea.IsLine() != isLn || ea.IsRectangle() != isRc {
			return h.Failf("envelope/classification", "%s: IsPoint/IsLine/IsRectangle = %v/%v/%v", a, ea.IsPoint(), ea.IsLine(), ea.IsRectangle())
		}
		g := ea.AsGeometry()
		wantT := geom.TypePolygon
		if isPt {
			wantT = geom.TypePoint
		} else if isLn {
			wantT = geom.TypeLineString
		}
		if g.Type() != wantT || !fenvIs(g.Envelope(), a) {
			return h.Failf("envelope/asgeometry", "%s: AsGeometry = %s", a, g.AsText())
		}
		dg := ea.BoundingDiagonal()
		if !fenvIs(dg.Envelope(), a) || (isPt && dg.Type() != geom.TypePoint) || (!isPt && dg.Type() != geom.TypeLineString) {
			return h.Failf("envelope/diagonal", "%s: BoundingDiagonal = %s", a, dg.AsText())
		}
		bx, ok := ea.AsBox()
		if !ok || bx.MinX != ax0 || bx.MinY != ay0 || bx.MaxX != ax1 || bx.MaxY != ay1 {
			return h.Failf("envelope/asbox", "%s: AsBox = %v,%v", a, bx, ok)
		}
		if mn, ok := ea.Min().XY(); !ok || mn.X != ax0 || mn.Y != ay0 {
			return h.Failf("envelope/min", "%s: Min = %v", a, mn)
		}
		if mx, ok := ea.Max().XY(); !ok || mx.X != ax1 || mx.Y != ay1 {
			return h.Failf("envelope/max", "%s: Max = %v", a, mx)
		}
	}
	// Contains / ExpandToIncludeXY on every pool point (corners of all three boxes and their mixtures)
	var xs, ys []float64
	for _, bb := range c.FE {
		if !bb.Empty {
			xs = append(xs, float64(bb.V[0]), float64(bb.V[2]))
			ys = append(ys, float64(bb.V[1]), float64(bb.V[3]))
		}
	}
	for _, px := range xs {
		for _, py := range ys {
			want := !a.Empty && px >= ax0 && px <= ax1 && py >= ay0 && py <= ay1
			p := geom.XY{X: px, Y: py}
			if ea.Contains(p) != want {
				return h.Failf("envelope/contains", "%s Contains (%v %v) = %v", a, px, py, !want)
			}
			if got := ea.ExpandToIncludeXY(p); !fenvIs(got, joinFBox(a, FBox{V: [4]gm.F{gm.F(px), gm.F(py), gm.F(px), gm.F(py)}})) {
				return h.Failf("envelope/expand-xy", "%s ExpandToIncludeXY (%v %v) = %v", a, px, py, got)
			}
			// one ulp outside is outside, one ulp inside is inside
			for _, q := range []geom.XY{{X: math.Nextafter(px, math.Inf(1)), Y: py}, {X: math.Nextafter(px, math.Inf(-1)), Y: py}, {X: px, Y: math.Nextafter(py, math.Inf(1))}, {X: px, Y: math.Nextafter(py, math.Inf(-1))}} {
				w := !a.Empty && q.X >= ax0 && q.X <= ax1 && q.Y >= ay0 && q.Y <= ay1
				if ea.Contains(q) != w {
					return h.Failf("envelope/contains", "%s Contains (%v %v) = %v (one ulp from a pool ordinate)", a, q.X, q.Y, !w)
				}
			}
		}
	}
	if !a.Empty && !b.Empty && a != b {
		cx.NonTrivial()
		rel := "disjoint"
		switch {
		case covers:
			rel = "a-covers-b"
		case inter && (ax1 == bx0 || bx1 == ax0 || ay1 == by0 || by1 == ay0):
			rel = "touching"
		case inter:
			rel = "overlapping"
		}
		cx.Class("fenv=" + rel)
	}
	cx.Sample(map[string]interface{}{"a": a.String(), "b": b.String(), "intersects": inter, "covers": covers})
	return nil
}

var c12Pools = [][]float64{
	{0.1, 0.2, 0.3, 0.7, 0.8, 1.1, -0.1, -0.3, 1.0 / 3, 2.0 / 3},
	{1e15 + 0.5, 1e15 + 1.5, 1e15 + 0.1, 1e15, 1e15 - 0.3, -1e15 - 0.7},
	{1e-300, 2e-300, 3e-300, -1e-300, 5e-324, 0, 1e-310},
	{1e300, 2e300, -1e300, 3e299, 1e299, -2e300},
	{-0.0, 0, 1, -1, 0.5, 1e-9, -1e-9},
}

func c12GenFBox(t *rapid.T, pool []float64) FBox {
	if rapid.IntRange(0, 11).Draw(t, "empty") == 0 {
		return FBox{Empty: true}
	}
	pick := func(l string) float64 {
		if rapid.IntRange(0, 5).Draw(t, l+"any") == 0 {
			return gen.FiniteFloat(t, l)
		}
		return pool[rapid.IntRange(0, len(pool)-1).Draw(t, l)]
	}
	x0, x1, y0, y1 := pick("x0"), pick("x1"), pick("y0"), pick("y1")
	if rapid.IntRange(0, 5).Draw(t, "degx") == 0 {
		x1 = x0
	}
	if rapid.IntRange(0, 5).Draw(t, "degy") == 0 {
		y1 = y0
	}
	if x0 > x1 {
		x0, x1 = x1, x0
	}
	if y0 > y1 {
		y0, y1 = y1, y0
	}
	// the maximal floats overflow every difference; keep |v| <= 1e300 as in the stated classes
	for _, v := range []*float64{&x0, &x1, &y0, &y1} {
		if math.Abs(*v) > 2e300 {
			*v = math.Copysign(2e300, *v)
		}
	}
	return FBox{V: [4]gm.F{gm.F(x0), gm.F(y0), gm.F(x1), gm.F(y1)}}
}

func c12GenFEnv(t *rapid.T) C12Case {
	c := C12Case{Kind: "fenv", N: 3}
	pool := c12Pools[rapid.IntRange(0, len(c12Pools)-1).Draw(t, "pool")]
	if rapid.IntRange(0, 3).Draw(t, "mixpool") == 0 {
		pool = append(append([]float64{}, pool...), c12Pools[rapid.IntRange(0, len(c12Pools)-1).Draw(t, "pool2")]...)
	}
	for i := range c.FE {
		c.FE[i] = c12GenFBox(t, pool)
	}
	// derived boxes: b shares an edge / corner with a, or nests
	if !c.FE[0].Empty && !c.FE[1].Empty {
		a := c.FE[0]
		switch rapid.IntRange(0, 5).Draw(t, "derive") {
		case 0: // b starts where a ends (edge touch)
			b := c.FE[1]
			w := float64(b.V[2]) - float64(b.V[0])
			if x1 := float64(a.V[2]) + math.Abs(w); !math.IsInf(x1, 0) {
				c.FE[1].V[0], c.FE[1].V[2] = a.V[2], gm.F(x1)
			}
		case 1: // corner touch
			b := c.FE[1]
			if float64(b.V[2]) >= float64(a.V[2]) && float64(b.V[3]) >= float64(a.V[3]) {
				c.FE[1].V[0], c.FE[1].V[1] = a.V[2], a.V[3]
			}
		case 2: // identical
			c.FE[1] = a
		}
	}
	return c
}

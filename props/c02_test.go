package props

import (
	"fmt"
	"math"
	"strings"
	"testing"

	"github.com/peterstace/simplefeatures/geom"
	"pgregory.net/rapid"

	"verif/internal/exact"
	"verif/internal/gen"
	"verif/internal/gm"
	"verif/internal/h"
)

// ---------- shared pair generator for C01 / C02 / C09 ----------

type PairCase struct {
	A      gm.G   `json:"a"`
	B      gm.G   `json:"b"`
	Family string `json:"family"`
}

// genPair draws an ordered pair of valid geometries on triangulated grids that
// either coincide (shared vertices, collinear overlaps everywhere) or are
// offset by half a cell (proper crossings), then applies one injective integer
// map to both. disjointMembers: collections have pairwise disjoint members.
func genPair(t *rapid.T, cx *h.Ctx, disjointMembers bool, stats *gen.Stats) PairCase {
	kmax := 3
	if cx.Thorough {
		kmax = 4
	}
	// (rapid's IntRange favours the ends of the range: the values 0 and 11 are drawn far more often than 1/12)
	switch rapid.IntRange(0, 11).Draw(t, "holefamily") {
	case 0:
		return genHolePair(t, cx, disjointMembers, stats)
	case 5:
		// stats != nil marks the C01 caller: small shapes there
		return genFloatPair(t, cx, disjointMembers, stats != nil)
	case 8, 9:
		return genConcurrentPair(t, disjointMembers)
	}
	k := rapid.IntRange(2, kmax).Draw(t, "k")
	ca := gen.DrawComplex(t, k, [2]int{0, 0})
	var cb gen.Complex
	fam := "same-complex"
	switch rapid.IntRange(0, 3).Draw(t, "pairing") {
	case 0, 1:
		cb = ca
	case 2:
		cb = gen.DrawComplex(t, k, [2]int{1, 1})
		fam = "half-cell-offset"
	default:
		cb = gen.DrawComplex(t, rapid.IntRange(2, kmax).Draw(t, "kb"), [2]int{2 * rapid.IntRange(-1, 1).Draw(t, "ox"), 2 * rapid.IntRange(-1, 1).Draw(t, "oy")})
		fam = "shifted-complex"
	}
	ta := rapid.SampledFrom(gm.Types).Draw(t, "typeA")
	tb := rapid.SampledFrom(gm.Types).Draw(t, "typeB")
	a := ca.Geom(t, ta, 0, disjointMembers, stats)
	b := cb.Geom(t, tb, 0, disjointMembers, stats)
	if rapid.IntRange(0, 19).Draw(t, "identical") == 0 {
		b = a.Clone()
		fam = "identical"
		switch rapid.IntRange(0, 3).Draw(t, "identicalvariant") {
		case 1:
			// the same point set spelled as a collection that also holds an empty member of a higher dimension
			if et := []string{gm.LineString, gm.Polygon, gm.MultiLineString, gm.MultiPolygon}[rapid.IntRange(0, 3).Draw(t, "emptytype")]; true {
				mem := []gm.G{b, {T: et}}
				if rapid.Bool().Draw(t, "emptyfirst") {
					mem[0], mem[1] = mem[1], mem[0]
				}
				b = gm.G{T: gm.GeometryCollection, Mem: mem}
				fam = "identical+empty-member"
			}
		case 2:
			// the same point set traced out and (partly) back: every line runs to its end and returns along itself
			b = retraceLines(b, rapid.SliceOfN(rapid.IntRange(0, 40), 1, 4).Draw(t, "retrace"))
			fam = "identical+retraced"
		}
		if rapid.Bool().Draw(t, "identicalswap") {
			a, b = b, a
		}
	}
	// repeated consecutive vertices (valid; zero-length segments carry no points of their own): first, middle,
	// last/closing vertex of drawn lines and rings
	if rapid.IntRange(0, 4).Draw(t, "dups") == 0 {
		a = dupVertices(a, rapid.SliceOfN(rapid.IntRange(0, 40), 1, 6).Draw(t, "dupseedsA"))
		b = dupVertices(b, rapid.SliceOfN(rapid.IntRange(0, 40), 1, 6).Draw(t, "dupseedsB"))
	}
	m := gen.DrawIntMap(t, -3, 2*kmax+3)
	pc := PairCase{A: m.Apply(a), B: m.Apply(b), Family: fam}
	if rapid.IntRange(0, 4).Draw(t, "floatpair") == 0 {
		// general-position float family: the same exact dyadic affine image of both operands
		// (no rounding, so validity and incidences are preserved; ordinates become non-integral)
		aff := [6]float64{
			float64(rapid.IntRange(512, 2048).Draw(t, "fa")) / 1024, float64(rapid.IntRange(-400, 400).Draw(t, "fb")) / 1024, float64(rapid.IntRange(-8000, 8000).Draw(t, "ftx")) / 8,
			float64(rapid.IntRange(-400, 400).Draw(t, "fc")) / 1024, float64(rapid.IntRange(512, 2048).Draw(t, "fd")) / 1024, float64(rapid.IntRange(-8000, 8000).Draw(t, "fty")) / 8}
		sc := math.Ldexp(1, rapid.IntRange(-10, 10).Draw(t, "fscale"))
		for i := range aff {
			aff[i] *= sc
		}
		pc = PairCase{A: applyAff(a, aff), B: applyAff(b, aff), Family: fam + "+float"}
	}
	return pc
}

// genHolePair: A is an annulus-like polygon (square shell, large square hole,
// optionally an island polygon inside the hole, optionally a second small hole
// in the solid part); B is a small geometry of any type placed inside the hole,
// inside the island, in the solid part or straddling. Exercises the
// point/line/polygon-in-hole paths that boundary tests alone do not decide.
func genHolePair(t *rapid.T, cx *h.Ctx, disjointMembers bool, stats *gen.Stats) PairCase {
	sq := func(x0, y0, x1, y1 float64, cw bool) []gm.F {
		if cw {
			return gm.Fs(x0, y0, x0, y1, x1, y1, x1, y0, x0, y0)
		}
		return gm.Fs(x0, y0, x1, y0, x1, y1, x0, y1, x0, y0)
	}
	shell := gm.G{T: gm.Polygon, Rings: [][]gm.F{sq(0, 0, 16, 16, false), sq(2, 2, 12, 12, true)}}
	if rapid.Bool().Draw(t, "secondhole") {
		shell.Rings = append(shell.Rings, sq(13, 13, 15, 15, rapid.Bool().Draw(t, "h2cw")))
	}
	lholes := rapid.IntRange(0, 3).Draw(t, "lholes") == 0
	if lholes {
		// an L-shaped hole and a second hole in the notch of the L: the holes are disjoint but the second lies inside
		// the bounding box of the first; the other operand goes into the second hole
		shell = gm.G{T: gm.Polygon, Rings: [][]gm.F{sq(0, 0, 16, 16, false),
			gm.Fs(2, 2, 2, 12, 6, 12, 6, 6, 12, 6, 12, 2, 2, 2), sq(8, 8, 12, 12, true)}}
		if rapid.Bool().Draw(t, "lholeswap") {
			shell.Rings[1], shell.Rings[2] = shell.Rings[2], shell.Rings[1]
		}
	}
	var a gm.G = shell
	if !lholes && rapid.Bool().Draw(t, "island") {
		island := gm.G{T: gm.Polygon, Rings: [][]gm.F{sq(4, 4, 10, 10, false)}}
		if rapid.Bool().Draw(t, "islandhole") {
			island.Rings = append(island.Rings, sq(6, 6, 8, 8, true))
		}
		a = gm.G{T: gm.MultiPolygon, Mem: []gm.G{shell, island}}
		if rapid.Bool().Draw(t, "islandfirst") {
			a.Mem[0], a.Mem[1] = a.Mem[1], a.Mem[0]
		}
	}
	if !disjointMembers && rapid.IntRange(0, 2).Draw(t, "cover") == 0 {
		// a collection whose members overlap: the annulus plus a polygon that covers its hole (fully,
		// partly, or exactly), optionally plus a further overlapping polygon
		covers := [][4]float64{{1, 1, 13, 13}, {2, 2, 12, 12}, {3, 3, 11, 11}, {1, 5, 9, 15}, {2, 2, 7, 12}, {-1, -1, 17, 17}}
		cv := covers[rapid.IntRange(0, len(covers)-1).Draw(t, "coverbox")]
		mem := []gm.G{shell, {T: gm.Polygon, Rings: [][]gm.F{sq(cv[0], cv[1], cv[2], cv[3], rapid.Bool().Draw(t, "covercw"))}}}
		if rapid.Bool().Draw(t, "cover2") {
			mem = append(mem, gm.G{T: gm.Polygon, Rings: [][]gm.F{sq(6, -2, 9, 18, false)}})
		}
		if rapid.Bool().Draw(t, "coverfirst") {
			mem[0], mem[1] = mem[1], mem[0]
		}
		a = gm.G{T: gm.GeometryCollection, Mem: mem}
	}
	// B: a small complex placed somewhere relative to A
	place := rapid.SampledFrom([][2]int{{3, 3}, {5, 5}, {6, 6}, {2, 2}, {0, 0}, {12, 12}, {13, 1}, {7, 3}, {3, 8}}).Draw(t, "place")
	kb := rapid.IntRange(1, 2).Draw(t, "kb")
	if lholes {
		place = rapid.SampledFrom([][2]int{{9, 9}, {8, 8}, {9, 8}, {3, 3}, {7, 7}, {12, 12}}).Draw(t, "lplace")
		kb = 1
	}
	cb := gen.DrawComplex(t, kb, place)
	tb := rapid.SampledFrom(gm.Types).Draw(t, "typeB")
	b := cb.Geom(t, tb, 0, disjointMembers, stats)
	// decoys: a far-away first (or middle) member in each operand, so that the member which decides the
	// relation is not the first one and shares no ring contact with anything (containment must be found by a
	// point-in-polygon probe of the right member pair)
	if rapid.IntRange(0, 2).Draw(t, "decoys") == 0 {
		lead := func(g gm.G, decoy gm.G, l string) gm.G {
			g = g.Norm()
			var mt string
			switch decoy.T {
			case gm.Polygon:
				mt = gm.MultiPolygon
			case gm.LineString:
				mt = gm.MultiLineString
			default:
				mt = gm.MultiPoint
			}
			var mem []gm.G
			switch {
			case g.T == decoy.T:
				mem = []gm.G{g}
			case g.T == mt:
				mem = append(mem, g.Mem...)
			default:
				return g
			}
			pos := rapid.IntRange(0, len(mem)).Draw(t, l)
			if pos > 0 && rapid.Bool().Draw(t, l+"first") {
				pos = 0
			}
			out := append(append(append([]gm.G{}, mem[:pos]...), decoy), mem[pos:]...)
			return gm.G{T: mt, Mem: out}
		}
		decoysA := []gm.G{{T: gm.Polygon, Rings: [][]gm.F{sq(20, 0, 22, 2, false)}}, {T: gm.LineString, Co: gm.Fs(20, 0, 22, 2)}, {T: gm.Point, Co: gm.Fs(21, 1)}}
		decoysB := []gm.G{{T: gm.Polygon, Rings: [][]gm.F{sq(0, 20, 2, 22, true)}}, {T: gm.LineString, Co: gm.Fs(0, 20, 2, 22, 2, 20)}, {T: gm.Point, Co: gm.Fs(1, 21)}}
		for _, d := range decoysA {
			a = lead(a, d, "decoyApos")
		}
		for _, d := range decoysB {
			b = lead(b, d, "decoyBpos")
		}
	}
	if rapid.Bool().Draw(t, "swap") {
		a, b = b, a
	}
	m := gen.DrawIntMap(t, -3, 23)
	return PairCase{A: m.Apply(a), B: m.Apply(b), Family: "hole-nesting"}
}

// pairDomain classifies a pair: strict (clearance >= 1e-6 x magnitude) or sub-tolerance.
func pairStrict(ar *exact.Arrangement) bool {
	mag := ar.Magnitude()
	if mag == 0 {
		mag = 1
	}
	cl := ar.MinClearanceFloat()
	return cl < 0 || cl >= 1.01e-6*mag
}

// ---------- C02: Relate = true DE-9IM; predicates follow from it ----------

type C02Case struct {
	PairCase
	Matrix  string `json:"matrix"`  // for the RelateMatches sub-check
	Pattern string `json:"pattern"` //
}

func c02Gen(t *rapid.T, cx *h.Ctx) C02Case {
	c := C02Case{PairCase: genPair(t, cx, true, nil)}
	alphaM := []string{"F", "0", "1", "2"}
	alphaP := []string{"F", "0", "1", "2", "T", "*"}
	var mb, pb strings.Builder
	for i := 0; i < 9; i++ {
		mb.WriteString(rapid.SampledFrom(alphaM).Draw(t, "mchar"))
		pb.WriteString(rapid.SampledFrom(alphaP).Draw(t, "pchar"))
	}
	c.Matrix, c.Pattern = mb.String(), pb.String()
	switch rapid.IntRange(0, 15).Draw(t, "malformed") {
	case 0:
		c.Matrix = c.Matrix[:rapid.IntRange(0, 8).Draw(t, "mlen")]
	case 1:
		c.Pattern = c.Pattern + "*"
	case 2:
		i := rapid.IntRange(0, 8).Draw(t, "badpos")
		c.Pattern = c.Pattern[:i] + rapid.SampledFrom([]string{"t", "f", "3", "x", " "}).Draw(t, "badchar") + c.Pattern[i+1:]
	case 3:
		i := rapid.IntRange(0, 8).Draw(t, "badpos")
		c.Matrix = c.Matrix[:i] + rapid.SampledFrom([]string{"T", "*", "3", "f"}).Draw(t, "badchar") + c.Matrix[i+1:]
	}
	return c
}

type c02Pred struct {
	name string
	fn   func(a, b geom.Geometry) (bool, error)
	// expected from the oracle matrix and the (empties-ignoring) dimensions
	want func(m exact.Matrix, da, db int, ea, eb bool) bool
}

func anyPattern(m exact.Matrix, pats ...string) bool {
	for _, p := range pats {
		if exact.MatchPattern(m, p) {
			return true
		}
	}
	return false
}

var c02Preds = []c02Pred{
	{"Equals", geom.Equals, func(m exact.Matrix, da, db int, ea, eb bool) bool {
		if ea && eb {
			return true // documented special case: two empty geometries are equal
		}
		return anyPattern(m, "T*F**FFF*")
	}},
	{"Disjoint", geom.Disjoint, func(m exact.Matrix, da, db int, ea, eb bool) bool { return anyPattern(m, "FF*FF****") }},
	{"Touches", geom.Touches, func(m exact.Matrix, da, db int, ea, eb bool) bool {
		return anyPattern(m, "FT*******", "F**T*****", "F***T****")
	}},
	{"Contains", geom.Contains, func(m exact.Matrix, da, db int, ea, eb bool) bool { return anyPattern(m, "T*****FF*") }},
	{"Covers", geom.Covers, func(m exact.Matrix, da, db int, ea, eb bool) bool {
		return anyPattern(m, "T*****FF*", "*T****FF*", "***T**FF*", "****T*FF*")
	}},
	{"Within", geom.Within, func(m exact.Matrix, da, db int, ea, eb bool) bool { return anyPattern(m, "T*F**F***") }},
	{"CoveredBy", geom.CoveredBy, func(m exact.Matrix, da, db int, ea, eb bool) bool {
		return anyPattern(m, "T*F**F***", "*TF**F***", "**FT*F***", "**F*TF***")
	}},
	{"Crosses", geom.Crosses, func(m exact.Matrix, da, db int, ea, eb bool) bool {
		switch {
		case ea || eb:
			return false
		case da < db:
			return anyPattern(m, "T*T******")
		case da > db:
			return anyPattern(m, "T*****T**")
		case da == 1 && db == 1:
			return anyPattern(m, "0********")
		}
		return false
	}},
	{"Overlaps", geom.Overlaps, func(m exact.Matrix, da, db int, ea, eb bool) bool {
		switch {
		case ea || eb:
			return false
		case (da == 0 && db == 0) || (da == 2 && db == 2):
			return anyPattern(m, "T*T***T**")
		case da == 1 && db == 1:
			return anyPattern(m, "1*T***T**")
		}
		return false
	}},
}

func c02RelateMatches(c C02Case) *h.Failure {
	got, err := geom.RelateMatches(c.Matrix, c.Pattern)
	valid := len(c.Matrix) == 9 && len(c.Pattern) == 9 && strings.Trim(c.Matrix, "F012") == "" && strings.Trim(c.Pattern, "F012T*") == ""
	if !valid {
		if err == nil {
			// the library validates lazily: a mismatch found before the malformed character returns false without error
			if got {
				return h.Failf("relate/matches-malformed-accepted", "RelateMatches(%q,%q) = true for malformed input", c.Matrix, c.Pattern)
			}
		}
		return nil
	}
	var m exact.Matrix
	for i := 0; i < 9; i++ {
		if c.Matrix[i] == 'F' {
			m[i/3][i%3] = -1
		} else {
			m[i/3][i%3] = int(c.Matrix[i] - '0')
		}
	}
	want := exact.MatchPattern(m, c.Pattern)
	if err != nil || got != want {
		return h.Failf("relate/matches", "RelateMatches(%q,%q) = %v,%v want %v", c.Matrix, c.Pattern, got, err, want)
	}
	return nil
}

func c02Check(c C02Case, cx *h.Ctx) *h.Failure {
	if f := c02RelateMatches(c); f != nil {
		return f
	}
	ea, eb := exact.MustFromModel(c.A), exact.MustFromModel(c.B)
	want, ar := exact.Relate(ea, eb)
	cx.Class("pair=" + c.A.T + "/" + c.B.T)
	cx.Class("family=" + c.Family)
	A, B := c.A.ToGeom(), c.B.ToGeom()
	strict := pairStrict(ar)
	desc := func() string { return fmt.Sprintf("\nA = %s\nB = %s", c.A, c.B) }
	var got string
	var err error
	h.Lib("Relate", func() { got, err = geom.Relate(A, B) })
	if !strict {
		cx.Skip("sub_tolerance_pair")
		return nil
	}
	if err != nil {
		return h.Failf("relate/error", "Relate returned an error in the strict domain: %v%s", err, desc())
	}
	// DE-9IM is a property of the XY point sets: the same operands carrying Z / M / ZM payload give the same matrix
	// and the same predicate values
	{
		lctA, lctB := 1+len(c.A.String())%3, 1+len(c.B.String())%3
		AL, BL := c16TagWith(forceCT(c.A, lctA), true).ToGeom(), c16TagWith(forceCT(c.B, lctB), false).ToGeom()
		var gotL string
		var errL error
		h.Lib("Relate", func() { gotL, errL = geom.Relate(AL, BL) })
		if errL != nil || gotL != got {
			return h.Failf("relate/zm-dependent", "Relate of the same XY operands carrying %s / %s payload = %q (%v), without payload %q%s", gm.CTName(lctA), gm.CTName(lctB), gotL, errL, got, desc())
		}
		for _, p := range c02Preds {
			v1, e1 := p.fn(A, B)
			v2, e2 := p.fn(AL, BL)
			if v1 != v2 || (e1 == nil) != (e2 == nil) {
				return h.Failf("relate/zm-dependent", "%s of the same XY operands changes with Z/M payload: %v vs %v%s", p.name, v1, v2, desc())
			}
		}
	}
	if got != want.String() {
		cls := "relate/matrix"
		if ea.IsEmpty() || eb.IsEmpty() {
			cls = "relate/matrix-empty-operand"
		}
		return h.Failf(cls, "Relate(A,B) = %s, exact DE-9IM = %s%s", got, want, desc())
	}
	rev, err := geom.Relate(B, A)
	if err != nil || rev != want.Transpose().String() {
		return h.Failf("relate/transpose", "Relate(B,A) = %s (%v), transpose of the exact matrix = %s%s", rev, err, want.Transpose(), desc())
	}
	da, db := ea.Dim(), eb.Dim()
	for _, p := range c02Preds {
		g, err := p.fn(A, B)
		w := p.want(want, da, db, ea.IsEmpty(), eb.IsEmpty())
		if err != nil || g != w {
			cls := "relate/predicate-" + p.name
			if hasEmptyMember(c.A) || hasEmptyMember(c.B) {
				cls += "-with-empty-member"
			}
			return h.Failf(cls, "%s(A,B) = %v (%v), the documented patterns on the exact matrix %s (dims %d,%d) give %v%s", p.name, g, err, want, da, db, w, desc())
		}
	}
	// relations between predicates
	cAB, _ := geom.Contains(A, B)
	wBA, _ := geom.Within(B, A)
	if cAB != wBA {
		return h.Failf("relate/contains-within", "Contains(A,B)=%v but Within(B,A)=%v%s", cAB, wBA, desc())
	}
	vAB, _ := geom.Covers(A, B)
	cbBA, _ := geom.CoveredBy(B, A)
	if vAB != cbBA {
		return h.Failf("relate/covers-coveredby", "Covers(A,B)=%v but CoveredBy(B,A)=%v%s", vAB, cbBA, desc())
	}
	dj, _ := geom.Disjoint(A, B)
	if dj == geom.Intersects(A, B) {
		return h.Failf("relate/disjoint-intersects", "Disjoint(A,B)=%v and Intersects(A,B)=%v%s", dj, dj, desc())
	}
	if eq, err := geom.Equals(A, A); err != nil || !eq {
		return h.Failf("relate/equals-reflexive", "Equals(A,A) = %v (%v)%s", eq, err, desc())
	}
	cx.Distinct("matrices", want.String())
	nonF := 0
	for i := 0; i < 3; i++ {
		for j := 0; j < 3; j++ {
			if want[i][j] >= 0 {
				nonF++
			}
		}
	}
	if nonF >= 4 && ar.Crossings+ar.Overlaps+ar.Touches > 0 {
		cx.NonTrivial()
	}
	cx.Sample(map[string]interface{}{"a": clip(c.A.String(), 200), "b": clip(c.B.String(), 200), "matrix": want.String()})
	return nil
}

func TestC02(t *testing.T) {
	h.Run(t, h.Prop[C02Case]{
		ID:          "C02",
		Rule:        "cases = an ordered pair of valid geometries (all 7x7 type pairs, empty operands and empty members, GeometryCollections with pairwise exactly-disjoint members, nesting <= 2) drawn on triangulated integer grids that coincide (shared vertices, collinear overlaps, touching rings), are offset by half a cell (proper crossings) or shifted (1 in 20 identical, of which half spelled differently: as a collection with an empty higher-dimension member, or with every line retraced), mapped by one injective integer linear map (|c| <= 1024), plus a random DE-9IM matrix/pattern pair (incl. malformed) for RelateMatches; oracle = DE-9IM from the exact rational arrangement: every vertex, open sub-edge and slab trapezoid is located in I/B/E of each operand by the OGC definitions (mod-2 rule, rings, crossing parity) and M[x][y] = max dimension of the cells located (x,y); predicates = documented pattern lists evaluated by an independent matcher, Crosses/Overlaps with dimensions ignoring empty members; strict domain only (exact clearance >= 1e-6 x magnitude), others counted as skipped; non-trivial = >= 4 non-F entries and the operands' skeletons meet Families of the shared pair generator: triangulated integer grids that coincide / are offset by half a cell / are shifted, under an injective integer map and optionally an exact dyadic affine image; hole-nesting (annulus, island, covering members, far-away decoy members in front of the deciding one); general-position floats (random 53-bit mantissas in a window - crossing points not representable); concurrent (3..14 integer segments through one non-lattice point, dyadic or not).",
		Assumptions: []string{"exact kernel (internal/exact)", "Equals of two empty geometries is true (documented special case)"},
		Gen:         c02Gen,
		Check:       c02Check,
		Enumerate:   c02Enumerate,
	})
}

// c02Enumerate: wide operands (130 and 260 members in a row) against a small geometry that meets only one of the
// last two members: the matrix is decided by a late member.
func c02Enumerate(cx *h.Ctx, yield func(C02Case)) []string {
	for _, k := range []int{130, 260} {
		for _, typ := range []string{gm.MultiPoint, gm.MultiLineString, gm.MultiPolygon} {
			a := gm.G{T: typ}
			for i := 0; i < k; i++ {
				x := float64(10 * i)
				switch typ {
				case gm.MultiPoint:
					a.Mem = append(a.Mem, gm.G{T: gm.Point, Co: gm.Fs(x, 0)})
				case gm.MultiLineString:
					a.Mem = append(a.Mem, gm.G{T: gm.LineString, Co: gm.Fs(x, 0, x+4, 4)})
				default:
					a.Mem = append(a.Mem, gm.G{T: gm.Polygon, Rings: [][]gm.F{gm.Fs(x, 0, x+4, 0, x+4, 4, x, 4, x, 0)}})
				}
			}
			for _, j := range []int{k - 1, k - 2} {
				x := float64(10 * j)
				for _, b := range []gm.G{
					{T: gm.Point, Co: gm.Fs(x, 0)},
					{T: gm.LineString, Co: gm.Fs(x-2, 2, x+2, -2)},
					{T: gm.LineString, Co: gm.Fs(x+1, 1, x+3, 3)},
					{T: gm.Polygon, Rings: [][]gm.F{gm.Fs(x+2, 2, x+6, 2, x+6, 6, x+2, 6, x+2, 2)}},
				} {
					yield(C02Case{PairCase: PairCase{A: a, B: b, Family: "wide"}, Matrix: "FF2FF1212", Pattern: "T*F**F***"})
					yield(C02Case{PairCase: PairCase{A: b, B: a, Family: "wide"}, Matrix: "212101212", Pattern: "T*****FF*"})
				}
			}
		}
	}
	return []string{"operands of 130 and 260 members in a row (MultiPoint, MultiLineString, MultiPolygon) against a point / line / polygon meeting one of the last two members, in both argument orders"}
}

// retraceLines appends to every non-empty LineString its own vertices in
// reverse from the end back to vertex j (j from the seeds): the point set is
// unchanged (a valid, non-simple LineString), the length grows; j = 0 closes it.
func retraceLines(g gm.G, seeds []int) gm.G {
	k := 0
	var rec func(n gm.G) gm.G
	rec = func(n gm.G) gm.G {
		n = n.Norm()
		d := gm.Dim(n.CT)
		out := n
		if n.T == gm.LineString && len(n.Co) >= 2*d {
			cnt := len(n.Co) / d
			j := seeds[k%len(seeds)] % (cnt - 1)
			k++
			co := append([]gm.F{}, n.Co...)
			for i := cnt - 2; i >= j; i-- {
				co = append(co, n.Co[i*d:(i+1)*d]...)
			}
			out.Co = co
		}
		if n.Mem != nil {
			out.Mem = make([]gm.G, len(n.Mem))
			for i, m := range n.Mem {
				out.Mem[i] = rec(m)
			}
		}
		return out
	}
	return rec(g)
}

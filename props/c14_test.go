package props

import (
	"fmt"
	"math"
	"math/big"
	"testing"

	"github.com/peterstace/simplefeatures/geom"
	"pgregory.net/rapid"

	"verif/internal/exact"
	"verif/internal/gen"
	"verif/internal/gm"
	"verif/internal/h"
)

// ---------- shared single-geometry generator (C13, C14, C15, C17) ----------

type OneCase struct {
	G      gm.G       `json:"g"`
	Family string     `json:"family"`
	Shape  string     `json:"shape,omitempty"` // complex (triangulated grid) | comb (teeth / side-by-side holes)
	Aff    [6]float64 `json:"aff"`             // float affine map applied for the general-position family (identity otherwise)
}

// genOne draws one valid geometry of any type on a triangulated grid (members of
// collections pairwise disjoint), mapped by an injective integer map; with
// floatFamily it is additionally pushed through a float affine map.
func genOne(t *rapid.T, cx *h.Ctx, allowFloat bool) OneCase {
	kmax := 3
	if cx.Thorough {
		kmax = 5
	}
	var g gm.G
	var m gen.IntMap
	shape := "complex"
	if rapid.IntRange(0, 9).Draw(t, "combfamily") == 4 {
		g = genComb(t)
		m = gen.DrawIntMap(t, -1, 44)
		shape = "comb"
	} else {
		k := rapid.IntRange(2, kmax).Draw(t, "k")
		cpx := gen.DrawComplex(t, k, [2]int{0, 0})
		typ := rapid.SampledFrom(gm.Types).Draw(t, "type")
		g = cpx.Geom(t, typ, 0, true, nil)
		m = gen.DrawIntMap(t, -3, 2*kmax+3)
	}
	// repeated consecutive vertices (valid: zero-length segments carry no points of their own) at drawn places
	// of drawn lines and rings - first, middle, last/closing, once or twice
	if rapid.IntRange(0, 3).Draw(t, "dups") == 0 {
		g = dupVertices(g, rapid.SliceOfN(rapid.IntRange(0, 40), 1, 6).Draw(t, "dupseeds"))
	}
	// empty members in front of, between and behind the members of multi-geometries and collections
	if rapid.IntRange(0, 3).Draw(t, "emptymembers") == 0 {
		g = insertEmptyMembers(g, rapid.SliceOfN(rapid.IntRange(0, 9), 1, 5).Draw(t, "emptyseeds"))
	}
	c := OneCase{G: m.Apply(g), Family: "lattice", Shape: shape, Aff: [6]float64{1, 0, 0, 0, 1, 0}}
	if allowFloat && rapid.IntRange(0, 3).Draw(t, "floatfamily") == 0 {
		c.Family = "float"
		// well-conditioned affine map with dyadic coefficients: the image of the
		// small-integer geometry is computed without rounding, so validity and all
		// incidences are preserved exactly while ordinates become non-integral
		// floats of magnitude 2^-10 .. 2^20.
		a := float64(rapid.IntRange(512, 2048).Draw(t, "fa")) / 1024
		b := float64(rapid.IntRange(-400, 400).Draw(t, "fb")) / 1024
		cc := float64(rapid.IntRange(-400, 400).Draw(t, "fc")) / 1024
		d := float64(rapid.IntRange(512, 2048).Draw(t, "fd")) / 1024
		s := math.Ldexp(1, rapid.IntRange(-10, 20).Draw(t, "fscale"))
		c.Aff = [6]float64{a * s, b * s, float64(rapid.IntRange(-8000, 8000).Draw(t, "ftx")) / 8 * s, cc * s, d * s, float64(rapid.IntRange(-8000, 8000).Draw(t, "fty")) / 8 * s}
		c.G = applyAff(g, c.Aff)
	}
	return c
}

// genComb: polygons whose horizontal sections consist of several solid stretches separated by gaps that may
// be wider than every solid stretch - a comb (teeth of width 1..2 on a base bar, gaps 1..6 wide, teeth of
// different heights) or a slab with wide holes side by side separated by thin walls.  A scan line through
// such a shape sees solid / gap / solid / gap ...; choosing "the widest interval" among the wrong set of
// intervals lands in a gap or a hole.  Returned as Polygon, one-member MultiPolygon, MultiPolygon with a
// second far member, or a collection with a point.
func genComb(t *rapid.T) gm.G {
	if rapid.IntRange(0, 3).Draw(t, "notch") == 0 {
		return genNotch(t)
	}
	n := rapid.IntRange(2, 5).Draw(t, "teeth")
	var xs, ws, hs []int
	x := 0
	for i := 0; i < n; i++ {
		w := rapid.IntRange(1, 2).Draw(t, "toothw")
		xs, ws = append(xs, x), append(ws, w)
		hs = append(hs, rapid.IntRange(5, 8).Draw(t, "toothh"))
		x += w
		if i < n-1 {
			x += rapid.IntRange(1, 6).Draw(t, "gap")
		}
	}
	W := x
	var poly gm.G
	if rapid.Bool().Draw(t, "holes") {
		// slab [0,W] x [0,8] with a hole in every gap, walls = the teeth
		H := 8
		poly = gm.G{T: gm.Polygon, Rings: [][]gm.F{gm.Fs(0, 0, float64(W), 0, float64(W), float64(H), 0, float64(H), 0, 0)}}
		for i := 0; i+1 < n; i++ {
			x0, x1 := float64(xs[i]+ws[i]), float64(xs[i+1])
			lo, hi := float64(rapid.IntRange(1, 3).Draw(t, "holelo")), float64(rapid.IntRange(5, 7).Draw(t, "holehi"))
			poly.Rings = append(poly.Rings, gm.Fs(x0, lo, x0, hi, x1, hi, x1, lo, x0, lo))
		}
	} else {
		ring := []float64{0, 0, float64(W), 0}
		for i := n - 1; i >= 0; i-- {
			r, l, hgt := float64(xs[i]+ws[i]), float64(xs[i]), float64(hs[i])
			ring = append(ring, r, 1, r, hgt, l, hgt, l, 1)
		}
		// the first and last "1"-level corners coincide with the outline: drop the duplicates (W,1)/(0,1) handling
		// (W,0)->(W,1) is collinear with (W,1)->(W,h): harmless; close the ring
		ring = append(ring, 0, 0)
		poly = gm.G{T: gm.Polygon, Rings: [][]gm.F{gm.Fs(ring...)}}
	}
	switch rapid.IntRange(0, 3).Draw(t, "combwrap") {
	case 0:
		return poly
	case 1:
		return gm.G{T: gm.MultiPolygon, Mem: []gm.G{poly}}
	case 2:
		far := gm.G{T: gm.Polygon, Rings: [][]gm.F{gm.Fs(float64(W+2), 0, float64(W+4), 0, float64(W+4), 1, float64(W+2), 0)}}
		return gm.G{T: gm.MultiPolygon, Mem: []gm.G{far, poly}}
	default:
		return gm.G{T: gm.GeometryCollection, Mem: []gm.G{{T: gm.Point, Co: gm.Fs(float64(W+3), 3)}, poly}}
	}
}

// insertEmptyMembers: every MultiPoint/MultiLineString/MultiPolygon/GeometryCollection node k gets, when
// seeds[k mod len] > 0, an empty member of the admissible type at position (seed-1) mod (n+1) - first, middle or last.
func insertEmptyMembers(g gm.G, seeds []int) gm.G {
	k := 0
	var rec func(n gm.G) gm.G
	rec = func(n gm.G) gm.G {
		n = n.Norm()
		var e gm.G
		switch n.T {
		case gm.MultiPoint:
			e = gm.G{T: gm.Point, CT: n.CT}
		case gm.MultiLineString:
			e = gm.G{T: gm.LineString, CT: n.CT}
		case gm.MultiPolygon:
			e = gm.G{T: gm.Polygon, CT: n.CT}
		case gm.GeometryCollection:
			e = gm.G{T: []string{gm.Point, gm.LineString, gm.Polygon, gm.MultiPolygon, gm.GeometryCollection}[k%5], CT: n.CT}
		default:
			return n
		}
		out := n
		out.Mem = make([]gm.G, 0, len(n.Mem)+1)
		for _, m := range n.Mem {
			out.Mem = append(out.Mem, rec(m))
		}
		sd := seeds[k%len(seeds)]
		k++
		if sd > 0 && len(out.Mem) > 0 {
			pos := (sd - 1) % (len(out.Mem) + 1)
			out.Mem = append(out.Mem[:pos], append([]gm.G{e}, out.Mem[pos:]...)...)
		}
		return out
	}
	return rec(g)
}

// dupVertices repeats vertices of the lines and rings of g: sequence k uses seeds[k mod len]; 0 leaves it alone,
// otherwise vertex (seed mod n) is written twice (seed odd) or three times (seed even).
func dupVertices(g gm.G, seeds []int) gm.G {
	k := 0
	dup := func(fs []gm.F, d int) []gm.F {
		sd := seeds[k%len(seeds)]
		k++
		n := len(fs) / d
		if sd == 0 || n == 0 {
			return fs
		}
		i := sd % n
		reps := 1 + (sd+1)%2
		out := append([]gm.F{}, fs[:(i+1)*d]...)
		for r := 0; r < reps; r++ {
			out = append(out, fs[i*d:(i+1)*d]...)
		}
		return append(out, fs[(i+1)*d:]...)
	}
	var rec func(n gm.G) gm.G
	rec = func(n gm.G) gm.G {
		n = n.Norm()
		d := gm.Dim(n.CT)
		out := n
		if n.T == gm.LineString && len(n.Co) > 0 {
			out.Co = dup(n.Co, d)
		}
		if n.Rings != nil {
			out.Rings = make([][]gm.F, len(n.Rings))
			for i, r := range n.Rings {
				out.Rings[i] = dup(r, d)
			}
		}
		if n.Mem != nil {
			out.Mem = make([]gm.G, len(n.Mem))
			for i, m := range n.Mem {
				out.Mem[i] = rec(m)
			}
		}
		return out
	}
	return rec(g)
}

// genNotch: a slab with a U-shaped hole (a rectangle with a notch of drawn depth and width cut into one side)
// and a second, wedge-shaped hole whose tip reaches into the notch without touching it.  The polygon is valid;
// any simplification that removes the notch (threshold >= its depth) makes the first hole swallow the tip of
// the second: the result must then be an error, not an invalid polygon.  The mirror image (a spur of the shell
// reaching into a notch of a hole) is drawn as well.
func genNotch(t *rapid.T) gm.G {
	depth := float64(rapid.IntRange(1, 3).Draw(t, "notchdepth"))
	half := float64(rapid.IntRange(1, 2).Draw(t, "notchhalf")) // half width of the notch
	// hole A: [2,10] x [2,14] with a notch on its right side around y = 8
	a := gm.Fs(2, 2, 10, 2, 10, 8-half, 10-depth, 8-half, 10-depth, 8+half, 10, 8+half, 10, 14, 2, 14, 2, 2)
	// hole B: a wedge from the right whose tip sits inside the notch
	tipx := 10 - depth + float64(rapid.IntRange(1, 2).Draw(t, "tipin"))/2
	if tipx >= 10 {
		tipx = 10 - depth/2
	}
	b := gm.Fs(tipx, 8, 16, 8-half/2, 16, 8+half/2, tipx, 8)
	shell := gm.Fs(0, 0, 20, 0, 20, 16, 0, 16, 0, 0)
	poly := gm.G{T: gm.Polygon, Rings: [][]gm.F{shell, a, b}}
	if rapid.Bool().Draw(t, "notchswap") {
		poly.Rings[1], poly.Rings[2] = poly.Rings[2], poly.Rings[1]
	}
	switch rapid.IntRange(0, 2).Draw(t, "notchwrap") {
	case 0:
		return poly
	case 1:
		return gm.G{T: gm.MultiPolygon, Mem: []gm.G{poly}}
	default:
		return gm.G{T: gm.GeometryCollection, Mem: []gm.G{{T: gm.Point, Co: gm.Fs(30, 3)}, poly}}
	}
}

// c14Empties: empty geometries that nevertheless have members.
var c14Empties = []gm.G{
	{T: gm.MultiPolygon, Mem: []gm.G{{T: gm.Polygon}}},
	{T: gm.MultiPolygon, Mem: []gm.G{{T: gm.Polygon}, {T: gm.Polygon}}},
	{T: gm.MultiLineString, Mem: []gm.G{{T: gm.LineString}, {T: gm.LineString}}},
	{T: gm.MultiPoint, Mem: []gm.G{{T: gm.Point}}},
	{T: gm.GeometryCollection, Mem: []gm.G{{T: gm.MultiPolygon, Mem: []gm.G{{T: gm.Polygon}}}, {T: gm.Point}}},
	{T: gm.GeometryCollection, Mem: []gm.G{{T: gm.GeometryCollection, Mem: []gm.G{{T: gm.LineString}}}}},
	{T: gm.MultiPolygon, CT: 3, Mem: []gm.G{{T: gm.Polygon, CT: 3}}},
}

func applyAff(g gm.G, a [6]float64) gm.G {
	return g.MapPositions(func(p []gm.F, ct int) []gm.F {
		x, y := float64(p[0]), float64(p[1])
		p[0], p[1] = gm.F(a[0]*x+a[1]*y+a[2]), gm.F(a[3]*x+a[4]*y+a[5])
		return p
	})
}

func magnitudeOf(g gm.G) float64 {
	m := 1.0
	g.MapPositions(func(p []gm.F, ct int) []gm.F {
		m = math.Max(m, math.Max(math.Abs(float64(p[0])), math.Abs(float64(p[1]))))
		return p
	})
	return m
}

// ---------- C14: Area, Length and Centroid equal the exact measures ----------

type C14Case struct {
	OneCase
	RotSeed  []int      `json:"rot_seed"`
	Reverse  []bool     `json:"reverse"`
	PermSeed []int      `json:"perm_seed"`
	TX       int        `json:"tx"`
	TY       int        `json:"ty"`
	T        [6]float64 `json:"t"` // affine transform for Area(WithTransform)
	ZMct     int        `json:"zm_ct"`
}

func c14Gen(t *rapid.T, cx *h.Ctx) C14Case {
	c := C14Case{OneCase: genOne(t, cx, true)}
	c.RotSeed = rapid.SliceOfN(rapid.IntRange(0, 7), 1, 6).Draw(t, "rot")
	c.Reverse = rapid.SliceOfN(rapid.Bool(), 1, 6).Draw(t, "rev")
	c.PermSeed = rapid.SliceOfN(rapid.IntRange(0, 5), 1, 8).Draw(t, "perm")
	c.TX, c.TY = rapid.IntRange(-500, 500).Draw(t, "tx"), rapid.IntRange(-500, 500).Draw(t, "ty")
	c.T = [6]float64{float64(rapid.IntRange(-3, 3).Draw(t, "ta")), float64(rapid.IntRange(-3, 3).Draw(t, "tb")), float64(rapid.IntRange(-9, 9).Draw(t, "ttx")),
		float64(rapid.IntRange(-3, 3).Draw(t, "tc")), float64(rapid.IntRange(-3, 3).Draw(t, "td")), float64(rapid.IntRange(-9, 9).Draw(t, "tty"))}
	c.ZMct = rapid.IntRange(0, 3).Draw(t, "zmct")
	return c
}

func exactSignedArea(g exact.Geom) *big.Rat {
	s := new(big.Rat)
	for _, p := range g.Parts {
		for _, poly := range p.Polys {
			for _, r := range poly {
				s.Add(s, exact.RingSignedArea(r))
			}
		}
	}
	return s
}

func c14Check(c C14Case, cx *h.Ctx) *h.Failure {
	model := c.G.Norm()
	eg := exact.MustFromModel(model)
	g := model.ToGeom()
	cx.Class("type=" + model.T)
	cx.Class("family=" + c.Family)
	if c.Shape != "" {
		cx.Class("shape=" + c.Shape)
	}
	mag := magnitudeOf(model)
	tauL := 1e-9 * mag
	tauA := 1e-9 * mag * mag
	desc := func() string { return "\ng = " + clip(model.String(), 700) }

	// --- Area ---
	var wantArea float64
	if c.Family == "lattice" {
		total := new(big.Rat)
		for _, p := range eg.Parts {
			if p.Kind == 2 && len(p.Polys) > 0 {
				for _, poly := range p.Polys {
					total.Add(total, exact.SlabArea(exact.Part{Kind: 2, Polys: [][][]exact.Pt{poly}}))
				}
			}
		}
		wantArea = exact.RatFloat(total)
		if sh := exact.RatFloat(eg.Area()); math.Abs(sh-wantArea) > 1e-12*mag*mag {
			panic(exact.KernelBug(fmt.Sprintf("trapezoid area %v != shoelace area %v for %s", wantArea, sh, model)))
		}
	} else {
		wantArea = exact.RatFloat(eg.Area())
	}
	if got := g.Area(); math.Abs(got-wantArea) > tauA {
		return h.Failf("measure/area", "Area() = %.15g, exact area = %.15g%s", got, wantArea, desc())
	}
	// signed area: orientation-consistent forms
	ccw, cw := g.ForceCCW(), g.ForceCW()
	if got := ccw.Area(geom.SignedArea); math.Abs(got-wantArea) > tauA {
		return h.Failf("measure/signed-area-ccw", "ForceCCW().Area(SignedArea) = %.15g, want +%.15g%s", got, wantArea, desc())
	}
	if got := cw.Area(geom.SignedArea); math.Abs(got+wantArea) > tauA {
		return h.Failf("measure/signed-area-cw", "ForceCW().Area(SignedArea) = %.15g, want -%.15g%s", got, wantArea, desc())
	}
	if a, b := ccw.Area(geom.SignedArea), ccw.Reverse().Area(geom.SignedArea); math.Abs(a+b) > tauA {
		return h.Failf("measure/signed-area-reverse", "signed area %.15g is not negated by Reverse (%.15g)%s", a, b, desc())
	}
	// as given: sum of exact ring signed areas when every polygon is consistently oriented is covered above;
	// Area with a transform = area of the transformed geometry
	T := c.T
	f := func(p geom.XY) geom.XY { return geom.XY{X: T[0]*p.X + T[1]*p.Y + T[2], Y: T[3]*p.X + T[4]*p.Y + T[5]} }
	det := math.Abs(T[0]*T[4] - T[1]*T[3])
	if got, want := g.Area(geom.WithTransform(f)), g.TransformXY(f).Area(); math.Abs(got-want) > tauA*(1+det)*20 {
		return h.Failf("measure/area-with-transform", "Area(WithTransform(f)) = %.15g, TransformXY(f).Area() = %.15g%s", got, want, desc())
	}
	if got := g.Area(geom.WithTransform(f)); math.Abs(got-wantArea*det) > tauA*(1+det)*20 {
		return h.Failf("measure/area-with-transform-det", "Area(WithTransform(f)) = %.15g, exact area x |det f| = %.15g%s", got, wantArea*det, desc())
	}
	// a transform that is not affine (a projection-like map): the area is that of the geometry whose control points
	// are the images, whatever shape that is
	nf := func(p geom.XY) geom.XY {
		return geom.XY{X: p.X + p.X*p.Y/8 + T[2], Y: p.Y + p.X*p.X/16 + T[5]}
	}
	maxImg := 1.0
	for _, xy := range modelXYs(model) {
		q := nf(geom.XY{X: xy[0], Y: xy[1]})
		maxImg = math.Max(maxImg, math.Max(math.Abs(q.X), math.Abs(q.Y)))
	}
	tauN := 1e-9 * maxImg * maxImg
	if got, want := g.Area(geom.WithTransform(nf)), g.TransformXY(nf).Area(); math.Abs(got-want) > tauN || got != got {
		return h.Failf("measure/area-with-nonaffine-transform", "Area(WithTransform(f)) = %.15g, TransformXY(f).Area() = %.15g for f(x,y) = (x + xy/8 + %g, y + xx/16 + %g)%s", got, want, T[2], T[5], desc())
	}
	if got, want := g.Area(geom.WithTransform(nf), geom.SignedArea), g.TransformXY(nf).Area(geom.SignedArea); math.Abs(got-want) > tauN || got != got {
		return h.Failf("measure/area-with-nonaffine-transform", "Area(WithTransform(f), SignedArea) = %.15g, TransformXY(f).Area(SignedArea) = %.15g for f(x,y) = (x + xy/8 + %g, y + xx/16 + %g)%s", got, want, T[2], T[5], desc())
	}
	// both options together, in both argument orders: the signed area of the transformed geometry
	sdet := T[0]*T[4] - T[1]*T[3]
	for _, o := range []struct {
		name string
		x    geom.Geometry
		sign float64
	}{{"ForceCCW()", ccw, 1}, {"ForceCW()", cw, -1}} {
		want := o.sign * wantArea * sdet
		viaT := o.x.TransformXY(f).Area(geom.SignedArea)
		for oi, got := range []float64{o.x.Area(geom.SignedArea, geom.WithTransform(f)), o.x.Area(geom.WithTransform(f), geom.SignedArea)} {
			order := [2]string{"SignedArea, WithTransform(f)", "WithTransform(f), SignedArea"}[oi]
			if math.Abs(got-want) > tauA*(1+det)*20 || math.Abs(got-viaT) > tauA*(1+det)*20 {
				return h.Failf("measure/area-options-combined", "%s.Area(%s) = %.15g, want signed area x det f = %.15g (TransformXY(f).Area(SignedArea) = %.15g)%s", o.name, order, got, want, viaT, desc())
			}
		}
	}

	// empty geometries with members: zero measures and the empty Point as centroid
	for _, e := range c14Empties {
		eg := e.ToGeom()
		if eg.Area() != 0 || eg.Length() != 0 || !eg.Centroid().IsEmpty() {
			return h.Failf("measure/empty", "%s: Area=%v Length=%v Centroid=%s, want 0, 0, POINT EMPTY", e, eg.Area(), eg.Length(), eg.Centroid().AsText())
		}
	}

	// --- Length ---
	wantLen, _ := eg.Length().Float64()
	if got := g.Length(); math.Abs(got-wantLen) > tauL*float64(1+len(eg.Segs())) {
		return h.Failf("measure/length", "Length() = %.15g, exact length of the lineal part = %.15g%s", got, wantLen, desc())
	}
	// length is homogeneous: the same geometry scaled by 2^-600 and 2^+520 (exact scalings; the squares of its
	// extents then under/overflow float64) has the scaled length
	if wantLen > 0 && c.Family == "lattice" {
		for _, k := range []int{-600, 520} {
			sc := math.Ldexp(1, k)
			sg := model.MapPositions(func(p []gm.F, _ int) []gm.F {
				p[0], p[1] = gm.F(float64(p[0])*sc), gm.F(float64(p[1])*sc)
				return p
			}).ToGeom()
			if got, want := sg.Length(), wantLen*sc; math.Abs(got-want) > 1e-9*want {
				return h.Failf("measure/length-scale", "Length() of the geometry scaled by 2^%d = %g, want %g x 2^%d = %g%s", k, got, wantLen, k, want, desc())
			}
		}
	}

	// --- Centroid ---
	cxw, cyw, cok := eg.Centroid()
	cen := g.Centroid()
	if f := c14CentroidIs("Centroid()", cen, cxw, cyw, cok, tauL*10, desc); f != nil {
		return f
	}
	if f := c14ConcreteCentroid(g, cxw, cyw, cok, tauL*10, desc); f != nil {
		return f
	}

	// --- invariance: ring rotation, reversal, member permutation, Z/M, orientation forcing ---
	rep := c03Represent(C03Case{G: model, RotSeed: c.RotSeed, Reverse: c.Reverse, PermSeed: c.PermSeed})
	rg := forceCT(rep, c.ZMct).ToGeom()
	for _, v := range []struct {
		name string
		x    geom.Geometry
	}{{"re-expressed (ring start, direction, member order, Z/M)", rg}, {"Reverse()", g.Reverse()}, {"ForceCW()", cw}, {"ForceCCW()", ccw}} {
		if math.Abs(v.x.Area()-g.Area()) > tauA || math.Abs(v.x.Length()-g.Length()) > tauL*float64(1+len(eg.Segs())) {
			return h.Failf("measure/not-invariant", "Area/Length change under %s: %.15g/%.15g vs %.15g/%.15g%s", v.name, v.x.Area(), v.x.Length(), g.Area(), g.Length(), desc())
		}
		if f := c14CentroidIs("Centroid() of the geometry "+v.name, v.x.Centroid(), cxw, cyw, cok, tauL*10, desc); f != nil {
			f.Class = "measure/centroid-not-invariant"
			return f
		}
	}
	// --- translation ---
	tr := g.TransformXY(func(p geom.XY) geom.XY { return geom.XY{X: p.X + float64(c.TX), Y: p.Y + float64(c.TY)} })
	tmag := mag + math.Abs(float64(c.TX)) + math.Abs(float64(c.TY))
	if math.Abs(tr.Area()-g.Area()) > 1e-9*tmag*tmag || math.Abs(tr.Length()-g.Length()) > 1e-9*tmag*float64(1+len(eg.Segs())) {
		return h.Failf("measure/translation", "Area/Length change under translation by (%d,%d): %.15g/%.15g vs %.15g/%.15g%s", c.TX, c.TY, tr.Area(), tr.Length(), g.Area(), g.Length(), desc())
	}
	if f := c14CentroidIs("Centroid() of the translated geometry", tr.Centroid(), cxw+float64(c.TX), cyw+float64(c.TY), cok, 1e-8*tmag, desc); f != nil {
		f.Class = "measure/centroid-translation"
		return f
	}
	// --- additivity over members ---
	if len(model.Mem) > 0 {
		var sa, sl float64
		for _, m := range model.Mem {
			mg := m.ToGeom()
			sa += mg.Area()
			sl += mg.Length()
		}
		if math.Abs(sa-g.Area()) > tauA*float64(len(model.Mem)) || math.Abs(sl-g.Length()) > tauL*float64(len(model.Mem)+len(eg.Segs())) {
			return h.Failf("measure/additivity", "Area/Length of the members sum to %.15g/%.15g, whole = %.15g/%.15g%s", sa, sl, g.Area(), g.Length(), desc())
		}
	}
	holes, top := 0, 0
	model.Walk(func(n gm.G) {
		if len(n.Rings) > 1 {
			holes++
		}
	})
	d := eg.Dim()
	for _, p := range eg.Parts {
		switch {
		case d == 2:
			top += len(p.Polys)
		case d == 1:
			top += len(p.Lines)
		case d == 0:
			top += len(p.Points)
		}
	}
	mixed := false
	if model.T == gm.GeometryCollection {
		dims := map[int]bool{}
		for _, p := range eg.Parts {
			if len(p.Points)+len(p.Lines)+len(p.Polys) > 0 {
				dims[p.Kind] = true
			}
		}
		mixed = len(dims) > 1
	}
	if holes > 0 || top >= 2 || mixed {
		cx.NonTrivial()
	}
	cx.Sample(map[string]interface{}{"g": clip(model.String(), 250), "area": wantArea, "length": wantLen, "centroid": []float64{cxw, cyw}})
	return nil
}

func c14CentroidIs(what string, p geom.Point, x, y float64, ok bool, tol float64, desc func() string) *h.Failure {
	xy, has := p.XY()
	if has != ok {
		return h.Failf("measure/centroid-empty", "%s empty=%v, want empty=%v%s", what, !has, !ok, desc())
	}
	if p.CoordinatesType() != geom.DimXY {
		return h.Failf("measure/centroid-ctype", "%s has coordinate type %s%s", what, p.CoordinatesType(), desc())
	}
	if !ok {
		return nil
	}
	if math.IsNaN(xy.X) || math.IsNaN(xy.Y) || !(math.Abs(xy.X-x) <= tol && math.Abs(xy.Y-y) <= tol) {
		return h.Failf("measure/centroid", "%s = (%.15g %.15g), exact centre of mass = (%.15g %.15g)%s", what, xy.X, xy.Y, x, y, desc())
	}
	return nil
}

func c14ConcreteCentroid(g geom.Geometry, x, y float64, ok bool, tol float64, desc func() string) *h.Failure {
	var p geom.Point
	switch g.Type() {
	case geom.TypePoint:
		p = g.MustAsPoint().Centroid()
	case geom.TypeLineString:
		p = g.MustAsLineString().Centroid()
	case geom.TypePolygon:
		p = g.MustAsPolygon().Centroid()
	case geom.TypeMultiPoint:
		p = g.MustAsMultiPoint().Centroid()
	case geom.TypeMultiLineString:
		p = g.MustAsMultiLineString().Centroid()
	case geom.TypeMultiPolygon:
		p = g.MustAsMultiPolygon().Centroid()
	case geom.TypeGeometryCollection:
		p = g.MustAsGeometryCollection().Centroid()
	}
	return c14CentroidIs(g.Type().String()+".Centroid()", p, x, y, ok, tol, desc)
}

func TestC14(t *testing.T) {
	h.Run(t, h.Prop[C14Case]{
		ID:          "C14",
		Rule:        "cases = one valid geometry of any of the 7 types (polygons with holes touching shells/each other, multi-geometries with empty members, collections with pairwise disjoint members of mixed dimension, nested) traced on a triangulated integer grid and mapped by an injective integer map (lattice family, 3 in 4) or additionally by a well-conditioned float affine map with scale 1e-3..1e6 (float family), paired with a representation change (ring start, direction, hole/member order, Z/M coordinate type), an integer translation and an integer affine transform. Oracles: exact area as the sum of slab trapezoids (cross-checked with the exact shoelace value), exact length / length-weighted centroid at 200 bits, exact area-weighted centroid and point average in rational arithmetic, dimension selection ignoring empty members. Checks: Area, Area(SignedArea) after ForceCCW/ForceCW and under Reverse, Area(WithTransform f) = TransformXY(f).Area() = area x |det f| (also a non-affine f against TransformXY(f).Area()), Length, Centroid on Geometry and the concrete type; invariance under the representation change, Reverse, ForceCW/CCW; translation invariance/equivariance; additivity over members. Tolerances 1e-9 x magnitude (squared for area). non-trivial = a polygon with a hole, or >= 2 members of the top dimension, or a mixed-dimension collection",
		Assumptions: []string{"exact kernel (internal/exact)", "centre of mass of a MultiPoint counts repeated points with multiplicity"},
		Gen:         c14Gen,
		Check:       c14Check,
		Enumerate:   c14Enumerate,
	})
}

// c14Enumerate: wide geometries (more rings / members than any drawn case
// has): polygons with 127..257 holes of different sizes, MultiPolygons,
// MultiLineStrings and MultiPoints with as many members.
func c14Enumerate(cx *h.Ctx, yield func(C14Case)) []string {
	sq := func(x0, y0, x1, y1 int) []gm.F {
		return gm.Fs(float64(x0), float64(y0), float64(x1), float64(y0), float64(x1), float64(y1), float64(x0), float64(y1), float64(x0), float64(y0))
	}
	for _, k := range []int{127, 128, 129, 255, 256, 257} {
		poly := gm.G{T: gm.Polygon, Rings: [][]gm.F{sq(0, 0, 4*k, 5)}}
		mp := gm.G{T: gm.MultiPolygon}
		mls := gm.G{T: gm.MultiLineString}
		mpt := gm.G{T: gm.MultiPoint}
		for i := 0; i < k; i++ {
			// sizes vary with the index so that weights differ
			w, hh := 1+i%3, 1+(i/3)%3
			poly.Rings = append(poly.Rings, sq(4*i+1, 1, 4*i+1+w, 1+hh))
			mp.Mem = append(mp.Mem, gm.G{T: gm.Polygon, Rings: [][]gm.F{sq(5*i, i%7, 5*i+w, i%7+hh)}})
			mls.Mem = append(mls.Mem, gm.G{T: gm.LineString, Co: gm.Fs(float64(5*i), float64(i%5), float64(5*i+w), float64(i%5+hh))})
			mpt.Mem = append(mpt.Mem, gm.G{T: gm.Point, Co: gm.Fs(float64(i*i%97), float64(3*i))})
		}
		for _, g := range []gm.G{poly, mp, mls, mpt} {
			yield(C14Case{OneCase: OneCase{G: g, Family: "lattice", Shape: "wide", Aff: [6]float64{1, 0, 0, 0, 1, 0}},
				RotSeed: []int{1, 0, 3}, Reverse: []bool{false, true, true}, PermSeed: []int{1, 0, 2, 5}, TX: 7, TY: -11, T: [6]float64{2, 1, 3, -1, 1, 5}, ZMct: k % 4})
		}
	}
	return []string{"polygons with 127..257 holes of varying size, MultiPolygons / MultiLineStrings / MultiPoints with 127..257 members"}
}

var _ = rapid.Bool

// modelXYs lists the XY of every position of the model.
func modelXYs(g gm.G) [][2]float64 {
	var out [][2]float64
	var rec func(n gm.G)
	rec = func(n gm.G) {
		n = n.Norm()
		d := gm.Dim(n.CT)
		add := func(fs []gm.F) {
			for i := 0; i+d <= len(fs); i += d {
				out = append(out, [2]float64{float64(fs[i]), float64(fs[i+1])})
			}
		}
		add(n.Co)
		for _, r := range n.Rings {
			add(r)
		}
		for _, m := range n.Mem {
			rec(m)
		}
	}
	rec(g)
	return out
}

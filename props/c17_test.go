package props

import (
	"fmt"
	"math"
	"math/big"
	"testing"

	"github.com/peterstace/simplefeatures/geom"
	"pgregory.net/rapid"

	"verif/internal/exact"
	"verif/internal/gen"
	"verif/internal/gm"
	"verif/internal/h"
)

// ---------- C17: Densify, Simplify, Interpolate, SnapToGrid, Reverse, ForceCW/CCW keep their contracts ----------

type C17Case struct {
	OneCase
	CT       int       `json:"ct"`
	DensifyF float64   `json:"densify_f"`  // fraction of the diameter
	SimplF   float64   `json:"simplify_f"` // fraction of the diameter
	Fracs    []float64 `json:"fracs"`
	N        int       `json:"n"`
	Snap     []C17Snap `json:"snap"`
}

type C17Snap struct {
	X  gm.F `json:"x"`
	DP int  `json:"dp"`
}

func c17Gen(t *rapid.T, cx *h.Ctx) C17Case {
	c := C17Case{OneCase: genOne(t, cx, true)}
	// favour lineal and areal geometries
	for i := 0; i < 3 && (c.G.T == gm.Point || c.G.T == gm.MultiPoint); i++ {
		c.OneCase = genOne(t, cx, true)
	}
	if rapid.IntRange(0, 7).Draw(t, "hairpin") == 0 {
		// hairpin: a line that runs far out and comes back near its start, so that the chord
		// between the end points is short compared with the excursion (Simplify's worst case)
		x0, y0 := rapid.IntRange(-20, 20).Draw(t, "hx"), rapid.IntRange(-20, 20).Draw(t, "hy")
		g := gm.G{T: gm.LineString, Co: gm.Fs(float64(x0), float64(y0))}
		for i := rapid.IntRange(1, 3).Draw(t, "hfar"); i > 0; i-- {
			g.Co = append(g.Co, gm.F(x0+rapid.IntRange(5, 30).Draw(t, "hdx")), gm.F(y0+rapid.IntRange(-30, 30).Draw(t, "hdy")))
		}
		g.Co = append(g.Co, gm.F(x0+rapid.IntRange(-2, 2).Draw(t, "hex")), gm.F(y0+rapid.IntRange(-2, 2).Draw(t, "hey")))
		c.G = g
		c.Family = "lattice"
		c.Aff = [6]float64{1, 0, 0, 0, 1, 0}
	}
	c.CT = rapid.IntRange(0, 3).Draw(t, "ct")
	// ring orientations are arbitrary in valid input: reverse individual rings at random
	if rapid.Bool().Draw(t, "mixorientation") {
		revs := rapid.SliceOfN(rapid.Bool(), 1, 8).Draw(t, "ringrev")
		c.G = c03Represent(C03Case{G: c.G, RotSeed: []int{0}, Reverse: revs, PermSeed: []int{0}})
	}
	c.G = c16Tag(forceCT(c.G, c.CT))
	c.DensifyF = rapid.SampledFrom([]float64{0.001, 0.01, 0.05, 0.1, 0.25, 0.5, 1, 2, 10}).Draw(t, "densify") * rapid.Float64Range(0.5, 1.5).Draw(t, "densifyj")
	if rapid.IntRange(0, 3).Draw(t, "densifyexact") == 0 {
		c.DensifyF = -float64(rapid.IntRange(1, 6).Draw(t, "densifyunits")) // negative: absolute distance = -value (an exact segment length is likely)
	}
	c.SimplF = rapid.SampledFrom([]float64{0, 0.001, 0.01, 0.05, 0.1, 0.2, 0.5, 1}).Draw(t, "simplify")
	if rapid.Bool().Draw(t, "simplifyany") {
		c.SimplF = float64(rapid.IntRange(0, 130).Draw(t, "simplifypct")) / 100
	}
	if rapid.IntRange(0, 3).Draw(t, "simplifyexact") == 0 {
		c.SimplF = -float64(rapid.IntRange(0, 4).Draw(t, "simplifyunits")) // negative: absolute threshold = -value
	}
	nf := rapid.IntRange(1, 6).Draw(t, "nfracs")
	for i := 0; i < nf; i++ {
		switch rapid.IntRange(0, 4).Draw(t, "frackind") {
		case 0:
			c.Fracs = append(c.Fracs, rapid.SampledFrom([]float64{0, 1, -1, 2, 0.5, -0.0, 1e-300, 1 - 1e-16}).Draw(t, "fracspecial"))
		case 1: // cumulative break point chosen in the check (encoded as 10 + index + ulp shift)
			c.Fracs = append(c.Fracs, 10+float64(rapid.IntRange(0, 8).Draw(t, "breakidx"))+float64(rapid.IntRange(-1, 1).Draw(t, "breakulp"))/4)
		default:
			c.Fracs = append(c.Fracs, rapid.Float64Range(-1, 2).Draw(t, "frac"))
		}
	}
	c.N = rapid.IntRange(-1, 50).Draw(t, "n")
	ns := rapid.IntRange(1, 4).Draw(t, "nsnap")
	for i := 0; i < ns; i++ {
		var x float64
		switch rapid.IntRange(0, 3).Draw(t, "snapxkind") {
		case 0:
			x = gen.FiniteFloat(t, "snapx")
		case 1:
			x = float64(rapid.Int64Range(-1<<40, 1<<40).Draw(t, "snapk")) / math.Pow(10, float64(rapid.IntRange(0, 9).Draw(t, "snapq")))
		case 2:
			x = rapid.SampledFrom([]float64{-1e10, 1e10, 1e300, -1e300, 0, 5e-324, -2.5, 2.5, 0.5, -0.5, 1.5, 0.05, 0.15, 1e-320}).Draw(t, "snapspecial")
		default:
			x = rapid.Float64Range(-1e6, 1e6).Draw(t, "snapf")
		}
		if math.Abs(x) > 1e300 {
			x = math.Copysign(1e300, x)
		}
		dp := rapid.IntRange(-320, 320).Draw(t, "dp")
		if rapid.Bool().Draw(t, "dpsmall") {
			dp = rapid.IntRange(-12, 15).Draw(t, "dp2")
		}
		c.Snap = append(c.Snap, C17Snap{X: gm.F(x), DP: dp})
	}
	return c
}

func diameterOf(g gm.G) float64 {
	b, any := modelBounds(g)
	if !any {
		return 1
	}
	d := math.Hypot(b[2]-b[0], b[3]-b[1])
	if d == 0 {
		return 1
	}
	return d
}

type seqRef struct {
	fs    []gm.F
	ring  bool
	shell int // rings: index (in the list) of the exterior ring of the same polygon; -1 for lines
}

func lineSeqs(g gm.G) []seqRef {
	var out []seqRef
	g.Norm().Walk(func(n gm.G) {
		if n.T == gm.LineString && len(n.Co) > 0 {
			out = append(out, seqRef{n.Co, false, -1})
		}
		shell := len(out)
		for _, r := range n.Rings {
			out = append(out, seqRef{r, true, shell})
		}
	})
	return out
}

func ptAt(fs []gm.F, i, d int) exact.Pt { return exact.P(float64(fs[i*d]), float64(fs[i*d+1])) }

func sqrtRat(r *big.Rat) float64 { return exact.Sqrt(r) }

// c17Densify: exact checks of Densify on every sequence.
func c17Densify(model gm.G, g geom.Geometry, dist, tau float64) *h.Failure {
	out := gm.FromGeom(g.Densify(dist))
	in, os := lineSeqs(model), lineSeqs(out)
	if len(in) != len(os) {
		return h.Failf("densify/structure", "Densify(%v) changed the number of sequences from %d to %d", dist, len(in), len(os))
	}
	d := gm.Dim(model.CT)
	lim := new(big.Rat).SetFloat64(dist*(1+1e-9) + tau) // "no gap longer than d" to within rounding
	lim.Mul(lim, lim)
	for s := range in {
		a, b := in[s].fs, os[s].fs
		na, nb := len(a)/d, len(b)/d
		j := 0
		for i := 0; i < na; i++ {
			// find original vertex i at or after j
			found := -1
			for k := j; k < nb; k++ {
				if posKey(b[k*d:k*d+d]) == posKey(a[i*d:i*d+d]) {
					found = k
					break
				}
				// every skipped vertex must lie on the segment (i-1, i)
				if i == 0 {
					return h.Failf("densify/first-vertex", "Densify(%v): the sequence no longer starts with its first vertex", dist)
				}
				p := ptAt(b, k, d)
				if d2 := exact.PointSegDist2(p, ptAt(a, i-1, d), ptAt(a, i, d)); sqrtRat(d2) > tau {
					return h.Failf("densify/off-segment", "Densify(%v): inserted vertex %s is %g away from the original segment %s-%s", dist, p, sqrtRat(d2), ptAt(a, i-1, d), ptAt(a, i, d))
				}
			}
			if found < 0 {
				return h.Failf("densify/original-vertex-lost", "Densify(%v): original vertex %d %v is missing (or out of order)", dist, i, a[i*d:i*d+d])
			}
			j = found + 1
		}
		if j != nb {
			return h.Failf("densify/trailing", "Densify(%v): %d vertices after the last original vertex", dist, nb-j)
		}
		for k := 0; k+1 < nb; k++ {
			if gap := exact.Dist2(ptAt(b, k, d), ptAt(b, k+1, d)); gap.Cmp(lim) > 0 {
				return h.Failf("densify/gap", "Densify(%v): gap of %g between consecutive vertices %s and %s", dist, sqrtRat(gap), ptAt(b, k, d), ptAt(b, k+1, d))
			}
		}
	}
	return nil
}

// c17Embedding: out is a subsequence of in with the same end points such that
// every dropped vertex is within thr(1+eps) of the line through its bracketing kept vertices.
func c17Embedding(in, out []gm.F, d int, thr float64) bool {
	n, m := len(in)/d, len(out)/d
	if m == 0 || m > n {
		return false
	}
	lim := new(big.Rat).SetFloat64(thr*(1+1e-9) + 1e-300)
	lim.Mul(lim, lim)
	within := func(i, k int) bool { // all vertices strictly between i and k are near the line (i,k)
		a, b := ptAt(in, i, d), ptAt(in, k, d)
		for x := i + 1; x < k; x++ {
			p := ptAt(in, x, d)
			var d2 *big.Rat
			if a.Eq(b) {
				d2 = exact.Dist2(p, a)
			} else {
				cr := exact.Cross(a, b, p)
				d2 = new(big.Rat).Mul(cr, cr)
				d2.Quo(d2, exact.Dist2(a, b))
			}
			if d2.Cmp(lim) > 0 {
				return false
			}
		}
		return true
	}
	// reach[j][i]: out[0..j] can be embedded ending at in[i]
	reach := make([][]bool, m)
	for j := range reach {
		reach[j] = make([]bool, n)
	}
	if posKey(out[:d]) != posKey(in[:d]) {
		return false
	}
	reach[0][0] = true
	for j := 1; j < m; j++ {
		for i := j; i < n; i++ {
			if posKey(out[j*d:j*d+d]) != posKey(in[i*d:i*d+d]) {
				continue
			}
			for p := j - 1; p < i; p++ {
				if reach[j-1][p] && within(p, i) {
					reach[j][i] = true
					break
				}
			}
		}
	}
	return reach[m-1][n-1]
}

func c17Simplify(model gm.G, g geom.Geometry, thr float64) *h.Failure {
	res, err := g.Simplify(thr)
	if err != nil {
		return nil // an error is allowed (the simplified geometry may be invalid)
	}
	if verr := res.Validate(); verr != nil {
		return h.Failf("simplify/invalid-without-error", "Simplify(%v) returned an invalid geometry without an error: %v", thr, verr)
	}
	if res.CoordinatesType() != geom.CoordinatesType(model.CT) {
		return h.Failf("simplify/ctype", "Simplify(%v) changed the coordinate type to %s", thr, res.CoordinatesType())
	}
	out := gm.FromGeom(res)
	in, os := lineSeqs(model), lineSeqs(out)
	d := gm.Dim(model.CT)
	// every output sequence must embed into some not yet used input sequence (order preserved; collapsed ones are dropped)
	used := make([]bool, len(in))
	defer func() {}()
	k := 0
	for _, o := range os {
		ok := false
		for ; k < len(in); k++ {
			if in[k].ring == o.ring && c17Embedding(in[k].fs, o.fs, d, thr) {
				ok = true
				used[k] = true
				k++
				break
			}
		}
		if !ok {
			return h.Failf("simplify/not-a-valid-simplification", "Simplify(%v): output sequence %v is not a subsequence (same end points, every dropped vertex within the threshold of the line through its bracketing kept vertices) of any remaining input sequence\nresult = %s", thr, o.fs, clip(out.String(), 400))
		}
	}
	// a ring may only disappear if it can be simplified, within the contract, to fewer than 4 positions:
	// start, at most one interior vertex m, end - with everything before m near line(start,m) and after m near line(m,end)
	for i, sq := range in {
		if used[i] || !sq.ring {
			continue
		}
		if sq.shell != i && !used[sq.shell] {
			continue // a hole of a polygon whose exterior ring went: the polygon is gone (the exterior ring itself is judged)
		}
		n := len(sq.fs) / d
		collapsible := false
		for m := 0; m < n && !collapsible; m++ {
			var cand []gm.F
			cand = append(cand, sq.fs[:d]...)
			if m > 0 && m < n-1 {
				cand = append(cand, sq.fs[m*d:m*d+d]...)
			}
			cand = append(cand, sq.fs[(n-1)*d:]...)
			if c17Embedding(sq.fs, cand, d, thr) {
				collapsible = true
			}
		}
		if !collapsible {
			return h.Failf("simplify/ring-dropped", "Simplify(%v) dropped ring %v although no simplification within the threshold has fewer than 4 positions\nresult = %s", thr, sq.fs, clip(out.String(), 400))
		}
	}
	return nil
}

func c17Interpolate(model gm.G, ls geom.LineString, fracs []float64, n int, tau float64) *h.Failure {
	d := gm.Dim(model.CT)
	fs := model.Co
	np := len(fs) / d
	// cumulative lengths at 200 bits
	cum := make([]*big.Float, np)
	cum[0] = new(big.Float).SetPrec(200)
	for i := 1; i < np; i++ {
		seg := new(big.Float).SetPrec(200).SetRat(exact.Dist2(ptAt(fs, i-1, d), ptAt(fs, i, d)))
		seg.Sqrt(seg)
		cum[i] = new(big.Float).SetPrec(200).Add(cum[i-1], seg)
	}
	total, _ := cum[np-1].Float64()
	expect := func(f float64) (x, y float64, zm []float64) {
		f = math.Max(0, math.Min(1, f))
		target := new(big.Float).SetPrec(200).Mul(new(big.Float).SetPrec(200).SetFloat64(f), cum[np-1])
		i := 1
		for i < np-1 && cum[i].Cmp(target) < 0 {
			i++
		}
		// skip zero-length segments
		segLen := new(big.Float).SetPrec(200).Sub(cum[i], cum[i-1])
		tpar := 0.0
		if segLen.Sign() > 0 {
			q := new(big.Float).SetPrec(200).Sub(target, cum[i-1])
			q.Quo(q, segLen)
			tpar, _ = q.Float64()
		}
		a, b := fs[(i-1)*d:i*d], fs[i*d:(i+1)*d]
		x = float64(a[0]) + tpar*float64(b[0]-a[0])
		y = float64(a[1]) + tpar*float64(b[1]-a[1])
		for e := 2; e < d; e++ {
			zm = append(zm, float64(a[e])+tpar*float64(b[e]-a[e]))
		}
		return
	}
	check := func(what string, p geom.Point, f float64) *h.Failure {
		c, ok := p.Coordinates()
		if !ok {
			return h.Failf("interpolate/empty", "%s is empty", what)
		}
		if math.IsNaN(c.X) || math.IsNaN(c.Y) || math.IsInf(c.X, 0) || math.IsInf(c.Y, 0) {
			return h.Failf("interpolate/not-finite", "%s = (%v %v)", what, c.X, c.Y)
		}
		if p.CoordinatesType() != geom.CoordinatesType(model.CT) {
			return h.Failf("interpolate/ctype", "%s has coordinate type %s", what, p.CoordinatesType())
		}
		x, y, zm := expect(f)
		if math.Hypot(c.X-x, c.Y-y) > tau {
			return h.Failf("interpolate/position", "%s = (%.15g %.15g), the point at arc-length fraction clamp(%v) is (%.15g %.15g)", what, c.X, c.Y, f, x, y)
		}
		got := []float64{}
		if p.CoordinatesType().Is3D() {
			got = append(got, c.Z)
		}
		if p.CoordinatesType().IsMeasured() {
			got = append(got, c.M)
		}
		for i := range zm {
			// Z/M are interpolated on the same segment; at a break point either neighbouring segment is acceptable, so only check the magnitude loosely there
			if math.IsNaN(got[i]) || math.Abs(got[i]-zm[i]) > 1e-6*(1+math.Abs(zm[i]))+float64(len(fs)) {
				return h.Failf("interpolate/zm", "%s has Z/M %v, expected about %v", what, got, zm)
			}
		}
		return nil
	}
	for _, f := range fracs {
		if f >= 9 { // break point encoding
			idx := int(f-10+0.5) % np
			shift := int(math.Round((f - 10 - float64(int(f-10+0.5))) * 4))
			bp := 0.0
			if total > 0 {
				c, _ := cum[idx].Float64()
				bp = c / total
			}
			for s := 0; s < absI(shift); s++ {
				bp = math.Nextafter(bp, float64(shift)*math.Inf(1))
			}
			f = bp
		}
		if fl := check(fmt.Sprintf("InterpolatePoint(%v)", f), ls.InterpolatePoint(f), f); fl != nil {
			return fl
		}
	}
	mp := ls.InterpolateEvenlySpacedPoints(n)
	want := n
	if want < 0 {
		want = 0
	}
	if mp.NumPoints() != want {
		return h.Failf("interpolate/evenly-count", "InterpolateEvenlySpacedPoints(%d) returned %d points", n, mp.NumPoints())
	}
	for i := 0; i < mp.NumPoints(); i++ {
		f := 0.5
		if n > 1 {
			f = float64(i) / float64(n-1)
		}
		if fl := check(fmt.Sprintf("InterpolateEvenlySpacedPoints(%d)[%d]", n, i), mp.PointN(i), f); fl != nil {
			return fl
		}
	}
	return nil
}

func absI(a int) int {
	if a < 0 {
		return -a
	}
	return a
}

func ulpOf(x float64) *big.Rat {
	if x == 0 {
		return new(big.Rat).SetFloat64(5e-324)
	}
	a := math.Abs(x)
	n := math.Nextafter(a, math.Inf(1))
	if math.IsInf(n, 1) {
		n = a
		a = math.Nextafter(a, 0)
	}
	return new(big.Rat).Sub(new(big.Rat).SetFloat64(n), new(big.Rat).SetFloat64(a))
}

func c17Snap(sn C17Snap) *h.Failure {
	x := float64(sn.X)
	snap := func(v float64) float64 {
		p := geom.NewPointXY(v, -v).SnapToGrid(sn.DP)
		xy, _ := p.XY()
		// odd in both ordinates at once: the Y ordinate is -v
		if math.Float64bits(xy.Y) != math.Float64bits(-xy.X) && !(xy.X == 0 && xy.Y == 0) {
			return math.NaN()
		}
		return xy.X
	}
	s := snap(x)
	if math.IsNaN(s) {
		p := geom.NewPointXY(x, -x).SnapToGrid(sn.DP)
		return h.Failf("snap/not-odd-or-nan", "SnapToGrid(%d) of POINT(%v %v) = %s: not odd (snap(-x) != -snap(x)) or NaN", sn.DP, x, -x, p.AsText())
	}
	if math.IsInf(s, 0) {
		return h.Failf("snap/not-finite", "SnapToGrid(%d) of %v = %v", sn.DP, x, s)
	}
	if n := snap(-x); math.Float64bits(n) != math.Float64bits(-s) && !(n == 0 && s == 0) {
		return h.Failf("snap/not-odd", "SnapToGrid(%d): snap(%v) = %v but snap(%v) = %v", sn.DP, x, s, -x, n)
	}
	// |snap(x) - x| <= step/2 + 2 ulp
	step := new(big.Rat).SetInt(new(big.Int).Exp(big.NewInt(10), big.NewInt(int64(absI(sn.DP))), nil))
	if sn.DP > 0 {
		step.Inv(step)
	}
	lim := new(big.Rat).Mul(step, big.NewRat(1, 2))
	u := ulpOf(x)
	if us := ulpOf(s); us.Cmp(u) > 0 {
		u = us
	}
	lim.Add(lim, new(big.Rat).Mul(u, big.NewRat(2, 1)))
	diff := new(big.Rat).Sub(new(big.Rat).SetFloat64(s), new(big.Rat).SetFloat64(x))
	diff.Abs(diff)
	if diff.Cmp(lim) > 0 {
		return h.Failf("snap/moved-too-far", "SnapToGrid(%d) moved %v to %v: more than half a grid step (+2 ulp)", sn.DP, x, s)
	}
	// idempotent where the grid is coarser than float64 resolution
	scaled := new(big.Rat).Quo(new(big.Rat).Abs(new(big.Rat).SetFloat64(x)), step)
	if scaled.Cmp(new(big.Rat).SetInt64(1<<40)) < 0 {
		if s2 := snap(s); math.Float64bits(s2) != math.Float64bits(s) && !(s2 == 0 && s == 0) {
			return h.Failf("snap/not-idempotent", "SnapToGrid(%d): snap(%v) = %v but snapping again gives %v", sn.DP, x, s, s2)
		}
	}
	return nil
}

func c17Check(c C17Case, cx *h.Ctx) *h.Failure {
	model := c.G.Norm()
	g := model.ToGeom()
	cx.Class("type=" + model.T)
	cx.Class("family=" + c.Family)
	mag := magnitudeOf(model)
	tau := 1e-9 * mag
	diam := diameterOf(model)
	desc := func() string { return "\ng = " + clip(model.String(), 600) }
	wrap := func(f *h.Failure) *h.Failure {
		if f != nil {
			f.Msg += desc()
		}
		return f
	}
	// SnapToGrid on scalars
	for _, sn := range c.Snap {
		if f := c17Snap(sn); f != nil {
			return f
		}
	}
	eg := exact.MustFromModel(model)
	hasSeq := len(lineSeqs(model)) > 0
	// Densify
	dist := c.DensifyF * diam
	if c.DensifyF < 0 {
		dist = -c.DensifyF
		if c.Family != "lattice" {
			dist = -c.DensifyF * diam / 8
		}
	}
	if dist < diam/60 {
		dist = diam / 60 // bound the number of inserted vertices (the exact checks are expensive)
	}
	if hasSeq {
		if f := c17Densify(model, g, dist, tau); f != nil {
			return wrap(f)
		}
		dg := g.Densify(dist)
		if math.Abs(dg.Length()-g.Length()) > tau*float64(1+len(eg.Segs())) || math.Abs(dg.Area()-g.Area()) > tau*mag {
			return wrap(h.Failf("densify/measure", "Densify(%v) changed Length/Area: %v/%v vs %v/%v", dist, dg.Length(), dg.Area(), g.Length(), g.Area()))
		}
	}
	for _, bad := range []float64{0, -1} {
		panicked := false
		func() {
			defer func() {
				if recover() != nil {
					panicked = true
				}
			}()
			g.Densify(bad)
		}()
		if !panicked && hasSeq {
			return wrap(h.Failf("densify/nonpositive-accepted", "Densify(%v) did not panic (documented precondition)", bad))
		}
	}
	// Simplify
	thr := c.SimplF * diam
	if c.SimplF < 0 {
		thr = -c.SimplF
		if c.Family != "lattice" {
			thr = -c.SimplF * diam / 8
		}
	}
	if f := c17Simplify(model, g, thr); f != nil {
		return wrap(f)
	}
	// Interpolate (LineStrings)
	if model.T == gm.LineString && len(model.Co) > 0 {
		if f := c17Interpolate(model, g.MustAsLineString(), c.Fracs, c.N, tau*10); f != nil {
			return wrap(f)
		}
	}
	// Reverse: involution, validity preserved
	rr := gm.FromGeom(g.Reverse().Reverse())
	if d := gm.Diff(model, rr); d != "" {
		return wrap(h.Failf("reverse/not-involution", "Reverse().Reverse() differs: %s", d))
	}
	if (g.Reverse().Validate() == nil) != (g.Validate() == nil) {
		return wrap(h.Failf("reverse/validity", "Reverse changed validity"))
	}
	if !multisetEq(positions(model), positions(gm.FromGeom(g.Reverse()))) {
		return wrap(h.Failf("reverse/pointset", "Reverse changed the set of vertices"))
	}
	// ForceCW / ForceCCW
	cw, ccw := g.ForceCW(), g.ForceCCW()
	if !cw.IsCW() || !ccw.IsCCW() {
		return wrap(h.Failf("orientation/not-forced", "IsCW(ForceCW)=%v IsCCW(ForceCCW)=%v", cw.IsCW(), ccw.IsCCW()))
	}
	for _, v := range []struct {
		name string
		x    geom.Geometry
		cw   bool
	}{{"ForceCW", cw, true}, {"ForceCCW", ccw, false}} {
		if !multisetEq(positions(model), positions(gm.FromGeom(v.x))) {
			return wrap(h.Failf("orientation/vertices", "%s changed the multiset of vertices", v.name))
		}
		if a, b := exact.RatFloat(exact.MustFromModel(gm.FromGeom(v.x)).Area()), exact.RatFloat(eg.Area()); a != b {
			return wrap(h.Failf("orientation/area", "%s changed the exact area from %v to %v", v.name, b, a))
		}
		var again geom.Geometry
		if v.cw {
			again = v.x.ForceCW()
		} else {
			again = v.x.ForceCCW()
		}
		if d := gm.Diff(gm.FromGeom(v.x), gm.FromGeom(again)); d != "" {
			return wrap(h.Failf("orientation/not-idempotent", "%s is not idempotent: %s", v.name, d))
		}
		// every ring is oriented as required (exact signed area)
		gm.FromGeom(v.x).Walk(func(n gm.G) {})
		for _, part := range exact.MustFromModel(gm.FromGeom(v.x)).Parts {
			for _, poly := range part.Polys {
				for ri, r := range poly {
					s := exact.RingSignedArea(r).Sign()
					wantNeg := v.cw == (ri == 0)
					if s != 0 && (s < 0) != wantNeg {
						return wrap(h.Failf("orientation/ring", "%s: ring %d has the wrong orientation", v.name, ri))
					}
				}
			}
		}
	}
	nontrivial := false
	for _, s := range lineSeqs(model) {
		d := gm.Dim(model.CT)
		n := len(s.fs) / d
		for i := 0; i+1 < n; i++ {
			if posKey(s.fs[i*d:i*d+2]) == posKey(s.fs[(i+1)*d:(i+1)*d+2]) {
				nontrivial = true
			}
		}
		if s.ring || (n >= 2 && posKey(s.fs[:2]) == posKey(s.fs[(n-1)*d:(n-1)*d+2])) {
			nontrivial = true
		}
	}
	if c.DensifyF < 0 || c.SimplF < 0 {
		nontrivial = true
	}
	if nontrivial {
		cx.NonTrivial()
	}
	cx.Sample(map[string]interface{}{"g": clip(model.String(), 250), "densify": dist, "simplify": thr, "fracs": c.Fracs, "n": c.N, "snap": c.Snap})
	return nil
}

func TestC17(t *testing.T) {
	h.Run(t, h.Prop[C17Case]{
		ID:          "C17",
		Rule:        "cases = one valid geometry from the C14 generator (lattice and float families; lines with repeated consecutive vertices at start/middle/end, closed and self-touching lines, polygons with touching holes) in a drawn coordinate type with unique Z/M tags, plus parameters: Densify distance 1e-3..10 x diameter or an exact integer length, Simplify threshold 0..diameter or an exact integer, interpolation fractions over [-1,2] incl. 0, 1 and cumulative break points +-1 ulp, n in -1..50, scalar ordinates (all float64 classes up to 1e300) x decimal places -320..320. Oracles in exact arithmetic: Densify keeps originals in order, inserted vertices lie on their original segment (exact distance <= tau), no gap > d(1+1e-9), Length/Area unchanged, d <= 0 panics; Simplify output embeds (dynamic programme) as a subsequence with the same end points and every dropped vertex within t of the line through its bracketing kept vertices, result valid or an error; InterpolatePoint finite, at the arc-length position computed at 200 bits, Z/M interpolated, InterpolateEvenlySpacedPoints count and fractions; SnapToGrid odd, finite, within half a step + 2 ulp (rational comparison), idempotent where |x| x 10^places < 2^40; Reverse involution preserving vertices and validity; ForceCW/CCW give IsCW/IsCCW, exact ring orientations, same exact area and vertex multiset, idempotent. non-trivial = a repeated consecutive vertex or a closed ring/line or a parameter placed on a data boundary",
		Assumptions: []string{"exact kernel primitives", "math/big"},
		Gen:         c17Gen,
		Check:       c17Check,
	})
}

package props

import (
	"fmt"
	"math"
	"testing"

	"github.com/peterstace/simplefeatures/geom"
	"pgregory.net/rapid"

	"verif/internal/codec"
	"verif/internal/exact"
	"verif/internal/gen"
	"verif/internal/gm"
	"verif/internal/h"
)

// ---------- C03: Validate accepts exactly the valid geometries ----------

type C03Case struct {
	G gm.G `json:"g"`
	// representation change applied to obtain the second geometry
	RotSeed  []int  `json:"rot_seed"`  // per ring (cyclic): rotation of the start vertex
	Reverse  []bool `json:"reverse"`   // per ring/line (cyclic)
	PermSeed []int  `json:"perm_seed"` // Fisher-Yates draws for hole/member permutations (cyclic)
	TX       int    `json:"tx"`
	TY       int    `json:"ty"`
	Reflect  int    `json:"reflect"` // 0 none, 1 x -> -x, 2 y -> -y, 3 swap axes
	Family   string `json:"family"`
}

func c03Ring(t *rapid.T, side int, ox, oy int) []gm.F {
	n := rapid.IntRange(3, 6).Draw(t, "ringn")
	type pt struct{ x, y int }
	pts := make([]pt, n)
	for i := range pts {
		pts[i] = pt{rapid.IntRange(0, side).Draw(t, "rx"), rapid.IntRange(0, side).Draw(t, "ry")}
	}
	if rapid.IntRange(0, 2).Draw(t, "star") > 0 {
		// angular sort around the (doubled) centroid: star-shaped rings are usually simple
		cx, cy := 0, 0
		for _, p := range pts {
			cx += p.x
			cy += p.y
		}
		ang := func(p pt) float64 { return math.Atan2(float64(p.y*n-cy), float64(p.x*n-cx)) }
		for i := 1; i < n; i++ {
			for j := i; j > 0 && ang(pts[j]) < ang(pts[j-1]); j-- {
				pts[j], pts[j-1] = pts[j-1], pts[j]
			}
		}
	}
	var fs []gm.F
	for _, p := range pts {
		fs = append(fs, gm.F(p.x+ox), gm.F(p.y+oy))
	}
	closeIt := rapid.IntRange(0, 19).Draw(t, "closering") > 0
	if closeIt {
		fs = append(fs, fs[0], fs[1])
	}
	if rapid.IntRange(0, 9).Draw(t, "dupvertex") == 0 {
		i := rapid.IntRange(0, len(fs)/2-1).Draw(t, "dupat")
		fs = append(fs[:2*i+2], fs[2*i:]...)
	}
	return fs
}

func c03RawPolygon(t *rapid.T, side, ox, oy int) gm.G {
	g := gm.G{T: gm.Polygon}
	nr := rapid.SampledFrom([]int{1, 1, 2, 2, 3, 4}).Draw(t, "nrings")
	for i := 0; i < nr; i++ {
		if i > 0 && rapid.IntRange(0, 3).Draw(t, "reusevertex") == 0 {
			// a ring through a vertex of an earlier ring (forces touches)
			prev := g.Rings[rapid.IntRange(0, len(g.Rings)-1).Draw(t, "prevring")]
			r := c03Ring(t, side, ox, oy)
			k := rapid.IntRange(0, len(prev)/2-1).Draw(t, "prevvertex")
			r[0], r[1] = prev[2*k], prev[2*k+1]
			if len(r) >= 4 {
				r[len(r)-2], r[len(r)-1] = r[0], r[1]
			}
			g.Rings = append(g.Rings, r)
			continue
		}
		g.Rings = append(g.Rings, c03Ring(t, side, ox, oy))
	}
	return g
}

func c03RawLine(t *rapid.T, side int) gm.G {
	g := gm.G{T: gm.LineString}
	n := rapid.IntRange(1, 6).Draw(t, "linen")
	for i := 0; i < n; i++ {
		g.Co = append(g.Co, gm.F(rapid.IntRange(0, side).Draw(t, "lx")), gm.F(rapid.IntRange(0, side).Draw(t, "ly")))
	}
	if rapid.IntRange(0, 3).Draw(t, "closeline") == 0 {
		g.Co = append(g.Co, g.Co[0], g.Co[1])
	}
	if rapid.IntRange(0, 5).Draw(t, "repeatall") == 0 {
		g.Co = append(g.Co[:2], g.Co[:2]...)
	}
	return g
}

func c03Gen(t *rapid.T, cx *h.Ctx) C03Case {
	c := C03Case{}
	side := rapid.IntRange(3, 6).Draw(t, "side")
	fam := rapid.IntRange(0, 11).Draw(t, "family")
	typ := rapid.SampledFrom(gm.Types).Draw(t, "type")
	switch {
	case fam <= 3: // raw rings/lines without acceptance
		c.Family = "raw"
		switch typ {
		case gm.Polygon:
			c.G = c03RawPolygon(t, side, 0, 0)
		case gm.MultiPolygon:
			g := gm.G{T: gm.MultiPolygon}
			for i := rapid.IntRange(1, 3).Draw(t, "npoly"); i > 0; i-- {
				ox := 0
				if rapid.Bool().Draw(t, "apart") {
					ox = (side + 1) * len(g.Mem)
				}
				g.Mem = append(g.Mem, c03RawPolygon(t, side, ox, 0))
			}
			c.G = g
		case gm.LineString:
			c.G = c03RawLine(t, side)
		case gm.MultiLineString:
			g := gm.G{T: gm.MultiLineString}
			for i := rapid.IntRange(1, 3).Draw(t, "nline"); i > 0; i-- {
				g.Mem = append(g.Mem, c03RawLine(t, side))
			}
			c.G = g
		case gm.GeometryCollection:
			g := gm.G{T: gm.GeometryCollection}
			for i := rapid.IntRange(1, 3).Draw(t, "ngc"); i > 0; i-- {
				switch rapid.IntRange(0, 3).Draw(t, "gck") {
				case 0:
					g.Mem = append(g.Mem, c03RawPolygon(t, side, 0, 0))
				case 1:
					g.Mem = append(g.Mem, c03RawLine(t, side))
				case 2:
					g.Mem = append(g.Mem, gm.G{T: gm.GeometryCollection, Mem: []gm.G{c03RawPolygon(t, side, 0, 0)}})
				default:
					g.Mem = append(g.Mem, gm.G{T: gm.Point, Co: gm.Fs(1, 1)})
				}
			}
			c.G = g
		default:
			cpx := gen.DrawComplex(t, 2, [2]int{0, 0})
			c.G = cpx.Geom(t, typ, 0, false, nil)
		}
	case fam == 4: // shell + holes traced from a triangle subset (touching chains and cycles of holes)
		c.Family = "complement-holes"
		k := rapid.IntRange(2, 3).Draw(t, "hk")
		if cx.Thorough {
			k = rapid.IntRange(2, 4).Draw(t, "hk2")
		}
		c.G = gen.DrawComplex(t, k, [2]int{0, 0}).HolesPolygon(t)
	case fam <= 7: // complex-derived valid geometry, possibly with one breaking edit
		c.Family = "complex"
		k := rapid.IntRange(2, 3).Draw(t, "k")
		if cx.Thorough {
			k = rapid.IntRange(2, 5).Draw(t, "k2")
		}
		cpx := gen.DrawComplex(t, k, [2]int{0, 0})
		if typ == gm.Point || typ == gm.MultiPoint {
			typ = gm.MultiPolygon
		}
		g := cpx.Geom(t, typ, 0, false, nil)
		if rapid.IntRange(0, 2).Draw(t, "break") > 0 {
			g = c03BreakingEdit(t, g, 2*k)
			c.Family = "complex+edit"
		}
		c.G = g
	case fam == 10: // inscribed rings: a ring whose vertices all lie on another ring, touching its bounding box on every side
		c.Family = "inscribed"
		a, b := rapid.IntRange(1, 3).Draw(t, "ia"), rapid.IntRange(1, 3).Draw(t, "ib")
		A, B := float64(2*a), float64(2*b)
		outer := gm.Fs(0, 0, A, 0, A, B, 0, B, 0, 0)
		// boundary points of the outer rectangle in counter-clockwise order: corners and edge midpoints
		bp := [][2]float64{{0, 0}, {float64(a), 0}, {A, 0}, {A, float64(b)}, {A, B}, {float64(a), B}, {0, B}, {0, float64(b)}}
		// an inner ring through 3..5 of them in cyclic order (a diamond through the midpoints, a triangle with a
		// vertex in a corner, ...)
		start := rapid.IntRange(0, 7).Draw(t, "istart")
		var inner []float64
		idx := start
		for k := rapid.IntRange(3, 5).Draw(t, "ik"); k > 0 && idx < start+8; k-- {
			inner = append(inner, bp[idx%8][0], bp[idx%8][1])
			idx += rapid.IntRange(1, 3).Draw(t, "istep")
		}
		inner = append(inner, inner[0], inner[1])
		po := gm.G{T: gm.Polygon, Rings: [][]gm.F{outer}}
		pi := gm.G{T: gm.Polygon, Rings: [][]gm.F{gm.Fs(inner...)}}
		switch rapid.IntRange(0, 3).Draw(t, "ishape") {
		case 0: // the inscribed ring as a hole
			c.G = gm.G{T: gm.Polygon, Rings: [][]gm.F{outer, gm.Fs(inner...)}}
		case 1:
			c.G = gm.G{T: gm.MultiPolygon, Mem: []gm.G{po, pi}}
		case 2:
			c.G = gm.G{T: gm.MultiPolygon, Mem: []gm.G{pi, po}}
		default:
			far := gm.G{T: gm.Polygon, Rings: [][]gm.F{gm.Fs(20, 20, 22, 20, 22, 22, 20, 20)}}
			c.G = gm.G{T: gm.MultiPolygon, Mem: []gm.G{far, po, {T: gm.Polygon}, pi}}
		}
	case fam == 11: // a chain of triangular holes from the shell inwards: the first touches the shell at a vertex,
		// each next one touches its predecessor at a vertex; the last may reach the opposite side (interior cut in two)
		c.Family = "hole-chain"
		m := rapid.IntRange(1, 3).Draw(t, "chainlen")
		y := rapid.IntRange(3, 5).Draw(t, "chainy")
		// slack 0: the far edge of the last hole lies on the right side of the shell
		W := 2*m + rapid.IntRange(0, 2).Draw(t, "chainslack")
		poly := gm.G{T: gm.Polygon, Rings: [][]gm.F{gm.Fs(0, 0, float64(W), 0, float64(W), 8, 0, 8, 0, 0)}}
		var holes [][]gm.F
		for i := 0; i < m; i++ {
			// link i: apex (2i, y), far vertices (2i+2, y-1) and (2i+2, y+1); the next apex is one of the far vertices
			x, yy := float64(2*i), float64(y)
			holes = append(holes, gm.Fs(x, yy, x+2, yy-1, x+2, yy+1))
			y += rapid.SampledFrom([]int{-1, 1}).Draw(t, "chainside")
		}
		// hole order, ring start and direction as listed are part of the case (the representation change permutes again)
		for i := len(holes) - 1; i > 0; i-- {
			j := rapid.IntRange(0, i).Draw(t, "chainperm")
			holes[i], holes[j] = holes[j], holes[i]
		}
		for _, hl := range holes {
			r := rapid.IntRange(0, 2).Draw(t, "chainrot")
			rev := rapid.Bool().Draw(t, "chainrev")
			var ring []gm.F
			for k := 0; k <= 3; k++ {
				idx := (r + k) % 3
				if rev {
					idx = (r + 3 - k%3) % 3
				}
				ring = append(ring, hl[2*idx], hl[2*idx+1])
			}
			poly.Rings = append(poly.Rings, ring)
		}
		c.G = poly
	default: // non-finite ordinates injected into a valid geometry
		c.Family = "nonfinite"
		cpx := gen.DrawComplex(t, 2, [2]int{0, 0})
		g := cpx.Geom(t, typ, 0, false, nil)
		ct := rapid.IntRange(0, 3).Draw(t, "ct")
		g = forceCT(g, ct)
		np := g.NumPositions()
		if np > 0 {
			target := rapid.IntRange(0, np-1).Draw(t, "nfpos")
			dim := rapid.IntRange(0, gm.Dim(ct)-1).Draw(t, "nfdim")
			val := rapid.SampledFrom([]float64{math.NaN(), math.Inf(1), math.Inf(-1)}).Draw(t, "nfval")
			// sometimes a second non-finite value in the same position (X and Y both: +Inf/-Inf, NaN/Inf, ...)
			dim2, val2 := -1, 0.0
			if rapid.IntRange(0, 2).Draw(t, "nfsecond") == 0 {
				dim2 = rapid.IntRange(0, gm.Dim(ct)-1).Draw(t, "nfdim2")
				val2 = rapid.SampledFrom([]float64{math.NaN(), math.Inf(1), math.Inf(-1)}).Draw(t, "nfval2")
			}
			// sometimes a further non-finite value in another position (a Z/M one ahead of an X/Y one, ...)
			target3, dim3, val3 := -1, 0, 0.0
			if rapid.IntRange(0, 2).Draw(t, "nfthird") == 0 {
				target3 = rapid.IntRange(0, np-1).Draw(t, "nfpos3")
				dim3 = rapid.IntRange(0, gm.Dim(ct)-1).Draw(t, "nfdim3")
				val3 = rapid.SampledFrom([]float64{math.NaN(), math.Inf(1), math.Inf(-1)}).Draw(t, "nfval3")
			}
			i := 0
			g = g.MapPositions(func(p []gm.F, _ int) []gm.F {
				if i == target {
					p[dim] = gm.F(val)
					if dim2 >= 0 && dim2 != dim {
						p[dim2] = gm.F(val2)
					}
				}
				if i == target3 {
					p[dim3] = gm.F(val3)
				}
				i++
				return p
			})
		}
		c.G = g
	}
	c.RotSeed = rapid.SliceOfN(rapid.IntRange(0, 7), 1, 6).Draw(t, "rot")
	c.Reverse = rapid.SliceOfN(rapid.Bool(), 1, 6).Draw(t, "rev")
	c.PermSeed = rapid.SliceOfN(rapid.IntRange(0, 5), 1, 8).Draw(t, "perm")
	c.TX, c.TY = rapid.IntRange(-900, 900).Draw(t, "tx"), rapid.IntRange(-900, 900).Draw(t, "ty")
	c.Reflect = rapid.IntRange(0, 3).Draw(t, "reflect")
	return c
}

// c03BreakingEdit applies one structural edit that usually breaks validity.
func c03BreakingEdit(t *rapid.T, g gm.G, ext int) gm.G {
	out := g.Clone()
	var polys [][]int
	collect(out, nil, func(n gm.G) bool { return n.T == gm.Polygon && len(n.Rings) > 0 }, &polys)
	if len(polys) == 0 {
		return out
	}
	path := polys[rapid.IntRange(0, len(polys)-1).Draw(t, "editpoly")]
	p := at(&out, path)
	switch rapid.IntRange(0, 5).Draw(t, "editkind") {
	case 0: // move one vertex to another lattice point
		r := rapid.IntRange(0, len(p.Rings)-1).Draw(t, "ering")
		n := len(p.Rings[r]) / 2
		i := rapid.IntRange(0, n-1).Draw(t, "evertex")
		x, y := gm.F(rapid.IntRange(0, ext).Draw(t, "ex")), gm.F(rapid.IntRange(0, ext).Draw(t, "ey"))
		p.Rings[r][2*i], p.Rings[r][2*i+1] = x, y
		if i == 0 || i == n-1 { // keep the ring closed
			p.Rings[r][0], p.Rings[r][1] = x, y
			p.Rings[r][2*(n-1)], p.Rings[r][2*(n-1)+1] = x, y
		}
	case 1: // swap shell and a hole
		if len(p.Rings) >= 2 {
			p.Rings[0], p.Rings[1] = p.Rings[1], p.Rings[0]
		}
	case 2: // duplicate a ring
		r := rapid.IntRange(0, len(p.Rings)-1).Draw(t, "dupring")
		p.Rings = append(p.Rings, append([]gm.F(nil), p.Rings[r]...))
	case 3: // add a small ring through two existing vertices
		r := p.Rings[rapid.IntRange(0, len(p.Rings)-1).Draw(t, "thru")]
		n := len(r) / 2
		i, j := rapid.IntRange(0, n-1).Draw(t, "vi"), rapid.IntRange(0, n-1).Draw(t, "vj")
		x, y := gm.F(rapid.IntRange(0, ext).Draw(t, "nx")), gm.F(rapid.IntRange(0, ext).Draw(t, "ny"))
		p.Rings = append(p.Rings, []gm.F{r[2*i], r[2*i+1], r[2*j], r[2*j+1], x, y, r[2*i], r[2*i+1]})
	case 4: // add a hole ring anywhere
		p.Rings = append(p.Rings, c03Ring(t, ext, 0, 0))
	default: // duplicate this polygon as a further member of an enclosing MultiPolygon (interiors intersect)
		if len(path) > 0 {
			parent := at(&out, path[:len(path)-1])
			if parent.T == gm.MultiPolygon {
				parent.Mem = append(parent.Mem, p.Clone())
			}
		}
	}
	return out
}

// c03Represent applies the representation change.
func c03Represent(c C03Case) gm.G {
	ri, vi, pi := 0, 0, 0
	nextRot := func() int { v := c.RotSeed[ri%len(c.RotSeed)]; ri++; return v }
	nextRev := func() bool { v := c.Reverse[vi%len(c.Reverse)]; vi++; return v }
	nextPerm := func(n int) []int {
		p := make([]int, n)
		for i := range p {
			p[i] = i
		}
		for i := n - 1; i > 0; i-- {
			j := c.PermSeed[pi%len(c.PermSeed)] % (i + 1)
			pi++
			p[i], p[j] = p[j], p[i]
		}
		return p
	}
	var rec func(g gm.G) gm.G
	rec = func(g gm.G) gm.G {
		out := g.Clone()
		d := gm.Dim(g.CT)
		switch g.T {
		case gm.LineString:
			if nextRev() {
				out.Co = reverseFlat(out.Co, d)
			}
		case gm.Polygon:
			if len(out.Rings) > 1 {
				p := nextPerm(len(out.Rings) - 1)
				holes := append([][]gm.F(nil), out.Rings[1:]...)
				for i, j := range p {
					out.Rings[1+i] = holes[j]
				}
			}
			for i, r := range out.Rings {
				n := len(r) / d
				closed := n >= 2 && r[0] == r[(n-1)*d] && r[1] == r[(n-1)*d+1]
				if closed && n >= 3 {
					r = rotateRing(r, d, nextRot()%(n-1))
				}
				if nextRev() {
					r = reverseFlat(r, d)
				}
				out.Rings[i] = r
			}
		default:
			if len(out.Mem) > 0 {
				p := nextPerm(len(out.Mem))
				mem := make([]gm.G, len(out.Mem))
				for i, j := range p {
					mem[i] = rec(g.Mem[j])
				}
				out.Mem = mem
			}
		}
		return out
	}
	out := rec(c.G.Norm())
	return out.MapPositions(func(p []gm.F, ct int) []gm.F {
		x, y := float64(p[0]), float64(p[1])
		switch c.Reflect {
		case 1:
			x = -x
		case 2:
			y = -y
		case 3:
			x, y = y, x
		}
		p[0], p[1] = gm.F(x+float64(c.TX)), gm.F(y+float64(c.TY))
		return p
	})
}

func c03AllFinite(g gm.G) bool {
	for _, f := range g.AllOrdinates() {
		if math.IsNaN(float64(f)) || math.IsInf(float64(f), 0) {
			return false
		}
	}
	return true
}

func c03Check(c C03Case, cx *h.Ctx) *h.Failure {
	cx.Class("family=" + c.Family)
	model := c.G.Norm()
	cx.Class("type=" + model.T)
	v := exact.Valid(model)
	rule := "valid"
	if v != nil {
		rule = v.Rule
	}
	cx.Class("oracle=" + rule)
	g := model.ToGeom()
	var err error
	h.Lib("Validate", func() { err = g.Validate() })
	if (err == nil) != (v == nil) {
		return h.Failf("validate/verdict", "Validate() = %v but the definitional oracle says %s (%v)\ng = %s", err, rule, v, model)
	}
	// through the concrete type as well
	if f := c03Concrete(g, err); f != nil {
		return f
	}
	// representation change: same verdict
	rep := c03Represent(c)
	rv := exact.Valid(rep)
	if (rv == nil) != (v == nil) {
		// the oracle itself must be invariant; if not, that is a kernel bug, not a finding
		panic(exact.KernelBug(fmt.Sprintf("validity oracle not invariant under representation change: %v vs %v\n%s\n%s", v, rv, model, rep)))
	}
	rerr := rep.ToGeom().Validate()
	if (rerr == nil) != (err == nil) {
		return h.Failf("validate/representation-dependent", "Validate() = %v for\n  %s\nbut %v for the same geometry re-expressed (ring start/direction, hole/member order, translation, reflection):\n  %s\noracle: %s", err, model, rerr, rep, rule)
	}

	// validity is a property of the XY point set: the same geometry with Z, M or ZM payload (every position,
	// also a ring's closing one, carrying its own values) gets the same verdict
	if model.CT == 0 {
		lct := 1 + (len(c.RotSeed)+len(c.PermSeed)+absInt(c.TX))%3
		lifted := c16TagWith(forceCT(model, lct), (c.TY+len(c.Reverse))%2 == 0)
		lerr := lifted.ToGeom().Validate()
		if (lerr == nil) != (err == nil) {
			return h.Failf("validate/zm-dependent", "Validate() = %v for\n  %s\nbut %v for the same XY geometry with %s payload:\n  %s\noracle: %s", err, model, lerr, gm.CTName(lct), lifted, rule)
		}
		cx.Class("lifted=" + gm.CTName(lct))
	}

	// IsSimple / IsRing / IsClosed = definitional values
	if f := c03Simple(model, g); f != nil {
		return f
	}

	// decoders without NoValidate succeed exactly on valid geometries
	if c03AllFinite(model) {
		txt := codec.JoinWKT(codec.WKTTokens(model, codec.Respell{}), []string{" "})
		_, werr := geom.UnmarshalWKT(txt)
		if (werr == nil) != (v == nil) {
			return h.Failf("validate/wkt-decoder-gate", "UnmarshalWKT(%q) error = %v, oracle says %s", txt, werr, rule)
		}
		_, berr := geom.UnmarshalWKB(codec.EncodeWKB(model, []bool{true, false}))
		if (berr == nil) != (v == nil) {
			return h.Failf("validate/wkb-decoder-gate", "UnmarshalWKB error = %v, oracle says %s for %s", berr, rule, model)
		}
		if model.CT == 0 && !containsEmptyPointInMulti(model) {
			if js, jerr := g.MarshalJSON(); jerr == nil {
				_, gerr := geom.UnmarshalGeoJSON(js)
				if (gerr == nil) != (v == nil) {
					return h.Failf("validate/geojson-decoder-gate", "UnmarshalGeoJSON error = %v, oracle says %s for %s", gerr, rule, model)
				}
			}
			if tw, terr := geom.MarshalTWKB(g, 0, geom.TWKBCloseRings()); terr == nil && c03TWKBFaithful(model) {
				_, derr := geom.UnmarshalTWKB(tw)
				if (derr == nil) != (v == nil) {
					return h.Failf("validate/twkb-decoder-gate", "UnmarshalTWKB error = %v, oracle says %s for %s", derr, rule, model)
				}
			}
		}
	}
	// the validating operation: Simplify without NoValidate fails exactly when what it would return is invalid
	// (the oracle's verdict on that result, which again has integer ordinates)
	if c03AllFinite(model) && c.Family != "wide" {
		for _, th := range []float64{0, 0.75} {
			var r2 geom.Geometry
			var err1, err2 error
			h.Lib("Simplify", func() {
				r2, err2 = g.Simplify(th, geom.NoValidate{})
				_, err1 = g.Simplify(th)
			})
			if err2 != nil {
				continue
			}
			rv := exact.Valid(gm.FromGeom(r2).Norm())
			if (err1 == nil) != (rv == nil) {
				rrule := "valid"
				if rv != nil {
					rrule = rv.Rule
				}
				return h.Failf("validate/simplify-gate", "Simplify(%g) error = %v, but the oracle says %s for what it returns with NoValidate: %s\ng = %s", th, err1, rrule, clip(r2.AsText(), 300), model)
			}
			if rv != nil {
				cx.Count("simplify_gate_refusals", 1)
			}
		}
	}
	nRings, nMem := 0, 0
	model.Walk(func(n gm.G) {
		nRings += len(n.Rings)
		if n.T == gm.LineString || n.T == gm.Polygon {
			nMem++
		}
	})
	if nRings >= 2 || nMem >= 2 {
		cx.NonTrivial()
	}
	cx.Sample(map[string]interface{}{"g": clip(model.String(), 300), "oracle": rule, "family": c.Family})
	return nil
}

// TWKB re-closes rings and cannot carry unclosed rings / 1-point rings faithfully;
// only use it when every ring is closed and has >= 3 positions.
func c03TWKBFaithful(g gm.G) bool {
	ok := true
	g.Walk(func(n gm.G) {
		for _, r := range n.Rings {
			m := len(r) / 2
			if m < 3 || r[0] != r[2*(m-1)] || r[1] != r[2*(m-1)+1] {
				ok = false
			}
			if m >= 2 && r[0] == r[2*(m-2)] && r[1] == r[2*(m-2)+1] {
				ok = false // last-but-one equals first: the decoder cannot tell whether the ring was closed
			}
		}
		if n.T == gm.GeometryCollection || n.T == gm.MultiPolygon || n.T == gm.MultiLineString {
			for _, m := range n.Mem {
				if m.IsEmpty() {
					ok = false // member structure of empties is a tolerated TWKB loss
				}
			}
		}
	})
	return ok
}

func c03Concrete(g geom.Geometry, want error) *h.Failure {
	var got error
	switch g.Type() {
	case geom.TypePoint:
		got = g.MustAsPoint().Validate()
	case geom.TypeLineString:
		got = g.MustAsLineString().Validate()
	case geom.TypePolygon:
		got = g.MustAsPolygon().Validate()
	case geom.TypeMultiPoint:
		got = g.MustAsMultiPoint().Validate()
	case geom.TypeMultiLineString:
		got = g.MustAsMultiLineString().Validate()
	case geom.TypeMultiPolygon:
		got = g.MustAsMultiPolygon().Validate()
	case geom.TypeGeometryCollection:
		got = g.MustAsGeometryCollection().Validate()
	}
	if (got == nil) != (want == nil) {
		return h.Failf("validate/concrete-vs-geometry", "%s.Validate() = %v but Geometry.Validate() = %v", g.Type(), got, want)
	}
	return nil
}

func c03Simple(model gm.G, g geom.Geometry) *h.Failure {
	if !c03AllFinite(model) {
		return nil
	}
	switch model.T {
	case gm.LineString:
		ls := g.MustAsLineString()
		if len(model.Co) == 0 {
			return nil
		}
		wantClosed := exact.LineClosed(model)
		if ls.IsClosed() != wantClosed {
			return h.Failf("validate/isclosed", "IsClosed() = %v, want %v for %s", ls.IsClosed(), wantClosed, model)
		}
		if exact.Valid(model) != nil {
			return nil // simplicity of a degenerate (single point) line is not defined
		}
		wantSimple := exact.LineSimple(model)
		if ls.IsSimple() != wantSimple {
			return h.Failf("validate/issimple-linestring", "LineString.IsSimple() = %v, want %v for %s", ls.IsSimple(), wantSimple, model)
		}
		if ls.IsRing() != (wantClosed && wantSimple) {
			return h.Failf("validate/isring", "IsRing() = %v, want %v for %s", ls.IsRing(), wantClosed && wantSimple, model)
		}
		if s, defined := g.IsSimple(); !defined || s != wantSimple {
			return h.Failf("validate/issimple-geometry", "Geometry.IsSimple() = %v,%v, want %v,true for %s", s, defined, wantSimple, model)
		}
	case gm.MultiLineString:
		if exact.Valid(model) != nil {
			return nil
		}
		want := exact.MultiLineSimple(model)
		if got := g.MustAsMultiLineString().IsSimple(); got != want {
			return h.Failf("validate/issimple-multilinestring", "MultiLineString.IsSimple() = %v, want %v for %s", got, want, model)
		}
	case gm.MultiPoint:
		want := exact.MultiPointSimple(model)
		if got := g.MustAsMultiPoint().IsSimple(); got != want {
			return h.Failf("validate/issimple-multipoint", "MultiPoint.IsSimple() = %v, want %v for %s", got, want, model)
		}
	}
	return nil
}

// c03Enumerate: exhaustive small space - every triangle and every axis-parallel
// rectangle on a 4x4 grid as a second ring (hole) of a fixed shell with one
// fixed hole, under every rotation of the new ring's start vertex and both directions.
func c03Enumerate(cx *h.Ctx, yield func(C03Case)) []string {
	shell := gm.Fs(0, 0, 5, 0, 5, 5, 0, 5, 0, 0)
	hole := gm.Fs(1, 1, 4, 1, 4, 4, 1, 4, 1, 1)
	var pts [][2]int
	for x := 1; x <= 4; x++ {
		for y := 1; y <= 4; y++ {
			pts = append(pts, [2]int{x, y})
		}
	}
	emit := func(ring [][2]int) {
		n := len(ring)
		for rot := 0; rot < n; rot++ {
			for dir := 0; dir < 2; dir++ {
				var fs []gm.F
				for i := 0; i <= n; i++ {
					k := (rot + i) % n
					if dir == 1 {
						k = (rot - i%n + 2*n) % n
					}
					fs = append(fs, gm.F(ring[k][0]), gm.F(ring[k][1]))
				}
				for _, withHole := range []bool{true, false} {
					g := gm.G{T: gm.Polygon, Rings: [][]gm.F{shell}}
					if withHole {
						g.Rings = append(g.Rings, hole)
					}
					g.Rings = append(g.Rings, fs)
					yield(C03Case{G: g, RotSeed: []int{rot + 1}, Reverse: []bool{dir == 0}, PermSeed: []int{1}, Family: "enumerated"})
				}
			}
		}
	}
	for i := 0; i < len(pts); i++ {
		for j := i + 1; j < len(pts); j++ {
			for k := j + 1; k < len(pts); k++ {
				a, b, c := pts[i], pts[j], pts[k]
				if (b[0]-a[0])*(c[1]-a[1])-(b[1]-a[1])*(c[0]-a[0]) == 0 {
					continue
				}
				emit([][2]int{a, b, c})
			}
		}
	}
	for x0 := 1; x0 <= 4; x0++ {
		for x1 := x0 + 1; x1 <= 4; x1++ {
			for y0 := 1; y0 <= 4; y0++ {
				for y1 := y0 + 1; y1 <= 4; y1++ {
					emit([][2]int{{x0, y0}, {x1, y0}, {x1, y1}, {x0, y1}})
				}
			}
		}
	}
	// wide geometries: more rings / polygons than any drawn case has (counters and index types around 128 and 256)
	sq := func(x0, y0, x1, y1 int) []gm.F {
		return gm.Fs(float64(x0), float64(y0), float64(x1), float64(y0), float64(x1), float64(y1), float64(x0), float64(y1), float64(x0), float64(y0))
	}
	wide := []int{127, 128, 129}
	if cx.Thorough {
		// (the exact oracle is quadratic in the number of rings: about a minute per case at 257)
		wide = append(wide, 255, 256, 257)
	}
	for _, k := range wide {
		for v := 0; v < 4; v++ {
			// a row of k unit-square holes in a long shell; the last hole is (0) in line, (1) a copy of the first or
			// of its neighbour, (2) outside the shell, (3) sharing an edge with its neighbour
			poly := gm.G{T: gm.Polygon, Rings: [][]gm.F{sq(0, 0, 3*k, 3)}}
			for i := 0; i < k-1; i++ {
				poly.Rings = append(poly.Rings, sq(3*i+1, 1, 3*i+2, 2))
			}
			last := sq(3*(k-1)+1, 1, 3*(k-1)+2, 2)
			switch v {
			case 1:
				j := (k % 2) * (k - 2)
				last = sq(3*j+1, 1, 3*j+2, 2)
			case 2:
				last = sq(3*k+1, 1, 3*k+2, 2)
			case 3:
				last = sq(3*(k-2)+2, 1, 3*(k-2)+3, 2)
			}
			poly.Rings = append(poly.Rings, last)
			yield(C03Case{G: poly, RotSeed: []int{v}, Reverse: []bool{false}, PermSeed: []int{0}, Family: "wide"})
			// k squares of side 2 in a row; the last one is (0) in line, (1) overlapping an earlier one, (2) inside
			// an earlier one, (3) touching an earlier one at a corner only
			mp := gm.G{T: gm.MultiPolygon}
			for i := 0; i < k-1; i++ {
				mp.Mem = append(mp.Mem, gm.G{T: gm.Polygon, Rings: [][]gm.F{sq(5*i, 0, 5*i+3, 3)}})
			}
			j := (k % 2) * (k - 2)
			lastp := sq(5*(k-1), 0, 5*(k-1)+3, 3)
			switch v {
			case 1:
				lastp = sq(5*j+2, 2, 5*j+4, 4)
			case 2:
				lastp = sq(5*j+1, 1, 5*j+2, 2)
			case 3:
				lastp = sq(5*j+3, 3, 5*j+4, 4)
			}
			mp.Mem = append(mp.Mem, gm.G{T: gm.Polygon, Rings: [][]gm.F{lastp}})
			yield(C03Case{G: mp, RotSeed: []int{v}, Reverse: []bool{false}, PermSeed: []int{0}, Family: "wide"})
		}
	}
	return []string{"every non-degenerate triangle and every axis-parallel rectangle with vertices on the 4x4 grid {1..4}^2 as an additional ring of the shell (0 0,5 0,5 5,0 5), with and without the hole (1 1,4 1,4 4,1 4), under every start vertex and both directions",
		"polygons with 127..129 (thorough: ..257) holes and MultiPolygons with as many polygons: valid, and with the last ring / polygon duplicated, outside, edge-sharing, overlapping, nested or corner-touching"}
}

func TestC03(t *testing.T) {
	h.Run(t, h.Prop[C03Case]{
		ID:                "C03",
		Rule:              "cases = a geometry built without validation on a dense integer grid (side 3..6): (raw) rings/lines from random or angularly sorted lattice points, rings reusing vertices of earlier rings, unclosed rings, repeated vertices, 1..4 rings, 1..3 polygons per MultiPolygon, nested collections; (complex) valid geometries traced from triangulated-grid subsets, optionally with one breaking edit (vertex moved, shell/hole swapped, ring duplicated, ring through two existing vertices, extra hole, polygon duplicated in its MultiPolygon); (nonfinite) NaN/+-Inf injected at one ordinate of a valid geometry in any coordinate type, sometimes a second in the same and a third in another position; (hole-chain) triangular holes linked vertex to vertex from the shell inwards in drawn order/start/direction; plus an exhaustive sub-space and wide polygons / MultiPolygons (127..257 rings / members). Each case is paired with a representation change (ring start rotation, ring/line reversal, hole and member permutation, integer translation, axis reflection/swap). Oracle = definitional validity in exact rational arithmetic (ring simplicity by pairwise exact intersection, rings meeting in <= 1 point, holes inside shell / not nested by exact point location, interior connectedness by union-find over slab cells, MultiPolygon interiors/boundaries via the exact arrangement); also IsSimple/IsRing/IsClosed definitional values and the validating WKT/WKB/GeoJSON/TWKB decoders and Simplify (thresholds 0 and 0.75, verdict of the oracle on the NoValidate result) as gates. non-trivial = >= 2 rings or >= 2 lineal/areal members",
		Assumptions:       []string{"exact kernel (internal/exact) implements the OGC validity rules as the library documents them (repeated consecutive vertices ignored)", "oracle invariance under the representation change is asserted per case (violation = kernel bug, exit 2)"},
		Gen:               c03Gen,
		Check:             c03Check,
		Enumerate:         c03Enumerate,
		PanicIsHarnessBug: false,
	})
}

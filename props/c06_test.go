package props

import (
	"bytes"
	"encoding/hex"
	"encoding/json"
	"fmt"
	"math"
	"reflect"
	"sort"
	"strconv"
	"strings"
	"testing"
	"time"

	"github.com/peterstace/simplefeatures/geom"
	"pgregory.net/rapid"

	"verif/internal/apienum"
	"verif/internal/gen"
	"verif/internal/gm"
	"verif/internal/h"
)

// ---------- C06: GeoJSON output is valid RFC 7946 and round-trips up to the format's limits ----------

// A position in a generated document: numbers, or a defect marker.
type C06Doc struct {
	Type    string          `json:"type"`               // "" = member absent
	Coords  json.RawMessage `json:"coords,omitempty"`   // raw JSON for "coordinates"; nil = member absent
	Geoms   []C06Doc        `json:"geoms,omitempty"`    // for GeometryCollection
	NoGeoms bool            `json:"no_geoms,omitempty"` // GeometryCollection without a "geometries" member
	Extra   bool            `json:"extra,omitempty"`    // add unknown members
}

type C06Case struct {
	// RawHex: when set the case is a raw document (native fuzzing / replay): decode-encode-decode fixpoint only.
	RawHex string `json:"raw_hex,omitempty"`
	Kind   string `json:"kind"` // "geom" | "doc" | "feature"
	G      gm.G   `json:"g"`
	Doc    C06Doc `json:"doc"`
	// feature fields (JSON text so that the case file is exact)
	ID      string `json:"id,omitempty"`      // JSON text of the id, "" = absent
	Props   string `json:"props,omitempty"`   // JSON object text, "" = nil map
	Foreign string `json:"foreign,omitempty"` // JSON object text, "" = none
	More    []gm.G `json:"more,omitempty"`    // further feature geometries for a FeatureCollection
	Scale   int    `json:"scale"`
}

// ----- expected image of a model under GeoJSON -----

func c06Image(g gm.G) gm.G {
	g = g.Norm()
	hasZ := g.CT&1 != 0 && g.NumPositions() > 0
	ct := 0
	if hasZ {
		ct = 1
	}
	var conv func(n gm.G) gm.G
	conv = func(n gm.G) gm.G {
		out := gm.G{T: n.T, CT: ct}
		d := gm.Dim(n.CT)
		flat := func(fs []gm.F) []gm.F {
			var res []gm.F
			for i := 0; i+d <= len(fs); i += d {
				res = append(res, fs[i], fs[i+1])
				if hasZ {
					res = append(res, fs[i+2])
				}
			}
			return res
		}
		out.Co = flat(n.Co)
		for _, r := range n.Rings {
			out.Rings = append(out.Rings, flat(r))
		}
		for _, m := range n.Mem {
			if n.T == gm.MultiPoint && len(m.Co) == 0 {
				continue // empty Points cannot be expressed inside a MultiPoint
			}
			out.Mem = append(out.Mem, conv(m))
		}
		return out
	}
	return conv(g)
}

// ----- RFC 7946 structural validation of a geometry object -----

var c06Depth = map[string]int{"Point": 0, "MultiPoint": 1, "LineString": 1, "MultiLineString": 2, "Polygon": 2, "MultiPolygon": 3}

func c06CheckRFC(v interface{}) error {
	obj, ok := v.(map[string]interface{})
	if !ok {
		return fmt.Errorf("geometry is not a JSON object")
	}
	typ, ok := obj["type"].(string)
	if !ok {
		return fmt.Errorf("missing string member \"type\"")
	}
	if typ == "GeometryCollection" {
		for k := range obj {
			if k != "type" && k != "geometries" {
				return fmt.Errorf("unexpected member %q in GeometryCollection", k)
			}
		}
		gs, ok := obj["geometries"].([]interface{})
		if !ok {
			return fmt.Errorf("\"geometries\" is not an array")
		}
		for _, g := range gs {
			if err := c06CheckRFC(g); err != nil {
				return err
			}
		}
		return nil
	}
	depth, ok := c06Depth[typ]
	if !ok {
		return fmt.Errorf("unknown type %q", typ)
	}
	for k := range obj {
		if k != "type" && k != "coordinates" {
			return fmt.Errorf("unexpected member %q in %s", k, typ)
		}
	}
	co, ok := obj["coordinates"]
	if !ok {
		return fmt.Errorf("%s without \"coordinates\"", typ)
	}
	var walk func(v interface{}, d int) error
	walk = func(v interface{}, d int) error {
		arr, ok := v.([]interface{})
		if !ok {
			return fmt.Errorf("%s: expected an array at depth %d", typ, depth-d)
		}
		if d == 0 {
			if typ == "Point" && len(arr) == 0 {
				return nil // the library's spelling of an empty Point
			}
			if len(arr) != 2 && len(arr) != 3 {
				return fmt.Errorf("%s: position with %d elements", typ, len(arr))
			}
			for _, e := range arr {
				if _, ok := e.(json.Number); !ok {
					return fmt.Errorf("%s: position element %v is not a number", typ, e)
				}
			}
			return nil
		}
		for _, e := range arr {
			if err := walk(e, d-1); err != nil {
				return err
			}
		}
		return nil
	}
	return walk(co, depth)
}

// ----- document rendering and the expected outcome of decoding it -----

func (d C06Doc) render() string {
	var parts []string
	if d.Type != "" {
		b, _ := json.Marshal(d.Type)
		parts = append(parts, `"type":`+string(b))
	}
	if d.Extra {
		parts = append(parts, `"bbox":[0,0,1,1]`, `"foo":{"type":"Point","coordinates":[9,9]}`)
	}
	if d.Coords != nil {
		parts = append(parts, `"coordinates":`+string(d.Coords))
	}
	if d.Type == "GeometryCollection" && !d.NoGeoms {
		var gs []string
		for _, g := range d.Geoms {
			gs = append(gs, g.render())
		}
		parts = append(parts, `"geometries":[`+strings.Join(gs, ",")+`]`)
	}
	return "{" + strings.Join(parts, ",") + "}"
}

type c06Expect struct {
	err       bool // an error is required
	ambiguous bool // either an error or g
	g         gm.G
}

var c06TypeOf = map[string]string{"Point": gm.Point, "LineString": gm.LineString, "Polygon": gm.Polygon, "MultiPoint": gm.MultiPoint,
	"MultiLineString": gm.MultiLineString, "MultiPolygon": gm.MultiPolygon, "GeometryCollection": gm.GeometryCollection}

// c06DocExpect computes the expected decoding from the document itself.
type c06Parsed struct {
	typ    string // gm type
	doc    string // document type
	raw    interface{}
	isNull bool
	geoms  []c06Parsed
}

type c06RawPos []float64

func c06ParsePositions(v interface{}, depth int) (interface{}, bool) {
	arr, ok := v.([]interface{})
	if !ok {
		return nil, false
	}
	if depth == 0 {
		p := c06RawPos{}
		for _, e := range arr {
			n, ok := e.(json.Number)
			if !ok {
				return nil, false
			}
			f, err := n.Float64()
			if err != nil {
				return nil, false
			}
			p = append(p, f)
		}
		return p, true
	}
	out := []interface{}{}
	for _, e := range arr {
		c, ok := c06ParsePositions(e, depth-1)
		if !ok {
			return nil, false
		}
		out = append(out, c)
	}
	return out, true
}

func c06DocExpect(d C06Doc) c06Expect {
	lengths := map[int]bool{}
	amb := false
	var parse func(d C06Doc) (c06Parsed, bool)
	parse = func(d C06Doc) (c06Parsed, bool) {
		typ, ok := c06TypeOf[d.Type]
		if !ok {
			return c06Parsed{}, false
		}
		p := c06Parsed{typ: typ, doc: d.Type}
		if typ == gm.GeometryCollection {
			if d.NoGeoms {
				amb = true
				return p, true
			}
			for _, m := range d.Geoms {
				mp, ok := parse(m)
				if !ok {
					return c06Parsed{}, false
				}
				p.geoms = append(p.geoms, mp)
			}
			return p, true
		}
		if d.Coords == nil {
			return c06Parsed{}, false
		}
		dec := json.NewDecoder(bytes.NewReader(d.Coords))
		dec.UseNumber()
		var v interface{}
		if err := dec.Decode(&v); err != nil {
			return c06Parsed{}, false
		}
		if v == nil {
			amb = true
			p.isNull = true
			return p, true
		}
		depth := c06Depth[d.Type]
		raw, ok := c06ParsePositions(v, depth)
		if !ok {
			return c06Parsed{}, false
		}
		bad := false
		var visit func(x interface{}, depth int)
		visit = func(x interface{}, depth int) {
			if depth == 0 {
				pos := x.(c06RawPos)
				if len(pos) == 0 && d.Type == "Point" {
					return
				}
				if len(pos) < 2 {
					bad = true
					return
				}
				lengths[len(pos)] = true
				return
			}
			for _, e := range x.([]interface{}) {
				visit(e, depth-1)
			}
		}
		visit(raw, depth)
		if bad {
			return c06Parsed{}, false
		}
		p.raw = raw
		return p, true
	}
	root, ok := parse(d)
	if !ok {
		return c06Expect{err: true}
	}
	has2, has3 := false, false
	for l := range lengths {
		if l == 2 {
			has2 = true
		}
		if l >= 3 {
			has3 = true
		}
	}
	ct := 0
	if has3 && !has2 {
		ct = 1
	}
	flat := func(ps []interface{}) []gm.F {
		var fs []gm.F
		for _, e := range ps {
			p := e.(c06RawPos)
			fs = append(fs, gm.F(p[0]), gm.F(p[1]))
			if ct == 1 {
				fs = append(fs, gm.F(p[2]))
			}
		}
		return fs
	}
	arr := func(x interface{}) []interface{} { a, _ := x.([]interface{}); return a }
	var conv func(p c06Parsed) gm.G
	conv = func(p c06Parsed) gm.G {
		out := gm.G{T: p.typ, CT: ct}
		if p.typ == gm.GeometryCollection {
			for _, m := range p.geoms {
				out.Mem = append(out.Mem, conv(m))
			}
			return out
		}
		if p.isNull {
			return out
		}
		switch p.doc {
		case "Point":
			if pos := p.raw.(c06RawPos); len(pos) > 0 {
				out.Co = flat([]interface{}{pos})
			}
		case "LineString":
			out.Co = flat(arr(p.raw))
		case "MultiPoint":
			for _, e := range arr(p.raw) {
				out.Mem = append(out.Mem, gm.G{T: gm.Point, CT: ct, Co: flat([]interface{}{e})})
			}
		case "Polygon":
			for _, r := range arr(p.raw) {
				out.Rings = append(out.Rings, flat(arr(r)))
			}
		case "MultiLineString":
			for _, l := range arr(p.raw) {
				out.Mem = append(out.Mem, gm.G{T: gm.LineString, CT: ct, Co: flat(arr(l))})
			}
		case "MultiPolygon":
			for _, pp := range arr(p.raw) {
				m := gm.G{T: gm.Polygon, CT: ct}
				for _, r := range arr(pp) {
					m.Rings = append(m.Rings, flat(arr(r)))
				}
				out.Mem = append(out.Mem, m)
			}
		}
		return out
	}
	return c06Expect{g: conv(root), ambiguous: amb}
}

// ----- generators -----

func c06GenNumber(t *rapid.T) string {
	switch rapid.IntRange(0, 5).Draw(t, "numkind") {
	case 0:
		return strconv.Itoa(rapid.IntRange(-50, 50).Draw(t, "n"))
	case 1:
		return strconv.FormatFloat(gen.FiniteFloat(t, "n"), 'g', -1, 64)
	case 2:
		return strconv.FormatFloat(gen.FiniteFloat(t, "n"), 'e', -1, 64)
	case 3:
		return "1E2"
	case 4:
		return "-0.0"
	default:
		return strconv.FormatFloat(rapid.Float64Range(-1000, 1000).Draw(t, "n"), 'f', -1, 64)
	}
}

func c06GenPos(t *rapid.T, defects bool) string {
	n := rapid.SampledFrom([]int{2, 2, 2, 3, 3, 3, 4, 5}).Draw(t, "poslen")
	if defects && rapid.IntRange(0, 9).Draw(t, "posdefect") == 0 {
		n = rapid.IntRange(0, 1).Draw(t, "shortlen")
	}
	parts := make([]string, n)
	for i := range parts {
		parts[i] = c06GenNumber(t)
		if defects && rapid.IntRange(0, 60).Draw(t, "elemdefect") == 0 {
			parts[i] = rapid.SampledFrom([]string{`"1"`, `true`, `{}`, `[1]`}).Draw(t, "badelem")
		}
	}
	return "[" + strings.Join(parts, ",") + "]"
}

func c06GenNested(t *rapid.T, depth int, defects bool) string {
	if depth == 0 {
		return c06GenPos(t, defects)
	}
	if defects && rapid.IntRange(0, 40).Draw(t, "depthdefect") == 0 {
		return rapid.SampledFrom([]string{`7`, `"x"`, `{}`, `[1,2]`, `null`}).Draw(t, "baddepth")
	}
	n := rapid.IntRange(0, 3).Draw(t, "count")
	parts := make([]string, n)
	for i := range parts {
		parts[i] = c06GenNested(t, depth-1, defects)
	}
	return "[" + strings.Join(parts, ",") + "]"
}

func c06GenDoc(t *rapid.T, depth int) C06Doc {
	types := []string{"Point", "LineString", "Polygon", "MultiPoint", "MultiLineString", "MultiPolygon", "GeometryCollection"}
	d := C06Doc{Type: rapid.SampledFrom(types).Draw(t, "dtype")}
	switch rapid.IntRange(0, 24).Draw(t, "typedefect") {
	case 0:
		d.Type = rapid.SampledFrom([]string{"", "point", "Feature", "Circle", "POLYGON", "GeometryCollection "}).Draw(t, "badtype")
	}
	d.Extra = rapid.IntRange(0, 5).Draw(t, "extra") == 0
	if d.Type == "GeometryCollection" {
		if depth < 3 {
			n := rapid.IntRange(0, 3).Draw(t, "ngeoms")
			for i := 0; i < n; i++ {
				d.Geoms = append(d.Geoms, c06GenDoc(t, depth+1))
			}
		}
		d.NoGeoms = rapid.IntRange(0, 15).Draw(t, "nogeoms") == 0
		return d
	}
	dep, ok := c06Depth[d.Type]
	if !ok {
		dep = rapid.IntRange(0, 3).Draw(t, "anydepth")
	}
	switch rapid.IntRange(0, 19).Draw(t, "coordsdefect") {
	case 0:
		d.Coords = nil
	case 1:
		d.Coords = json.RawMessage("null")
	default:
		if d.Type == "Point" && rapid.IntRange(0, 6).Draw(t, "emptypoint") == 0 {
			d.Coords = json.RawMessage("[]")
		} else {
			d.Coords = json.RawMessage(c06GenNested(t, dep, true))
		}
	}
	return d
}

func c06GenJSONValue(t *rapid.T, depth int) interface{} {
	k := rapid.IntRange(0, 7).Draw(t, "jkind")
	if depth >= 2 && k >= 6 {
		k = 0
	}
	switch k {
	case 0:
		return rapid.StringMatching(`[a-zA-Z0-9 _"\\<>&é]{0,8}`).Draw(t, "jstr")
	case 1:
		return float64(rapid.IntRange(-1000, 1000).Draw(t, "jint"))
	case 2:
		return rapid.Float64Range(-1e9, 1e9).Draw(t, "jflt")
	case 3:
		return rapid.Bool().Draw(t, "jbool")
	case 4:
		return nil
	case 5:
		return float64(0)
	case 6:
		n := rapid.IntRange(0, 3).Draw(t, "jarrn")
		arr := make([]interface{}, n)
		for i := range arr {
			arr[i] = c06GenJSONValue(t, depth+1)
		}
		return arr
	default:
		return c06GenJSONObject(t, depth+1, false)
	}
}

func c06GenJSONObject(t *rapid.T, depth int, foreign bool) map[string]interface{} {
	n := rapid.IntRange(0, 3).Draw(t, "jobjn")
	obj := map[string]interface{}{}
	for i := 0; i < n; i++ {
		key := rapid.StringMatching(`[a-zA-Z_]{1,6}`).Draw(t, "jkey")
		if foreign {
			switch key {
			case "type", "geometry", "id", "properties":
				key = "x" + key
			}
			if rapid.IntRange(0, 5).Draw(t, "tricky") == 0 {
				key = rapid.SampledFrom([]string{"Type", "bbox", "GEOMETRY", "crs", "Properties", "Id"}).Draw(t, "trickykey")
			}
		}
		// names that need JSON (not Go) string escaping: control characters, DEL, quotes, backslash, non-ASCII, U+2028
		if rapid.IntRange(0, 7).Draw(t, "escapedkey") == 0 {
			key = rapid.SampledFrom([]string{"a\u0001b", "\x7f", "v\vt", "bell\a", "q\"uote", "back\\slash", "tab\tnl\n", "é", "\u2028", "\U0001F600", "", " "}).Draw(t, "escapedkeyval")
			if !foreign && key == "" {
				key = "e"
			}
		}
		obj[key] = c06GenJSONValue(t, depth)
	}
	return obj
}

func c06ValidGeom(t *rapid.T) (gm.G, int) {
	g := gen.Structure(t, gen.Opts{XY: gen.FiniteFloat, ZM: gen.FiniteFloat, CT: -1, ValidShapes: true, AllowZero: true})
	e := rapid.SampledFrom([]int{-30, -3, 0, 0, 0, 1, 20, 40}).Draw(t, "scale")
	s := math.Ldexp(1, e)
	if e != 0 {
		g = g.MapPositions(func(p []gm.F, ct int) []gm.F {
			x, y := float64(p[0])*s, float64(p[1])*s
			if math.IsInf(x, 0) || math.IsInf(y, 0) || (x == 0) != (p[0] == 0) || (y == 0) != (p[1] == 0) {
				return p // scaling would overflow/underflow (only free-standing Points carry such values)
			}
			p[0], p[1] = gm.F(x), gm.F(y)
			return p
		})
	}
	return g, e
}

func c06Gen(t *rapid.T, cx *h.Ctx) C06Case {
	switch rapid.IntRange(0, 9).Draw(t, "kind") {
	case 0, 1, 2:
		return C06Case{Kind: "doc", Doc: c06GenDoc(t, 0)}
	case 3, 4:
		c := C06Case{Kind: "feature"}
		c.G, c.Scale = c06ValidGeom(t)
		switch rapid.IntRange(0, 4).Draw(t, "idkind") {
		case 0:
		case 1:
			b, _ := json.Marshal(rapid.StringMatching(`[a-z0-9-]{0,10}`).Draw(t, "idstr"))
			c.ID = string(b)
		case 2:
			c.ID = strconv.Itoa(rapid.IntRange(-5, 5).Draw(t, "idint"))
		case 3:
			c.ID = "0"
		default:
			c.ID = strconv.FormatFloat(rapid.Float64Range(-1e6, 1e6).Draw(t, "idflt"), 'g', -1, 64)
		}
		if rapid.IntRange(0, 3).Draw(t, "hasprops") > 0 {
			b, _ := json.Marshal(c06GenJSONObject(t, 0, false))
			c.Props = string(b)
		}
		if rapid.IntRange(0, 2).Draw(t, "hasforeign") > 0 {
			b, _ := json.Marshal(c06GenJSONObject(t, 0, true))
			c.Foreign = string(b)
		}
		for i := rapid.IntRange(0, 2).Draw(t, "nmore"); i > 0; i-- {
			mg, _ := c06ValidGeom(t)
			c.More = append(c.More, mg)
		}
		return c
	default:
		c := C06Case{Kind: "geom"}
		c.G, c.Scale = c06ValidGeom(t)
		return c
	}
}

// ----- checks -----

func c06Check(c C06Case, cx *h.Ctx) *h.Failure {
	if c.RawHex != "" {
		b, _ := hex.DecodeString(c.RawHex)
		cx.Class("raw-document")
		return c06Raw(b)
	}
	cx.Class("kind=" + c.Kind)
	switch c.Kind {
	case "doc":
		return c06CheckDoc(c, cx)
	case "feature":
		return c06CheckFeature(c, cx)
	}
	return c06CheckGeom(c.G, cx)
}

func c06CheckGeom(model gm.G, cx *h.Ctx) *h.Failure {
	g := model.ToGeom()
	model = model.Norm()
	cx.Class("type=" + model.T)
	cx.Class("ct=" + gm.CTName(model.CT))
	if err := g.Validate(); err != nil {
		// the valid-by-construction family must be valid; if the library disagrees that is C03's business
		cx.Skip("library_says_invalid")
		return nil
	}
	out, err := g.MarshalJSON()
	if err != nil {
		return h.Failf("geojson/marshal-error", "MarshalJSON of %s: %v", model, err)
	}
	// the returned bytes are the caller's: further direct MarshalJSON calls (same and other types, through
	// Geometry and through the concrete types) must leave them alone
	held := append([]byte(nil), out...)
	for _, other := range []geom.Geometry{dirty(model.T), g, dirty(gm.MultiPoint), dirty(gm.GeometryCollection)} {
		for _, rv := range apienum.Receivers(other)[:2] {
			if m := rv.MethodByName("MarshalJSON"); m.IsValid() && m.Type().NumIn() == 0 {
				res := m.Call(nil)
				if other.Type() == g.Type() && other.AsText() == g.AsText() {
					if b := res[0].Bytes(); !bytes.Equal(b, held) {
						return h.Failf("geojson/typed-marshal-differs", "%s.MarshalJSON() = %s, Geometry.MarshalJSON() = %s", rv.Type().Name(), clip(string(b), 300), clip(string(held), 300))
					}
				}
			}
		}
	}
	if msg := scribbleEncoders(g, "MarshalJSON"); msg != "" {
		return h.Failf("geojson/result-shared", "%s (%s)", msg, model)
	}
	if !bytes.Equal(out, held) {
		return h.Failf("geojson/result-overwritten", "the bytes returned by MarshalJSON changed after later MarshalJSON calls:\nwas %s\nnow %s", clip(string(held), 300), clip(string(out), 300))
	}
	if !json.Valid(out) {
		return h.Failf("geojson/invalid-json", "MarshalJSON of %s is not valid JSON: %s", model, out)
	}
	dec := json.NewDecoder(bytes.NewReader(out))
	dec.UseNumber()
	var v interface{}
	if err := dec.Decode(&v); err != nil {
		return h.Failf("geojson/invalid-json", "MarshalJSON of %s does not decode: %v", model, err)
	}
	if err := c06CheckRFC(v); err != nil {
		return h.Failf("geojson/not-rfc7946", "MarshalJSON of %s violates RFC 7946: %v\n%s", model, err, out)
	}
	if tv := v.(map[string]interface{})["type"]; tv != model.T {
		return h.Failf("geojson/wrong-type", "MarshalJSON of %s has type %v", model, tv)
	}
	want := c06Image(model)
	back, err := geom.UnmarshalGeoJSON(out)
	if err != nil {
		return h.Failf("geojson/reparse-error", "UnmarshalGeoJSON(MarshalJSON(g)) fails for %s: %v\n%s", model, err, out)
	}
	if d := gm.Diff(want, gm.FromGeom(back)); d != "" {
		return h.Failf("geojson/roundtrip", "UnmarshalGeoJSON(MarshalJSON(g)) is not g up to the format's losses: %s\ng    = %s\nwant = %s\ngot  = %s\njson = %s", d, model, want, gm.FromGeom(back), out)
	}
	// json.Marshal / json.Unmarshal through the Geometry type
	viaStd, err := json.Marshal(g)
	if err != nil || !bytes.Equal(viaStd, out) {
		// encoding/json compacts/escapes; compare as values
		var a, b interface{}
		if err != nil || json.Unmarshal(viaStd, &a) != nil || json.Unmarshal(out, &b) != nil || !reflect.DeepEqual(a, b) {
			return h.Failf("geojson/std-marshal-differs", "json.Marshal(g) differs from g.MarshalJSON() for %s", model)
		}
	}
	gg := dirty(gm.Polygon) // the destination already holds another value
	if err := json.Unmarshal(out, &gg); err != nil {
		return h.Failf("geojson/std-unmarshal-error", "json.Unmarshal into Geometry fails for %s: %v", model, err)
	}
	if d := gm.Diff(want, gm.FromGeom(gg)); d != "" {
		return h.Failf("geojson/std-unmarshal-differs", "json.Unmarshal into Geometry differs for %s: %s", model, d)
	}
	// concrete types: succeeds iff the type matches
	if f := c06Concrete(out, model.T, want); f != nil {
		return f
	}
	// a null document matches no geometry type
	for _, nd := range []string{"null", " null ", "null\n"} {
		if f := c06Concrete([]byte(nd), "null", want); f != nil {
			return f
		}
		if _, err := geom.UnmarshalGeoJSON([]byte(nd)); err == nil {
			return h.Failf("geojson/null-accepted", "UnmarshalGeoJSON(%q) succeeded", nd)
		}
	}
	if model.T == gm.GeometryCollection || model.CT != 0 && model.NumPositions() >= 2 || hasEmptyMember(model) {
		cx.NonTrivial()
	}
	cx.Sample(map[string]interface{}{"g": model.String(), "json": clip(string(out), 500)})
	return nil
}

func c06Concrete(doc []byte, typ string, want gm.G) *h.Failure {
	type tgt struct {
		name string
		run  func() (geom.Geometry, error)
	}
	tg := []tgt{
		{gm.Point, func() (geom.Geometry, error) {
			x := dirty("Point").MustAsPoint() // the destination already holds another value
			err := json.Unmarshal(doc, &x)
			return x.AsGeometry(), err
		}},
		{gm.LineString, func() (geom.Geometry, error) {
			x := dirty("LineString").MustAsLineString() // the destination already holds another value
			err := json.Unmarshal(doc, &x)
			return x.AsGeometry(), err
		}},
		{gm.Polygon, func() (geom.Geometry, error) {
			x := dirty("Polygon").MustAsPolygon() // the destination already holds another value
			err := json.Unmarshal(doc, &x)
			return x.AsGeometry(), err
		}},
		{gm.MultiPoint, func() (geom.Geometry, error) {
			x := dirty("MultiPoint").MustAsMultiPoint() // the destination already holds another value
			err := json.Unmarshal(doc, &x)
			return x.AsGeometry(), err
		}},
		{gm.MultiLineString, func() (geom.Geometry, error) {
			x := dirty("MultiLineString").MustAsMultiLineString() // the destination already holds another value
			err := json.Unmarshal(doc, &x)
			return x.AsGeometry(), err
		}},
		{gm.MultiPolygon, func() (geom.Geometry, error) {
			x := dirty("MultiPolygon").MustAsMultiPolygon() // the destination already holds another value
			err := json.Unmarshal(doc, &x)
			return x.AsGeometry(), err
		}},
		{gm.GeometryCollection, func() (geom.Geometry, error) {
			x := dirty("GeometryCollection").MustAsGeometryCollection() // the destination already holds another value
			err := json.Unmarshal(doc, &x)
			return x.AsGeometry(), err
		}},
	}
	for _, x := range tg {
		got, err := x.run()
		if x.name == typ {
			if err != nil {
				return h.Failf("geojson/concrete-error", "decoding a %s document into geom.%s fails: %v", typ, x.name, err)
			}
			if d := gm.Diff(want, gm.FromGeom(got)); d != "" {
				return h.Failf("geojson/concrete-differs", "decoding into geom.%s differs: %s", x.name, d)
			}
		} else if err == nil {
			return h.Failf("geojson/concrete-wrong-type-accepted", "decoding a %s document into geom.%s succeeded", typ, x.name)
		}
	}
	return nil
}

func c06CheckDoc(c C06Case, cx *h.Ctx) *h.Failure {
	text := c.Doc.render()
	if !json.Valid([]byte(text)) {
		return &h.Failure{Class: "harness/doc-not-json", Msg: text}
	}
	exp := c06DocExpect(c.Doc)
	if c06HasNestedNull(c.Doc) {
		// RFC 7946 and the property say nothing about nulls nested inside a
		// coordinates array; only totality (no panic) is required here.
		cx.Class("doc=nested-null-unconstrained")
		geom.UnmarshalGeoJSON([]byte(text))
		return nil
	}
	got, err := geom.UnmarshalGeoJSON([]byte(text), geom.NoValidate{})
	switch {
	case exp.err:
		cx.Class("doc=expect-error")
		if err == nil {
			return h.Failf("geojson/bad-doc-accepted", "UnmarshalGeoJSON accepts a malformed document as %s\n%s", gm.FromGeom(got), text)
		}
	case exp.ambiguous:
		cx.Class("doc=ambiguous")
		if err == nil {
			if d := gm.Diff(exp.g, gm.FromGeom(got)); d != "" {
				return h.Failf("geojson/doc-differs", "document decodes to %s, expected %s (%s)\n%s", gm.FromGeom(got), exp.g, d, text)
			}
		}
	default:
		cx.Class("doc=expect-ok")
		if err != nil {
			return h.Failf("geojson/good-doc-rejected", "UnmarshalGeoJSON rejects a well-formed document: %v\n%s", err, text)
		}
		if d := gm.Diff(exp.g, gm.FromGeom(got)); d != "" {
			return h.Failf("geojson/doc-differs", "document decodes to %s, expected %s (%s)\n%s", gm.FromGeom(got), exp.g, d, text)
		}
		if f := c06Concrete([]byte(text), exp.g.T, exp.g); f != nil && gm.FromGeom(got).ToGeom().Validate() == nil {
			return f
		}
		cx.NonTrivial()
	}
	cx.Sample(map[string]interface{}{"doc": clip(text, 500), "expect_error": exp.err})
	return nil
}

func jsonEq(a, b interface{}) bool {
	ab, _ := json.Marshal(a)
	bb, _ := json.Marshal(b)
	var x, y interface{}
	json.Unmarshal(ab, &x)
	json.Unmarshal(bb, &y)
	return reflect.DeepEqual(x, y)
}

func c06CheckFeature(c C06Case, cx *h.Ctx) *h.Failure {
	mk := func(model gm.G) (geom.GeoJSONFeature, gm.G, bool) {
		g := model.ToGeom()
		if g.Validate() != nil {
			return geom.GeoJSONFeature{}, gm.G{}, false
		}
		return geom.GeoJSONFeature{Geometry: g}, c06Image(model), true
	}
	f, want, ok := mk(c.G)
	if !ok {
		cx.Skip("library_says_invalid")
		return nil
	}
	var wantID interface{}
	if c.ID != "" {
		json.Unmarshal([]byte(c.ID), &wantID)
		f.ID = wantID
	}
	var wantProps map[string]interface{}
	if c.Props != "" {
		json.Unmarshal([]byte(c.Props), &wantProps)
		f.Properties = wantProps
	}
	var wantForeign map[string]interface{}
	if c.Foreign != "" {
		json.Unmarshal([]byte(c.Foreign), &wantForeign)
		f.ForeignMembers = wantForeign
	}
	out, err := json.Marshal(f)
	if err != nil {
		return h.Failf("feature/marshal-error", "json.Marshal(feature): %v", err)
	}
	var top map[string]json.RawMessage
	if err := json.Unmarshal(out, &top); err != nil {
		return h.Failf("feature/invalid-json", "feature JSON invalid: %v\n%s", err, out)
	}
	if string(top["type"]) != `"Feature"` {
		return h.Failf("feature/type", "feature \"type\" is %s\n%s", top["type"], out)
	}
	if p, ok := top["properties"]; !ok || len(p) == 0 || p[0] != '{' {
		return h.Failf("feature/properties-not-object", "\"properties\" must be an object: %s", out)
	}
	if _, ok := top["geometry"]; !ok {
		return h.Failf("feature/no-geometry", "no \"geometry\" member: %s", out)
	}
	// every key must appear once: detect duplicate members by re-scanning tokens
	if dup := c06DuplicateTopLevelKey(out); dup != "" {
		return h.Failf("feature/duplicate-member", "top-level member %q appears twice: %s", dup, out)
	}
	// the destination already holds another feature (a variable reused in a decoding loop): nothing of it may survive
	back := geom.GeoJSONFeature{Geometry: dirty(gm.Polygon), ID: "stale-id",
		Properties:     map[string]interface{}{"stale_property": 1.0, "zz": "x"},
		ForeignMembers: map[string]interface{}{"stale_foreign": true}}
	if err := json.Unmarshal(out, &back); err != nil {
		return h.Failf("feature/unmarshal-error", "feature does not decode: %v\n%s", err, out)
	}
	if d := gm.Diff(want, gm.FromGeom(back.Geometry)); d != "" {
		return h.Failf("feature/geometry-differs", "feature geometry differs after a round trip: %s\n%s", d, out)
	}
	if !jsonEq(back.ID, wantID) || (wantID == nil) != (back.ID == nil) {
		return h.Failf("feature/id-differs", "feature id %v became %v\n%s", wantID, back.ID, out)
	}
	if !(len(wantProps) == 0 && len(back.Properties) == 0) && !jsonEq(back.Properties, wantProps) {
		return h.Failf("feature/properties-differ", "properties %v became %v\n%s", wantProps, back.Properties, out)
	}
	if !(len(wantForeign) == 0 && len(back.ForeignMembers) == 0) && !jsonEq(back.ForeignMembers, wantForeign) {
		return h.Failf("feature/foreign-differ", "foreign members %v became %v\n%s", wantForeign, back.ForeignMembers, out)
	}
	// missing / wrong type rejected
	for _, mut := range []func(m map[string]json.RawMessage){
		func(m map[string]json.RawMessage) { delete(m, "type") },
		func(m map[string]json.RawMessage) { m["type"] = json.RawMessage(`"feature"`) },
		func(m map[string]json.RawMessage) { m["type"] = json.RawMessage(`"FeatureCollection"`) },
		func(m map[string]json.RawMessage) { m["type"] = json.RawMessage(`7`) },
		func(m map[string]json.RawMessage) { delete(m, "geometry") },
	} {
		m := map[string]json.RawMessage{}
		for k, v := range top {
			m[k] = v
		}
		mut(m)
		b, _ := json.Marshal(m)
		var x geom.GeoJSONFeature
		if err := json.Unmarshal(b, &x); err == nil {
			return h.Failf("feature/bad-feature-accepted", "malformed feature accepted: %s", b)
		}
	}
	// FeatureCollection
	fc := geom.GeoJSONFeatureCollection{f}
	wants := []gm.G{want}
	for _, m := range c.More {
		mf, mw, ok := mk(m)
		if !ok {
			continue
		}
		fc = append(fc, mf)
		wants = append(wants, mw)
	}
	fcOut, err := json.Marshal(fc)
	if err != nil {
		return h.Failf("fc/marshal-error", "json.Marshal(FeatureCollection): %v", err)
	}
	// the destination already holds other features (more of them than the document has): none may survive
	stale := geom.GeoJSONFeature{Geometry: dirty(gm.Point), ID: "stale", Properties: map[string]interface{}{"stale": true}, ForeignMembers: map[string]interface{}{"stale_foreign": 1.0}}
	fcBack := geom.GeoJSONFeatureCollection{stale, stale, stale, stale, stale}
	if err := json.Unmarshal(fcOut, &fcBack); err != nil {
		return h.Failf("fc/unmarshal-error", "FeatureCollection does not decode: %v\n%s", err, fcOut)
	}
	if len(fcBack) != len(fc) {
		return h.Failf("fc/count", "FeatureCollection of %d features decodes to %d", len(fc), len(fcBack))
	}
	for i := range fcBack {
		if d := gm.Diff(wants[i], gm.FromGeom(fcBack[i].Geometry)); d != "" {
			return h.Failf("fc/geometry-differs", "feature %d geometry differs: %s", i, d)
		}
	}
	if !jsonEq(fcBack[0].ID, wantID) || !(len(wantForeign) == 0 && len(fcBack[0].ForeignMembers) == 0) && !jsonEq(fcBack[0].ForeignMembers, wantForeign) ||
		!(len(wantProps) == 0 && len(fcBack[0].Properties) == 0) && !jsonEq(fcBack[0].Properties, wantProps) {
		return h.Failf("fc/feature-fields-differ", "feature 0 id/properties/foreign members differ inside a FeatureCollection\n%s", fcOut)
	}
	for i := 1; i < len(fcBack); i++ {
		if fcBack[i].ID != nil || len(fcBack[i].Properties) != 0 || len(fcBack[i].ForeignMembers) != 0 {
			return h.Failf("fc/feature-fields-differ", "feature %d was written without id, properties or foreign members but decodes with %v / %v / %v\n%s", i, fcBack[i].ID, fcBack[i].Properties, fcBack[i].ForeignMembers, fcOut)
		}
	}
	var fcTop map[string]json.RawMessage
	json.Unmarshal(fcOut, &fcTop)
	if string(fcTop["type"]) != `"FeatureCollection"` || len(fcTop["features"]) == 0 || fcTop["features"][0] != '[' {
		return h.Failf("fc/shape", "FeatureCollection JSON malformed: %s", fcOut)
	}
	for _, bad := range []string{`{"features":[]}`, `{"type":"Feature","features":[]}`, `{"type":"","features":[]}`} {
		var x geom.GeoJSONFeatureCollection
		if err := json.Unmarshal([]byte(bad), &x); err == nil {
			return h.Failf("fc/bad-accepted", "malformed FeatureCollection accepted: %s", bad)
		}
	}
	var empty geom.GeoJSONFeatureCollection
	if b, err := json.Marshal(empty); err != nil || !strings.Contains(string(b), `"features":[]`) {
		return h.Failf("fc/nil-collection", "nil FeatureCollection marshals to %s (%v)", b, err)
	}
	if c.Foreign != "" || c.ID != "" {
		cx.NonTrivial()
	}
	if c.Foreign != "" {
		cx.Class("feature=foreign-members")
	}
	cx.Sample(map[string]interface{}{"feature": clip(string(out), 600)})
	return nil
}

func c06DuplicateTopLevelKey(doc []byte) string {
	dec := json.NewDecoder(bytes.NewReader(doc))
	depth := 0
	seen := map[string]bool{}
	expectKey := false
	for {
		tok, err := dec.Token()
		if err != nil {
			return ""
		}
		switch v := tok.(type) {
		case json.Delim:
			if v == '{' || v == '[' {
				depth++
				expectKey = depth == 1 && v == '{'
			} else {
				depth--
				if depth == 1 {
					expectKey = true
				}
			}
		case string:
			if depth == 1 && expectKey {
				if seen[v] {
					return v
				}
				seen[v] = true
				expectKey = false
				continue
			}
			if depth == 1 {
				expectKey = true
			}
		default:
			if depth == 1 {
				expectKey = true
			}
		}
	}
}

var _ = sort.Strings

func TestC06(t *testing.T) {
	h.Run(t, h.Prop[C06Case]{
		ID:              "C06",
		WholeCheckLimit: 300 * time.Second,
		Rule:            "three case families drawn by rapid: (geom) a valid-by-construction geometry model (7 types x 4 coordinate types, empty members, nested collections, zero values, XY scaled by 2^k, Z/M over finite float64 classes) -> MarshalJSON is checked with encoding/json + an RFC 7946 structure validator and UnmarshalGeoJSON / json.Unmarshal into Geometry and all 7 concrete types against the harness-computed image (M dropped, empty Points omitted from MultiPoints, Z kept iff >= 1 position); (doc) a GeoJSON document from a grammar (positions of length 0..5, non-numeric elements, wrong nesting depth, null/missing coordinates, unknown/missing type, extra members, nested collections) -> expected error / expected value computed from the document; (feature) Feature and FeatureCollection with generated id (absent/string/number/0), properties, foreign members (incl. names differing only in case from reserved ones) compared as decoded JSON, malformed features rejected; non-trivial = a collection or >= 2 positions with Z/M or an empty member (geom), a well-formed document (doc), a feature with id or foreign members (feature)",
		Assumptions:     []string{"encoding/json", "RFC 7946 structure validator in props/c06_test.go", "documents whose meaning RFC 7946 leaves open (null coordinates, GeometryCollection without geometries) may either be rejected or decode to the empty geometry"},
		Gen:             c06Gen,
		Check:           c06Check,
		Enumerate:       c06Enumerate,
	})
}

// c06Enumerate: wide geometries (127..257 and 1000 members / rings / points), as geometries and as the features of
// a FeatureCollection.
func c06Enumerate(cx *h.Ctx, yield func(C06Case)) []string {
	sq := func(x0, y0, x1, y1 int) []gm.F {
		return gm.Fs(float64(x0), float64(y0), float64(x1), float64(y0), float64(x1), float64(y1), float64(x0), float64(y1), float64(x0), float64(y0))
	}
	for _, k := range []int{127, 128, 129, 255, 256, 257, 1000} {
		var line []gm.F
		mpt, mls, mpg, gc := gm.G{T: gm.MultiPoint}, gm.G{T: gm.MultiLineString}, gm.G{T: gm.MultiPolygon}, gm.G{T: gm.GeometryCollection}
		poly := gm.G{T: gm.Polygon, Rings: [][]gm.F{sq(0, 0, 4*k, 4)}}
		for i := 0; i < k; i++ {
			x := float64(4 * i)
			line = append(line, gm.F(x), gm.F(float64(i%3)))
			mpt.Mem = append(mpt.Mem, gm.G{T: gm.Point, Co: gm.Fs(x, float64(i%5))})
			mls.Mem = append(mls.Mem, gm.G{T: gm.LineString, Co: gm.Fs(x, 0, x+2, 3)})
			mpg.Mem = append(mpg.Mem, gm.G{T: gm.Polygon, Rings: [][]gm.F{sq(4*i, 0, 4*i+2, 2)}})
			gc.Mem = append(gc.Mem, []gm.G{{T: gm.Point, Co: gm.Fs(x, 1)}, {T: gm.LineString, Co: gm.Fs(x, 2, x+1, 3)}, {T: gm.MultiPoint}}[i%3])
			if i > 0 {
				poly.Rings = append(poly.Rings, gm.Fs(x+1, 1, x+2, 1, x+1, 2, x+1, 1))
			}
		}
		for _, g := range []gm.G{{T: gm.LineString, Co: line}, mpt, mls, mpg, gc, poly} {
			yield(C06Case{Kind: "geom", G: g})
		}
		if k <= 257 {
			yield(C06Case{Kind: "feature", G: mpt, ID: `"wide"`, Props: `{"n":1}`, More: mls.Mem})
		}
	}
	return []string{"lines, Multi*, collections and polygons of 127..257 and 1000 points / members / rings as geometries; FeatureCollections of 128..258 features"}
}

func c06HasNestedNull(d C06Doc) bool {
	if d.Coords != nil && string(d.Coords) != "null" && bytes.Contains(d.Coords, []byte("null")) {
		return true
	}
	for _, g := range d.Geoms {
		if c06HasNestedNull(g) {
			return true
		}
	}
	return false
}

package props

import (
	"bytes"
	"encoding/json"
	"fmt"
	"strings"
	"sync"

	"github.com/peterstace/simplefeatures/geom"

	"reflect"

	"verif/internal/apienum"
	"verif/internal/codec"
	"verif/internal/gm"
	"verif/internal/h"
)

// c10Decoders: the byte buffers handed to the decoders are arguments too.  Every encoding of every pool
// geometry (WKB little-endian, WKB with big-endian / mixed per-element byte order from the independent
// writer, TWKB, GeoJSON, WKT bytes) is decoded repeatedly from ONE shared buffer - sequentially, then from
// several goroutines at once (race detector) - and the buffer must stay byte-identical while every decode
// returns the same geometry.
func c10Decoders(c C10Case, pool []geom.Geometry, desc func() string, cx *h.Ctx) *h.Failure {
	type enc struct {
		name string
		buf  []byte
		dec  func(b []byte) (string, error)
		keep func(b []byte) geom.Geometry // decodes and returns the value itself (nil: not applicable)
	}
	wkbDec := func(b []byte) (string, error) {
		g, err := geom.UnmarshalWKB(b, geom.NoValidate{})
		if err != nil {
			return "", err
		}
		return fmt.Sprintf("%s|%x", g.AsText(), g.AsBinary()), nil
	}
	scanDec := func(b []byte) (string, error) {
		var g geom.Geometry
		if err := g.Scan(b); err != nil {
			return "error: " + err.Error(), nil // Scan validates; an invalid pool member is an error both times
		}
		return fmt.Sprintf("%s|%x", g.AsText(), g.AsBinary()), nil
	}
	var encs []enc
	for i, g := range pool {
		if i >= 4 {
			break
		}
		m := c.Pool[i]
		wkbKeep := func(b []byte) geom.Geometry { v, _ := geom.UnmarshalWKB(b, geom.NoValidate{}); return v }
		encs = append(encs, enc{fmt.Sprintf("UnmarshalWKB(little-endian pool[%d])", i), g.AsBinary(), wkbDec, wkbKeep})
		if !m.Zero && !containsEmptyRing(m) {
			be := codec.EncodeWKB(m, []bool{true})
			encs = append(encs, enc{fmt.Sprintf("UnmarshalWKB(big-endian pool[%d])", i), be, wkbDec, wkbKeep})
			encs = append(encs, enc{fmt.Sprintf("Geometry.Scan(big-endian pool[%d])", i), append([]byte(nil), be...), scanDec, func(b []byte) geom.Geometry { var v geom.Geometry; _ = v.Scan(b); return v }})
			encs = append(encs, enc{fmt.Sprintf("UnmarshalWKB(mixed byte order pool[%d])", i), codec.EncodeWKB(m, []bool{true, false, true, true, false}), wkbDec, wkbKeep})
		}
		if tw, err := geom.MarshalTWKB(g, 0); err == nil {
			encs = append(encs, enc{fmt.Sprintf("UnmarshalTWKB(pool[%d])", i), tw, func(b []byte) (string, error) {
				g, err := geom.UnmarshalTWKB(b, geom.NoValidate{})
				if err != nil {
					return "", err
				}
				return g.AsText(), nil
			}, func(b []byte) geom.Geometry { v, _ := geom.UnmarshalTWKB(b, geom.NoValidate{}); return v }})
		}
		if js, err := json.Marshal(g); err == nil {
			encs = append(encs, enc{fmt.Sprintf("UnmarshalGeoJSON(pool[%d])", i), js, func(b []byte) (string, error) {
				g, err := geom.UnmarshalGeoJSON(b, geom.NoValidate{})
				if err != nil {
					return "", err
				}
				return g.AsText(), nil
			}, func(b []byte) geom.Geometry { v, _ := geom.UnmarshalGeoJSON(b, geom.NoValidate{}); return v }})
		}
	}
	// a destination scanned into twice: the value held from the first scan is not changed by the second
	for i, g := range pool {
		if i >= 4 || g.Validate() != nil {
			continue
		}
		var d geom.Geometry
		if d.Scan(g.AsBinary()) != nil {
			continue
		}
		held := d
		before := apienum.Repr(reflect.ValueOf(held))
		for _, next := range []geom.Geometry{g.Reverse(), pool[(i+1)%len(pool)], g} {
			if next.Validate() == nil {
				_ = d.Scan(next.AsBinary())
			}
		}
		if after := apienum.Repr(reflect.ValueOf(held)); after != before {
			return h.Failf("pure/scan-overwrites-held-copy", "a copy of a Scan destination changed when the destination was scanned into again:\n%s\nvs\n%s%s", clip(before, 300), clip(after, 300), desc())
		}
	}
	// documents whose positions mix 2 and 3 (and more) elements: the dimensionality decision is global and must not
	// depend on the order in which the decoder happens to meet the lengths
	for i, doc := range c10MixedDocs {
		encs = append(encs, enc{fmt.Sprintf("UnmarshalGeoJSON(mixed-dimension document %d)", i), []byte(doc), func(b []byte) (s string, err error) {
			defer func() {
				if r := recover(); r != nil {
					s, err = fmt.Sprintf("panic: %v", r), nil
				}
			}()
			g, e := geom.UnmarshalGeoJSON(b, geom.NoValidate{})
			if e != nil {
				return "error: " + e.Error(), nil
			}
			return g.AsText(), nil
		}, nil})
	}
	reps := 2
	for _, e := range encs {
		if strings.Contains(e.name, "mixed-dimension") {
			reps = 12
		}
		keep := append([]byte(nil), e.buf...)
		first, err := e.dec(e.buf)
		if err != nil {
			return h.Failf("pure/decoder-error", "%s fails on the library's / the independent writer's encoding: %v%s", e.name, err, desc())
		}
		if !bytes.Equal(e.buf, keep) {
			return h.Failf("pure/input-buffer-modified", "%s modified the caller's buffer:\nbefore %x\nafter  %x%s", e.name, clip(string(keep), 200), clip(string(e.buf), 200), desc())
		}
		for r := 0; r < reps; r++ {
			again, err := e.dec(e.buf)
			if err != nil || again != first {
				return h.Failf("deterministic/decoder-repeat", "%s: decoding the same buffer again gives a different result (%v):\n%s\nvs\n%s%s", e.name, err, clip(first, 300), clip(again, 300), desc())
			}
		}
		// shared buffer, concurrent decodes
		var wg sync.WaitGroup
		bad := make([]string, c.Goroutines)
		for gi := 0; gi < c.Goroutines; gi++ {
			wg.Add(1)
			go func(gi int) {
				defer wg.Done()
				for r := 0; r < 3; r++ {
					s, err := e.dec(e.buf)
					if err != nil || s != first {
						bad[gi] = fmt.Sprintf("%v %s", err, clip(s, 300))
						return
					}
				}
			}(gi)
		}
		wg.Wait()
		for _, b := range bad {
			if b != "" {
				return h.Failf("concurrent/decoder-result-differs", "%s: a concurrent decode of the shared buffer returned %s, sequential %s%s", e.name, b, clip(first, 300), desc())
			}
		}
		if !bytes.Equal(e.buf, keep) {
			return h.Failf("pure/input-buffer-modified", "%s modified the caller's buffer during concurrent decodes%s", e.name, desc())
		}
		// the decoded value does not alias the buffer: clearing it afterwards changes nothing
		if e.keep != nil {
			scratch := append([]byte(nil), e.buf...)
			v := e.keep(scratch)
			before := apienum.Repr(reflect.ValueOf(v))
			for i := range scratch {
				scratch[i] = 0xEE
			}
			if after := apienum.Repr(reflect.ValueOf(v)); after != before {
				return h.Failf("pure/result-aliases-input", "%s: the returned geometry changed when the input buffer was overwritten afterwards:\n%s\nvs\n%s%s", e.name, clip(before, 300), clip(after, 300), desc())
			}
		}
		cx.Count("decoder_buffers_checked", 1)
	}
	return nil
}

var c10MixedDocs = []string{
	`{"type":"GeometryCollection","geometries":[{"type":"Point","coordinates":[1,2]},{"type":"Point","coordinates":[1,2,3]},{"type":"LineString","coordinates":[[1,2],[3,4,5]]},{"type":"MultiPoint","coordinates":[[0,0],[1,1,1,9]]}]}`,
	`{"type":"MultiLineString","coordinates":[[[0,0,0],[1,1,1]],[[2,2],[3,3]],[[4,4,4,4],[5,5]]]}`,
	`{"type":"Polygon","coordinates":[[[0,0,1],[4,0],[4,4,1,2],[0,0]],[[1,1],[2,1,5],[2,2],[1,1,5]]]}`,
	`{"type":"GeometryCollection","geometries":[{"type":"Point","coordinates":[1,2,3]},{"type":"GeometryCollection","geometries":[{"type":"Point","coordinates":[1,2]},{"type":"Point","coordinates":[1,2,3,4,5]}]}]}`,
}

func containsEmptyRing(g gm.G) bool {
	for _, r := range g.Rings {
		if len(r) == 0 {
			return true
		}
	}
	for _, m := range g.Mem {
		if containsEmptyRing(m) {
			return true
		}
	}
	return false
}

package props

import (
	"fmt"
	"math"
	"math/big"
	"strings"
	"testing"
	"time"

	"github.com/peterstace/simplefeatures/geom"
	"pgregory.net/rapid"

	"verif/internal/exact"
	"verif/internal/gen"
	"verif/internal/gm"
	"verif/internal/h"
)

// ---------- C01: overlay set operations return exactly the set-theoretic result ----------

type C01Case struct {
	PairCase
	// Extra operands for UnionMany (the list is A, B, Extra...)
	Extra []gm.G `json:"extra,omitempty"`
}

func c01Gen(t *rapid.T, cx *h.Ctx) C01Case {
	c := C01Case{PairCase: genPair(t, cx, false, &c01Stats)}
	// further operands for UnionMany (lists of up to 5), drawn on the integer grid near the pair
	if c.Family != "" && !strings.HasSuffix(c.Family, "+float") && rapid.IntRange(0, 2).Draw(t, "extras") == 0 {
		cpx := gen.DrawComplex(t, 2, [2]int{2 * rapid.IntRange(-1, 2).Draw(t, "ex"), 2 * rapid.IntRange(-1, 2).Draw(t, "ey")})
		for i := rapid.IntRange(1, 3).Draw(t, "nextra"); i > 0; i-- {
			c.Extra = append(c.Extra, cpx.Geom(t, rapid.SampledFrom(gm.Types).Draw(t, "extype"), 0, false, nil))
		}
	}
	return c
}

var c01Stats gen.Stats

type c01Op struct {
	name string
	op   exact.Op
	run  func(a, b geom.Geometry) (geom.Geometry, error)
	// swap: oracle operands are (B, A)
}

var c01Ops = []c01Op{
	{"Union", exact.OpUnion, geom.Union},
	{"Intersection", exact.OpInter, geom.Intersection},
	{"Difference", exact.OpDiff, geom.Difference},
	{"Difference(B,A)", exact.OpRevDiff, func(a, b geom.Geometry) (geom.Geometry, error) { return geom.Difference(b, a) }},
	{"SymmetricDifference", exact.OpSymDiff, geom.SymmetricDifference},
	{"Union(B,A)", exact.OpUnion, func(a, b geom.Geometry) (geom.Geometry, error) { return geom.Union(b, a) }},
	{"Intersection(B,A)", exact.OpInter, func(a, b geom.Geometry) (geom.Geometry, error) { return geom.Intersection(b, a) }},
	{"SymmetricDifference(B,A)", exact.OpSymDiff, func(a, b geom.Geometry) (geom.Geometry, error) { return geom.SymmetricDifference(b, a) }},
}

// float helpers on result geometries
type fseg struct{ ax, ay, bx, by float64 }

func resultParts(g exact.Geom) (lines []fseg, rings []fseg, pts [][2]float64) {
	for _, p := range g.Parts {
		for _, l := range p.Lines {
			for i := 0; i+1 < len(l); i++ {
				ax, ay := l[i].Floats()
				bx, by := l[i+1].Floats()
				lines = append(lines, fseg{ax, ay, bx, by})
			}
		}
		for _, poly := range p.Polys {
			for _, r := range poly {
				for i := 0; i+1 < len(r); i++ {
					ax, ay := r[i].Floats()
					bx, by := r[i+1].Floats()
					rings = append(rings, fseg{ax, ay, bx, by})
				}
			}
		}
		for _, q := range p.Points {
			x, y := q.Floats()
			pts = append(pts, [2]float64{x, y})
		}
	}
	return
}

func distToSegs(px, py float64, segs []fseg) float64 {
	best := math.Inf(1)
	for _, s := range segs {
		dx, dy := s.bx-s.ax, s.by-s.ay
		l2 := dx*dx + dy*dy
		t := 0.0
		if l2 > 0 {
			t = ((px-s.ax)*dx + (py-s.ay)*dy) / l2
			if t < 0 {
				t = 0
			} else if t > 1 {
				t = 1
			}
		}
		d := math.Hypot(px-(s.ax+t*dx), py-(s.ay+t*dy))
		if d < best {
			best = d
		}
	}
	return best
}

// c01Shape checks the canonical shape of a result.
func c01Shape(res gm.G) string {
	res = res.Norm()
	simple := func(m gm.G) bool {
		return (m.T == gm.Point || m.T == gm.LineString || m.T == gm.Polygon) && !m.IsEmpty()
	}
	switch res.T {
	case gm.GeometryCollection:
		if len(res.Mem) == 0 {
			return ""
		}
		dims := map[int]bool{}
		for _, m := range res.Mem {
			if !simple(m) {
				return fmt.Sprintf("collection member %s is not a non-empty Point/LineString/Polygon", m.T)
			}
			dims[map[string]int{gm.Point: 0, gm.LineString: 1, gm.Polygon: 2}[m.T]] = true
		}
		if len(dims) < 2 {
			return "GeometryCollection although all parts have the same dimension"
		}
	case gm.MultiPoint, gm.MultiLineString, gm.MultiPolygon:
		if len(res.Mem) < 2 {
			return fmt.Sprintf("%s with %d member(s)", res.T, len(res.Mem))
		}
		for _, m := range res.Mem {
			if m.IsEmpty() {
				return res.T + " with an empty member"
			}
		}
	default:
		if res.IsEmpty() {
			return "empty " + res.T + " instead of an empty GeometryCollection"
		}
	}
	return ""
}

func c01CheckResult(name string, ov *exact.Overlay, ex exact.Expect, resG geom.Geometry, tau float64, cx *h.Ctx) *h.Failure {
	res := gm.FromGeom(resG)
	if res.CT != 0 {
		return h.Failf("overlay/result-ctype", "%s: result has coordinate type %s", name, gm.CTName(res.CT))
	}
	if v := exact.Valid(res); v != nil {
		return h.Failf("overlay/result-invalid", "%s: result is not valid by the definitional oracle: %s (%s)\nresult = %s", name, v.Rule, v.Msg, res)
	}
	if msg := c01Shape(res); msg != "" {
		return h.Failf("overlay/shape", "%s: non-canonical result shape: %s\nresult = %s", name, msg, clip(res.String(), 600))
	}
	rg := exact.MustFromModel(res)
	lines, rings, pts := resultParts(rg)
	ar := ov.Ar
	// (2a) faces, both directions
	skipped := 0
	for i, f := range ar.Faces {
		if ov.FaceClear[i] >= 0 && ov.FaceClear[i] <= tau {
			skipped++
			continue
		}
		got := exact.In(f.Probe, rg)
		if got != ex.Face[i] {
			return h.Failf("overlay/face-membership", "%s: location %s (inA=%v inB=%v) should be %s the result but is %s\nresult = %s", name, f.Probe, ov.FaceIn[i][0], ov.FaceIn[i][1], inOut(ex.Face[i]), inOut(got), clip(res.String(), 600))
		}
	}
	if skipped > 0 {
		cx.Count("probes_skipped_low_clearance", int64(skipped))
	}
	// (2b) edges: expected ones are within tau of the result; remainder edges within tau of the lineal part
	for i, e := range ar.Edges {
		mx, my := e.Mid.Floats()
		if ex.EdgeLine[i] {
			if d := distToSegs(mx, my, lines); !(d <= tau) {
				return h.Failf("overlay/missing-line", "%s: the segment %s-%s belongs to the result as a line (not covered by an areal part) but the result's lines are %g away from its midpoint\nresult = %s", name, e.A, e.B, d, clip(res.String(), 600))
			}
		} else if ex.Edge[i] {
			if !exact.In(e.Mid, rg) {
				if d := math.Min(distToSegs(mx, my, rings), distToSegs(mx, my, lines)); !(d <= tau) {
					return h.Failf("overlay/missing-edge", "%s: the midpoint of %s-%s should be in the result (distance %g)\nresult = %s", name, e.A, e.B, d, clip(res.String(), 600))
				}
			}
		}
	}
	// isolated points
	for i, v := range ar.Verts {
		if !ex.VertPoint[i] {
			continue
		}
		vx, vy := v.Floats()
		best := math.Inf(1)
		for _, p := range pts {
			best = math.Min(best, math.Hypot(p[0]-vx, p[1]-vy))
		}
		if !(best <= tau) {
			return h.Failf("overlay/missing-point", "%s: %s is an isolated point of the result but no Point member is within tolerance (nearest %g)\nresult = %s", name, v, best, clip(res.String(), 600))
		}
	}
	// (3) nothing extra: measures
	mag := ar.Magnitude()
	if mag == 0 {
		mag = 1
	}
	gotArea := exact.RatFloat(rg.Area())
	wantArea := exact.RatFloat(ex.Area)
	if math.Abs(gotArea-wantArea) > 1e-9*mag*mag {
		return h.Failf("overlay/area", "%s: result area %.12g, exact area of the Boolean combination %.12g\nresult = %s", name, gotArea, wantArea, clip(res.String(), 600))
	}
	gotLen, _ := rg.Length().Float64()
	wantLen, _ := ex.Length.Float64()
	if math.Abs(gotLen-wantLen) > 1e-9*mag*float64(1+len(lines)) {
		return h.Failf("overlay/length", "%s: total length of the result's lines %.12g, exact length of the 1-dimensional remainder %.12g\nresult = %s", name, gotLen, wantLen, clip(res.String(), 600))
	}
	if len(pts) != ex.NumPoints {
		return h.Failf("overlay/point-count", "%s: result has %d point members, the Boolean combination has %d isolated points\nresult = %s", name, len(pts), ex.NumPoints, clip(res.String(), 600))
	}
	return nil
}

func inOut(b bool) string {
	if b {
		return "in"
	}
	return "outside"
}

func c01Check(c C01Case, cx *h.Ctx) *h.Failure {
	// cost accounting only (reported in the evidence; never part of a verdict)
	t0 := time.Now()
	defer func() { cx.Count("check_ms_family="+c.Family, time.Since(t0).Milliseconds()) }()
	ea, eb := exact.MustFromModel(c.A), exact.MustFromModel(c.B)
	cx.Class("pair=" + c.A.T + "/" + c.B.T)
	cx.Class("family=" + c.Family)
	A, B := c.A.ToGeom(), c.B.ToGeom()
	desc := func() string { return fmt.Sprintf("\nA = %s\nB = %s", c.A, c.B) }
	ov := exact.NewOverlay(ea, eb)
	strict := pairStrict(ov.Ar)
	mag := ov.Ar.Magnitude()
	if mag == 0 {
		mag = 1
	}
	tau := 1e-9 * mag
	unlabelled := exact.UnlabelledCell(ea) || exact.UnlabelledCell(eb)
	if unlabelled {
		cx.Class("input=operand-cell-unlabelled")
	}
	fail := func(f *h.Failure) *h.Failure {
		if unlabelled {
			f.Class = "overlay/operand-cell-unlabelled"
		}
		f.Msg += desc()
		return f
	}
	anyNonEmpty := false
	// the same operands carrying Z / M / ZM payload (every position its own values): set operations are defined
	// on XY only, so the results must be the same XY geometries
	lctA, lctB := 1+len(c.A.String())%3, 1+len(c.B.String())%3
	AL, BL := c16TagWith(forceCT(c.A, lctA), true).ToGeom(), c16TagWith(forceCT(c.B, lctB), false).ToGeom()
	for _, op := range c01Ops {
		var res geom.Geometry
		var err error
		h.Lib(op.name, func() { res, err = op.run(A, B) })
		if strict || err == nil {
			var resL geom.Geometry
			var errL error
			h.Lib(op.name, func() { resL, errL = op.run(AL, BL) })
			if (errL == nil) != (err == nil) || (err == nil && resL.AsText() != res.AsText()) {
				return fail(h.Failf("overlay/zm-dependent", "%s of the same XY operands carrying %s / %s payload gives %v %s, without payload %v %s", op.name, gm.CTName(lctA), gm.CTName(lctB), errL, clip(resL.AsText(), 300), err, clip(res.AsText(), 300)))
			}
		}
		if !strict {
			continue // weak contract only: no panic (checked by the harness); error or geometry
		}
		if err != nil {
			return fail(h.Failf("overlay/error", "%s returned an error in the strict domain: %v", op.name, err))
		}
		if verr := res.Validate(); verr != nil {
			return fail(h.Failf("overlay/result-fails-validate", "%s: result fails Validate: %v", op.name, verr))
		}
		ex := ov.Expect(op.op)
		if f := c01CheckResult(op.name, ov, ex, res, tau, cx); f != nil {
			return fail(f)
		}
		if !res.IsEmpty() {
			anyNonEmpty = true
		}
	}
	if !strict {
		cx.Skip("sub_tolerance_pair")
		return nil
	}
	// UnaryUnion of each operand, Union(a,a), UnionMany
	for i, x := range []struct {
		g  geom.Geometry
		eg exact.Geom
	}{{A, ea}, {B, eb}} {
		sov := exact.NewOverlay(x.eg, exact.Geom{})
		ex := sov.Expect(exact.OpUnion)
		stau := tau
		for _, r := range []struct {
			name string
			run  func() (geom.Geometry, error)
		}{
			{fmt.Sprintf("UnaryUnion(operand %d)", i), func() (geom.Geometry, error) { return geom.UnaryUnion(x.g) }},
			{fmt.Sprintf("Union(x,x) (operand %d)", i), func() (geom.Geometry, error) { return geom.Union(x.g, x.g) }},
			{fmt.Sprintf("UnionMany([x]) (operand %d)", i), func() (geom.Geometry, error) { return geom.UnionMany([]geom.Geometry{x.g}) }},
		} {
			res, err := r.run()
			if err != nil {
				return fail(h.Failf("overlay/error", "%s returned an error: %v", r.name, err))
			}
			if f := c01CheckResult(r.name, sov, ex, res, stau, cx); f != nil {
				return fail(f)
			}
		}
	}
	// UnionMany([A, B]) and with the members in the other order = Union(A,B) as a point set
	exU := ov.Expect(exact.OpUnion)
	for _, lst := range [][]geom.Geometry{{A, B}, {B, A}, {A, B, A}} {
		res, err := geom.UnionMany(lst)
		if err != nil {
			return fail(h.Failf("overlay/error", "UnionMany returned an error: %v", err))
		}
		uf := unlabelled
		if f := c01CheckResult(fmt.Sprintf("UnionMany(%d operands)", len(lst)), ov, exU, res, tau, cx); f != nil {
			// A and B as members of one collection can create an unlabelled cell that neither has alone
			if !uf && exact.UnlabelledCell(exact.Geom{Parts: append(append([]exact.Part{}, ea.Parts...), eb.Parts...)}) {
				f.Class = "overlay/operand-cell-unlabelled"
				f.Msg += desc()
				return f
			}
			return fail(f)
		}
	}
	// UnionMany of a longer list = union of everything, against the exact arrangement of all operands
	if len(c.Extra) > 0 {
		all := exact.Geom{Parts: append(append([]exact.Part{}, ea.Parts...), eb.Parts...)}
		lst := []geom.Geometry{A, B}
		for _, x := range c.Extra {
			all.Parts = append(all.Parts, exact.MustFromModel(x).Parts...)
			lst = append(lst, x.ToGeom())
		}
		// sometimes a long list: 14..45 further single-point operands, so that no operand of a list longer than any
		// internal batch size may be lost
		if n := len(c.A.String()) % 4; n == 0 {
			np := 14 + (len(c.B.String())*7)%32
			for i := 0; i < np; i++ {
				pm := gm.G{T: gm.Point, Co: gm.Fs(float64(900+(i%10)*11), float64(-950+(i/10)*13))}
				all.Parts = append(all.Parts, exact.MustFromModel(pm).Parts...)
				lst = append(lst, pm.ToGeom())
			}
			if len(c.B.String())%2 == 0 { // the real operands last
				lst = append(lst[2+len(c.Extra):], lst[:2+len(c.Extra)]...)
			}
			cx.Class("unionmany-long-list")
		}
		aov := exact.NewOverlay(all, exact.Geom{})
		if pairStrict(aov.Ar) {
			res, err := geom.UnionMany(lst)
			if err != nil {
				return fail(h.Failf("overlay/error", "UnionMany(%d operands) returned an error: %v", len(lst), err))
			}
			amag := aov.Ar.Magnitude()
			if amag == 0 {
				amag = 1
			}
			if f := c01CheckResult(fmt.Sprintf("UnionMany(%d operands)", len(lst)), aov, aov.Expect(exact.OpUnion), res, 1e-9*amag, cx); f != nil {
				for i, x := range c.Extra {
					f.Msg += fmt.Sprintf("\nextra[%d] = %s", i, x)
				}
				return fail(f)
			}
			cx.Class("unionmany-list")
		}
	}
	// inclusion-exclusion of area through the library's own Area (cheap cross-check)
	if ov.Ar.Crossings+ov.Ar.Overlaps+ov.Ar.Touches > 0 && anyNonEmpty {
		cx.NonTrivial()
	}
	cx.Sample(map[string]interface{}{"a": clip(c.A.String(), 200), "b": clip(c.B.String(), 200), "crossings": ov.Ar.Crossings, "overlaps": ov.Ar.Overlaps, "touches": ov.Ar.Touches})
	return nil
}

var _ = big.NewRat
var _ = rapid.Bool

func TestC01(t *testing.T) {
	h.Run(t, h.Prop[C01Case]{
		ID:          "C01",
		Rule:        "cases = an ordered pair of valid geometries from the same generator as C02 but with collections whose members may overlap (all 7x7 type pairs, empty operands/members, nested collections; triangulated integer grids that coincide / are offset by half a cell / shifted; one injective integer linear map, |c| <= 1024). For Union, Intersection, Difference (both orders), SymmetricDifference (both argument orders), UnaryUnion, Union(x,x), UnionMany (1..3 operands, both orders): no error; result valid by the definitional oracle and by Validate; membership of every slab-trapezoid probe (clearance > tau) in the result = Boolean combination of its exact membership in the operands, closed (edge in iff itself or an adjacent face, vertex in iff itself or an incident cell); every expected remainder edge / isolated point is within tau of a line / point member; area, total line length and number of point members equal the exact measures of that set; canonical result shape. tau = 1e-9 x magnitude. Strict domain only (clearance >= 1e-6 x magnitude). non-trivial = the operands' skeletons meet (crossing, collinear overlap or shared vertex) and some result is non-empty Families of the shared pair generator: triangulated integer grids that coincide / are offset by half a cell / are shifted, under an injective integer map and optionally an exact dyadic affine image; hole-nesting (annulus, island, covering members, far-away decoy members in front of the deciding one); general-position floats (random 53-bit mantissas in a window - crossing points not representable); concurrent (3..14 integer segments through one non-lattice point, dyadic or not).",
		Assumptions: []string{"exact kernel (internal/exact)", "inputs of the class overlay/operand-cell-unlabelled (open known finding F17) are excluded by class and counted"},
		Gen:         c01Gen,
		Check:       c01Check,
		Enumerate:   c01Enumerate,
	})
}

// c01Enumerate: wide operands (130 members in a row) against a small geometry that
// meets only one of the last two members.
func c01Enumerate(cx *h.Ctx, yield func(C01Case)) []string {
	for _, k := range []int{130} { // (the exact overlay oracle needs about 50 s per such case; C02 also runs 260)
		for _, typ := range []string{gm.MultiLineString, gm.MultiPolygon} {
			a := gm.G{T: typ}
			for i := 0; i < k; i++ {
				x := float64(10 * i)
				if typ == gm.MultiLineString {
					a.Mem = append(a.Mem, gm.G{T: gm.LineString, Co: gm.Fs(x, 0, x+4, 4)})
				} else {
					a.Mem = append(a.Mem, gm.G{T: gm.Polygon, Rings: [][]gm.F{gm.Fs(x, 0, x+4, 0, x+4, 4, x, 4, x, 0)}})
				}
			}
			for _, j := range []int{k - 1, k - 2} {
				x := float64(10 * j)
				for _, b := range []gm.G{
					{T: gm.LineString, Co: gm.Fs(x-2, 2, x+2, -2)},
					{T: gm.Polygon, Rings: [][]gm.F{gm.Fs(x+2, 2, x+6, 2, x+6, 6, x+2, 6, x+2, 2)}},
				} {
					yield(C01Case{PairCase: PairCase{A: a, B: b, Family: "wide"}})
				}
			}
		}
	}
	return []string{"operands of 130 members in a row (MultiLineString, MultiPolygon) against a line / polygon meeting one of the last two members"}
}

package props

import (
	"bytes"
	"encoding/hex"
	"math"
	"testing"

	"github.com/peterstace/simplefeatures/geom"

	"verif/internal/codec"
	"verif/internal/gm"
	"verif/internal/h"
)

// Native (coverage-guided) fuzz targets, run by the driver in the thorough tier
// only. Each target puts its semantic oracle inside the target; a crasher is
// converted by the driver into a replay case ({"raw_hex": ...}) of the property.

func fuzzSeeds(f *testing.F, format string) {
	for _, s := range c08Corpus() {
		if s.format == format {
			f.Add(s.data)
		}
	}
}

// ---- C04: bytes -> decode -> encode -> decode is a fixpoint ----

func c04Raw(data []byte) *h.Failure {
	g, err := geom.UnmarshalWKB(data, geom.NoValidate{})
	if err != nil {
		return nil
	}
	m := gm.FromGeom(g)
	b := g.AsBinary()
	g2, err := geom.UnmarshalWKB(b, geom.NoValidate{})
	if err != nil {
		return h.Failf("wkb/fixpoint-decode", "a geometry decoded from WKB re-encodes to bytes that do not decode: %v\ninput %x\nre-encoded %x", err, data, b)
	}
	if d := gm.Diff(m, gm.FromGeom(g2)); d != "" {
		return h.Failf("wkb/fixpoint-differs", "decode(encode(decode(input))) differs from decode(input): %s\ninput %x", d, data)
	}
	if b2 := g2.AsBinary(); !bytes.Equal(b, b2) {
		return h.Failf("wkb/fixpoint-bytes", "re-encoding is not stable: %x vs %x", b, b2)
	}
	if dec, used, err := codec.DecodeWKB(b); err != nil || used != len(b) || gm.Diff(m, dec) != "" {
		return h.Failf("wkb/fixpoint-independent-reader", "independent reader disagrees on the re-encoded bytes %x (err %v)", b, err)
	}
	return nil
}

func FuzzC04(f *testing.F) {
	fuzzSeeds(f, "wkb")
	f.Fuzz(func(t *testing.T, data []byte) {
		if fl := c04Raw(data); fl != nil {
			t.Fatalf("[%s] %s", fl.Class, fl.Msg)
		}
	})
}

// ---- C05: text -> parse -> print -> parse is a fixpoint ----

func finiteModel(m gm.G) bool {
	for _, v := range m.AllOrdinates() {
		if math.IsNaN(float64(v)) || math.IsInf(float64(v), 0) {
			return false
		}
	}
	return true
}

func c05Raw(text string) *h.Failure {
	g, err := geom.UnmarshalWKT(text, geom.NoValidate{})
	if err != nil {
		return nil
	}
	m := gm.FromGeom(g)
	emptyRing := false
	m.Walk(func(n gm.G) {
		for _, r := range n.Rings {
			if len(r) == 0 {
				emptyRing = true
			}
		}
	})
	if emptyRing {
		return nil // "POLYGON(EMPTY)": rings without positions are outside C05's domain (the library's parser extension)
	}
	if !finiteModel(m) {
		return h.Failf("wkt/parsed-non-finite", "UnmarshalWKT accepted a text with a non-finite numeral: %q", text)
	}
	t2 := g.AsText()
	g2, err := geom.UnmarshalWKT(t2, geom.NoValidate{})
	if err != nil {
		return h.Failf("wkt/fixpoint-reparse", "AsText() of a parsed geometry does not re-parse: %v\ninput %q\ntext %q", err, text, t2)
	}
	if d := gm.Diff(m, gm.FromGeom(g2)); d != "" {
		return h.Failf("wkt/fixpoint-differs", "parse(print(parse(input))) differs from parse(input): %s\ninput %q\ntext %q", d, text, t2)
	}
	if t3 := g2.AsText(); t3 != t2 {
		return h.Failf("wkt/fixpoint-text", "printing is not stable: %q vs %q", t2, t3)
	}
	if pm, _, err := codec.ParseWKT(t2); err != nil || gm.Diff(m, pm) != "" {
		return h.Failf("wkt/fixpoint-independent-parser", "independent parser disagrees on %q (err %v)", t2, err)
	}
	return nil
}

func FuzzC05(f *testing.F) {
	fuzzSeeds(f, "wkt")
	f.Fuzz(func(t *testing.T, data []byte) {
		if fl := c05Raw(string(data)); fl != nil {
			t.Fatalf("[%s] %s", fl.Class, fl.Msg)
		}
	})
}

// ---- C06: document -> decode -> encode -> decode is the format image ----

func c06Raw(data []byte) *h.Failure {
	g, err := geom.UnmarshalGeoJSON(data, geom.NoValidate{})
	if err != nil {
		return nil
	}
	m := gm.FromGeom(g)
	if !finiteModel(m) {
		return nil
	}
	out, err := g.MarshalJSON()
	if err != nil {
		return h.Failf("geojson/fixpoint-marshal", "a geometry decoded from GeoJSON does not marshal: %v\ninput %s", err, clip(string(data), 400))
	}
	g2, err := geom.UnmarshalGeoJSON(out, geom.NoValidate{})
	if err != nil {
		return h.Failf("geojson/fixpoint-decode", "MarshalJSON of a decoded geometry does not decode: %v\ninput %s\noutput %s", err, clip(string(data), 400), clip(string(out), 400))
	}
	if d := gm.Diff(c06Image(m), gm.FromGeom(g2)); d != "" {
		return h.Failf("geojson/fixpoint-differs", "decode(encode(decode(input))) is not the format image of decode(input): %s\ninput %s\noutput %s", d, clip(string(data), 400), clip(string(out), 400))
	}
	return nil
}

func FuzzC06(f *testing.F) {
	fuzzSeeds(f, "geojson")
	f.Fuzz(func(t *testing.T, data []byte) {
		if fl := c06Raw(data); fl != nil {
			t.Fatalf("[%s] %s", fl.Class, fl.Msg)
		}
	})
}

// ---- C07: TWKB bytes -> decode -> encode (same precisions) -> decode is a fixpoint ----

func c07Raw(data []byte) *h.Failure {
	g, err := geom.UnmarshalTWKB(data, geom.NoValidate{})
	if err != nil {
		return nil
	}
	node, rerr := codec.ReadTWKB(data)
	if rerr != nil {
		return h.Failf("twkb/accepted-malformed", "UnmarshalTWKB accepts bytes the independent reader rejects (%v): %x", rerr, data)
	}
	// only inputs whose integers are all below 2^48 in magnitude round-trip exactly (the property's own domain is |k| < 2^40)
	small := true
	var walk func(n codec.TWKBNode)
	chk := func(ps [][]int64) {
		for _, p := range ps {
			for _, k := range p {
				if k > 1<<48 || k < -(1<<48) { // well inside float64's integer range: two roundings (k/10^p, then x10^p) must not add up to half a unit
					small = false
				}
			}
		}
	}
	walk = func(n codec.TWKBNode) {
		chk(n.Pos)
		for _, r := range n.Rings {
			chk(r)
		}
		for _, p := range n.Polys {
			for _, r := range p {
				chk(r)
			}
		}
		for _, m := range n.Members {
			if m.PrecXY != node.PrecXY || m.PrecZ != node.PrecZ || m.PrecM != node.PrecM || m.HasZ != node.HasZ || m.HasM != node.HasM {
				small = false // members with their own precisions cannot be re-encoded by one MarshalTWKB call
			}
			walk(m)
		}
	}
	walk(node)
	m := gm.FromGeom(g)
	// with a negative precision the decoded ordinate is k x 10^|p|: it too must stay below 2^52, or float64
	// cannot carry it back to the same integer (found by the native fuzzer: k = 3.77e15 at precision -2)
	for _, v := range m.AllOrdinates() {
		if math.Abs(float64(v)) >= 1<<48 {
			small = false
		}
	}
	if !small || !finiteModel(m) || containsEmptyPointInMulti(m) {
		return nil
	}
	opts := []geom.TWKBWriterOption{}
	if node.HasZ {
		opts = append(opts, geom.TWKBPrecisionZ(node.PrecZ))
	}
	if node.HasM {
		opts = append(opts, geom.TWKBPrecisionM(node.PrecM))
	}
	b, err := geom.MarshalTWKB(g, node.PrecXY, opts...)
	if err != nil {
		return nil // e.g. precision out of the writer's range
	}
	g2, err := geom.UnmarshalTWKB(b, geom.NoValidate{})
	if err != nil {
		return h.Failf("twkb/fixpoint-decode", "re-encoding a decoded TWKB does not decode: %v\ninput %x\nre-encoded %x", err, data, b)
	}
	emptyRing := false
	m.Walk(func(n gm.G) {
		for _, r := range n.Rings {
			if len(r) == 0 {
				emptyRing = true
			}
		}
	})
	if emptyRing {
		return nil // rings without positions are outside the property's domain (valid geometries)
	}
	if m.IsEmpty() {
		// tolerated loss: member structure and coordinate type of a geometry without any ordinate
		if g2.Type() != g.Type() || !g2.IsEmpty() {
			return h.Failf("twkb/fixpoint-empty", "an empty %s re-encodes to %s", g.Type(), g2.AsText())
		}
		return nil
	}
	if d := gm.Diff(c07StripEmpties(negZeroToZero(m)), c07StripEmpties(negZeroToZero(gm.FromGeom(g2)))); d != "" {
		// rings whose last vertex equals the first lose/gain a closing position: not comparable
		if !ringsAmbiguous(m) {
			return h.Failf("twkb/fixpoint-differs", "decode(encode(decode(input))) differs from decode(input): %s\ninput %x\nre-encoded %x", d, data, b)
		}
	}
	return nil
}

func ringsAmbiguous(m gm.G) bool {
	amb := false
	m.Walk(func(n gm.G) {
		d := gm.Dim(n.CT)
		for _, r := range n.Rings {
			k := len(r) / d
			if k < 4 {
				amb = true
				continue
			}
			same := true
			for e := 0; e < d; e++ {
				if r[e] != r[(k-2)*d+e] {
					same = false
				}
			}
			if same {
				amb = true
			}
		}
	})
	return amb
}

func FuzzC07(f *testing.F) {
	fuzzSeeds(f, "twkb")
	f.Fuzz(func(t *testing.T, data []byte) {
		if fl := c07Raw(data); fl != nil {
			t.Fatalf("[%s] %s", fl.Class, fl.Msg)
		}
	})
}

// ---- C08: the totality contract on coverage-guided inputs ----

func fuzzC08(f *testing.F, format string) {
	fuzzSeeds(f, format)
	cx := h.NewScratchCtx("C08")
	f.Fuzz(func(t *testing.T, data []byte) {
		if len(data) > 65536 {
			return
		}
		if fl := c08Check(C08Case{Format: format, Hex: hex.EncodeToString(data), Fault: "native-fuzz"}, cx); fl != nil {
			t.Fatalf("[%s] %s", fl.Class, fl.Msg)
		}
	})
}

func FuzzC08WKB(f *testing.F)     { fuzzC08(f, "wkb") }
func FuzzC08TWKB(f *testing.F)    { fuzzC08(f, "twkb") }
func FuzzC08WKT(f *testing.F)     { fuzzC08(f, "wkt") }
func FuzzC08GeoJSON(f *testing.F) { fuzzC08(f, "geojson") }

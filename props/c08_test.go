package props

import (
	"bytes"
	"encoding/binary"
	"encoding/hex"
	"encoding/json"
	"fmt"
	"os"
	"runtime"
	"runtime/debug"
	"runtime/metrics"
	"strings"
	"testing"
	"time"

	"github.com/peterstace/simplefeatures/geom"
	"pgregory.net/rapid"

	"verif/internal/codec"
	"verif/internal/gen"
	"verif/internal/gm"
	"verif/internal/h"
)

// ---------- C08: decoders are total on untrusted input ----------

type C08Case struct {
	Format string `json:"format"` // wkb | twkb | wkt | geojson
	Hex    string `json:"hex"`    // the input bytes
	Fault  string `json:"fault"`  // how it was derived (for the histogram)
}

func (c C08Case) data() []byte { b, _ := hex.DecodeString(c.Hex); return b }

var c08AllocSample = []metrics.Sample{{Name: "/gc/heap/allocs:bytes"}}

func allocBytes() uint64 {
	metrics.Read(c08AllocSample)
	return c08AllocSample[0].Value.Uint64()
}

const c08AllocBase = 1 << 20
const c08AllocPerByte = 2048

// c08Inflight journals the case about to be executed so that the driver can
// name it if the process dies (fatal out-of-memory cannot be recovered).
var c08InflightFile *os.File

func c08Journal(c C08Case) {
	if c08InflightFile == nil {
		path := os.Getenv("VERIF_INFLIGHT")
		if path == "" {
			return
		}
		f, err := os.Create(path)
		if err != nil {
			return
		}
		c08InflightFile = f
	}
	b, _ := json.Marshal(c)
	c08InflightFile.Truncate(0)
	c08InflightFile.WriteAt(b, 0)
}

func c08Done() {
	if c08InflightFile != nil {
		c08InflightFile.Truncate(0)
	}
}

type c08Call struct {
	name string
	run  func() (geom.Geometry, bool, error) // geometry, hasGeometry, error
	// validated: a returned geometry must pass Validate
	validated bool
}

func c08Calls(format string, data []byte) []c08Call {
	nv := geom.NoValidate{}
	asG := func(g geom.Geometry, err error) (geom.Geometry, bool, error) { return g, err == nil, err }
	switch format {
	case "wkb":
		calls := []c08Call{
			{"UnmarshalWKB", func() (geom.Geometry, bool, error) { return asG(geom.UnmarshalWKB(data)) }, true},
			{"UnmarshalWKB(NoValidate)", func() (geom.Geometry, bool, error) { return asG(geom.UnmarshalWKB(data, nv)) }, false},
			{"Geometry.Scan([]byte)", func() (geom.Geometry, bool, error) {
				var g geom.Geometry
				err := g.Scan(data)
				return g, err == nil, err
			}, true},
			{"Geometry.Scan(string)", func() (geom.Geometry, bool, error) {
				var g geom.Geometry
				err := g.Scan(string(data))
				return g, err == nil, err
			}, true},
			{"NullGeometry.Scan", func() (geom.Geometry, bool, error) {
				var g geom.NullGeometry
				err := g.Scan(data)
				return g.Geometry, err == nil, err
			}, true},
			{"Point.Scan", func() (geom.Geometry, bool, error) {
				var x geom.Point
				err := x.Scan(data)
				return x.AsGeometry(), err == nil, err
			}, true},
			{"LineString.Scan", func() (geom.Geometry, bool, error) {
				var x geom.LineString
				err := x.Scan(data)
				return x.AsGeometry(), err == nil, err
			}, true},
			{"Polygon.Scan", func() (geom.Geometry, bool, error) {
				var x geom.Polygon
				err := x.Scan(data)
				return x.AsGeometry(), err == nil, err
			}, true},
			{"MultiPoint.Scan", func() (geom.Geometry, bool, error) {
				var x geom.MultiPoint
				err := x.Scan(data)
				return x.AsGeometry(), err == nil, err
			}, true},
			{"MultiLineString.Scan", func() (geom.Geometry, bool, error) {
				var x geom.MultiLineString
				err := x.Scan(data)
				return x.AsGeometry(), err == nil, err
			}, true},
			{"MultiPolygon.Scan", func() (geom.Geometry, bool, error) {
				var x geom.MultiPolygon
				err := x.Scan(data)
				return x.AsGeometry(), err == nil, err
			}, true},
			{"GeometryCollection.Scan", func() (geom.Geometry, bool, error) {
				var x geom.GeometryCollection
				err := x.Scan(data)
				return x.AsGeometry(), err == nil, err
			}, true},
		}
		return calls
	case "twkb":
		return []c08Call{
			{"UnmarshalTWKB", func() (geom.Geometry, bool, error) { return asG(geom.UnmarshalTWKB(data)) }, true},
			{"UnmarshalTWKB(NoValidate)", func() (geom.Geometry, bool, error) { return asG(geom.UnmarshalTWKB(data, nv)) }, false},
			{"UnmarshalTWKBSize", func() (geom.Geometry, bool, error) {
				_, _, err := geom.UnmarshalTWKBSize(data)
				return geom.Geometry{}, false, err
			}, false},
			{"UnmarshalTWKBIDList", func() (geom.Geometry, bool, error) {
				_, _, err := geom.UnmarshalTWKBIDList(data)
				return geom.Geometry{}, false, err
			}, false},
			{"UnmarshalTWKBEnvelope", func() (geom.Geometry, bool, error) {
				_, _, err := geom.UnmarshalTWKBEnvelope(data)
				return geom.Geometry{}, false, err
			}, false},
		}
	case "wkt":
		s := string(data)
		return []c08Call{
			{"UnmarshalWKT", func() (geom.Geometry, bool, error) { return asG(geom.UnmarshalWKT(s)) }, true},
			{"UnmarshalWKT(NoValidate)", func() (geom.Geometry, bool, error) { return asG(geom.UnmarshalWKT(s, nv)) }, false},
		}
	case "geojson":
		return []c08Call{
			{"UnmarshalGeoJSON", func() (geom.Geometry, bool, error) { return asG(geom.UnmarshalGeoJSON(data)) }, true},
			{"UnmarshalGeoJSON(NoValidate)", func() (geom.Geometry, bool, error) { return asG(geom.UnmarshalGeoJSON(data, nv)) }, false},
			{"Geometry.UnmarshalJSON", func() (geom.Geometry, bool, error) {
				var g geom.Geometry
				err := g.UnmarshalJSON(data)
				return g, err == nil, err
			}, true},
			{"json.Unmarshal(*Point)", func() (geom.Geometry, bool, error) {
				var x geom.Point
				err := json.Unmarshal(data, &x)
				return x.AsGeometry(), err == nil, err
			}, true},
			{"json.Unmarshal(*LineString)", func() (geom.Geometry, bool, error) {
				var x geom.LineString
				err := json.Unmarshal(data, &x)
				return x.AsGeometry(), err == nil, err
			}, true},
			{"json.Unmarshal(*Polygon)", func() (geom.Geometry, bool, error) {
				var x geom.Polygon
				err := json.Unmarshal(data, &x)
				return x.AsGeometry(), err == nil, err
			}, true},
			{"json.Unmarshal(*MultiPoint)", func() (geom.Geometry, bool, error) {
				var x geom.MultiPoint
				err := json.Unmarshal(data, &x)
				return x.AsGeometry(), err == nil, err
			}, true},
			{"json.Unmarshal(*MultiLineString)", func() (geom.Geometry, bool, error) {
				var x geom.MultiLineString
				err := json.Unmarshal(data, &x)
				return x.AsGeometry(), err == nil, err
			}, true},
			{"json.Unmarshal(*MultiPolygon)", func() (geom.Geometry, bool, error) {
				var x geom.MultiPolygon
				err := json.Unmarshal(data, &x)
				return x.AsGeometry(), err == nil, err
			}, true},
			{"json.Unmarshal(*GeometryCollection)", func() (geom.Geometry, bool, error) {
				var x geom.GeometryCollection
				err := json.Unmarshal(data, &x)
				return x.AsGeometry(), err == nil, err
			}, true},
			{"json.Unmarshal(*GeoJSONFeature)", func() (geom.Geometry, bool, error) {
				var x geom.GeoJSONFeature
				err := json.Unmarshal(data, &x)
				return x.Geometry, err == nil, err
			}, true},
			{"json.Unmarshal(*GeoJSONFeatureCollection)", func() (geom.Geometry, bool, error) {
				var x geom.GeoJSONFeatureCollection
				err := json.Unmarshal(data, &x)
				if err == nil && len(x) > 0 {
					return x[0].Geometry, true, nil
				}
				return geom.Geometry{}, false, err
			}, true},
		}
	}
	return nil
}

// c08Reencode: any geometry a decoder returns can be re-encoded in every format
// without panicking (errors are allowed).
func c08Reencode(g geom.Geometry) {
	_ = g.AsText()
	_ = g.AsBinary()
	_, _ = g.MarshalJSON()
	_, _ = geom.MarshalTWKB(g, 0)
	_, _ = geom.MarshalTWKB(g, 3, geom.TWKBSizeHeader(), geom.TWKBBoundingBoxHeader(), geom.TWKBPrecisionZ(1), geom.TWKBPrecisionM(1))
	_, _ = g.Value()
	_, _ = json.Marshal(geom.GeoJSONFeature{Geometry: g})
}

func c08Check(c C08Case, cx *h.Ctx) *h.Failure {
	data := c.data()
	cx.Class("format=" + c.Format)
	if c.Fault != "" {
		cx.Class("fault=" + c.Fault)
	}
	budget := uint64(c08AllocBase + c08AllocPerByte*len(data))
	accepted := false
	for _, call := range c08Calls(c.Format, data) {
		var g geom.Geometry
		var has bool
		var err error
		var pan interface{}
		var stack string
		before := allocBytes()
		func() {
			defer func() {
				if r := recover(); r != nil {
					pan, stack = r, string(debug.Stack())
				}
			}()
			g, has, err = call.run()
		}()
		used := allocBytes() - before
		if pan != nil {
			return h.Failf("decoder/panic:"+c08Site(stack), "%s panics on %d bytes of %s input: %v\ninput hex: %s\n%s", call.name, len(data), c.Format, pan, clip(c.Hex, 400), c08Trim(stack))
		}
		cx.Max("max_alloc_bytes_per_input_byte_"+c.Format, float64(used)/float64(len(data)+1))
		if used > budget {
			// The cheap counter is flushed per size class and can attribute up to a
			// few MB of earlier small allocations to this call: confirm with the
			// precise (stop-the-world) counter on a second, identical call.
			var ms1, ms2 runtime.MemStats
			runtime.ReadMemStats(&ms1)
			func() {
				defer func() { recover() }()
				call.run()
			}()
			runtime.ReadMemStats(&ms2)
			used = ms2.TotalAlloc - ms1.TotalAlloc
			cx.Count("alloc_candidates_rechecked_precisely", 1)
		}
		if used > budget {
			return h.Failf("decoder/alloc-out-of-proportion", "%s allocated %d bytes for %d bytes of %s input (budget %d)\ninput hex: %s", call.name, used, len(data), c.Format, budget, clip(c.Hex, 400))
		}
		if err != nil && has {
			return h.Failf("decoder/error-and-geometry", "%s returned both an error and a geometry", call.name)
		}
		if err == nil && has {
			accepted = true
			if call.validated {
				var verr error
				func() {
					defer func() {
						if r := recover(); r != nil {
							pan, stack = r, string(debug.Stack())
						}
					}()
					verr = g.Validate()
				}()
				if pan != nil {
					return h.Failf("decoder/validate-panic:"+c08Site(stack), "Validate panics on a geometry returned by %s: %v\ninput hex: %s", call.name, pan, clip(c.Hex, 400))
				}
				if verr != nil {
					return h.Failf("decoder/returned-invalid", "%s (validating) returned a geometry that fails Validate: %v\ninput hex: %s", call.name, verr, clip(c.Hex, 400))
				}
				// ... and stays valid when the caller reuses the input buffer afterwards (the same entry point
				// on a private copy of the input, which is then overwritten)
				scratch := append([]byte(nil), data...)
				for _, again := range c08Calls(c.Format, scratch) {
					if again.name != call.name {
						continue
					}
					var g2 geom.Geometry
					var has2 bool
					func() {
						defer func() { recover() }()
						g2, has2, _ = again.run()
					}()
					for i := range scratch {
						scratch[i] = 0xFF
					}
					if has2 {
						var verr2 error
						func() {
							defer func() {
								if r := recover(); r != nil {
									verr2 = fmt.Errorf("panic: %v", r)
								}
							}()
							verr2 = g2.Validate()
						}()
						if verr2 != nil {
							return h.Failf("decoder/result-aliases-input", "the geometry returned by %s fails Validate (%v) once the input buffer has been overwritten: it aliases its input\ninput hex: %s", call.name, verr2, clip(c.Hex, 400))
						}
					}
				}
			}
			func() {
				defer func() {
					if r := recover(); r != nil {
						pan, stack = r, string(debug.Stack())
					}
				}()
				c08Reencode(g)
			}()
			if pan != nil {
				return h.Failf("decoder/reencode-panic:"+c08Site(stack), "re-encoding the geometry returned by %s panics: %v\ninput hex: %s\n%s", call.name, pan, clip(c.Hex, 400), c08Trim(stack))
			}
		}
	}
	if accepted {
		cx.Class("outcome=accepted")
	} else {
		cx.Class("outcome=rejected")
	}
	if c08StructurallyPlausible(c.Format, data) {
		cx.NonTrivial()
	}
	cx.Sample(map[string]interface{}{"format": c.Format, "fault": c.Fault, "hex": clip(c.Hex, 160), "accepted": accepted})
	return nil
}

func c08Site(st string) string {
	lines := strings.Split(st, "\n")
	seen := false
	for _, l := range lines {
		if strings.HasPrefix(l, "panic(") {
			seen = true
			continue
		}
		if seen && strings.Contains(l, "simplefeatures/") && !strings.HasPrefix(l, "\t") {
			l = l[strings.Index(l, "simplefeatures/")+len("simplefeatures/"):]
			if i := strings.LastIndex(l, "("); i > 0 {
				l = l[:i]
			}
			return l
		}
	}
	return "unknown"
}

func c08Trim(st string) string {
	l := strings.Split(st, "\n")
	if len(l) > 24 {
		l = l[:24]
	}
	return strings.Join(l, "\n")
}

// non-trivial: the input passes the decoder's first structural check
func c08StructurallyPlausible(format string, d []byte) bool {
	switch format {
	case "wkb":
		if len(d) < 5 || d[0] > 1 {
			return false
		}
		var code uint32
		if d[0] == 0 {
			code = binary.BigEndian.Uint32(d[1:])
		} else {
			code = binary.LittleEndian.Uint32(d[1:])
		}
		return code%1000 >= 1 && code%1000 <= 7 && code/1000 <= 3
	case "twkb":
		return len(d) >= 2 && d[0]&0x0f >= 1 && d[0]&0x0f <= 7
	case "wkt":
		toks, err := codec.TokenizeWKT(string(d))
		if err != nil || len(toks) == 0 || toks[0].Kind != "id" {
			return false
		}
		switch strings.ToUpper(toks[0].Text) {
		case "POINT", "LINESTRING", "POLYGON", "MULTIPOINT", "MULTILINESTRING", "MULTIPOLYGON", "GEOMETRYCOLLECTION":
			return true
		}
		return false
	case "geojson":
		var top map[string]json.RawMessage
		if json.Unmarshal(d, &top) != nil {
			return false
		}
		_, ok := top["type"]
		return ok
	}
	return false
}

// ---------------- corpus ----------------

type c08Seed struct {
	format string
	data   []byte
	fields []codec.WKBField // wkb only
	name   string
}

func c08Models() []gm.G {
	var out []gm.G
	for ct := 0; ct < 4; ct++ {
		d := gm.Dim(ct)
		pos := func(x, y float64) []gm.F {
			p := []gm.F{gm.F(x), gm.F(y)}
			for i := 2; i < d; i++ {
				p = append(p, gm.F(float64(i)+0.5))
			}
			return p
		}
		cat := func(ps ...[]gm.F) []gm.F {
			var o []gm.F
			for _, p := range ps {
				o = append(o, p...)
			}
			return o
		}
		pt := gm.G{T: gm.Point, CT: ct, Co: pos(1, 2)}
		ept := gm.G{T: gm.Point, CT: ct}
		ls := gm.G{T: gm.LineString, CT: ct, Co: cat(pos(0, 0), pos(1, 1), pos(2, 0))}
		els := gm.G{T: gm.LineString, CT: ct}
		poly := gm.G{T: gm.Polygon, CT: ct, Rings: [][]gm.F{cat(pos(0, 0), pos(10, 0), pos(10, 10), pos(0, 10), pos(0, 0)), cat(pos(2, 2), pos(2, 4), pos(4, 4), pos(4, 2), pos(2, 2))}}
		epoly := gm.G{T: gm.Polygon, CT: ct}
		poly2 := gm.G{T: gm.Polygon, CT: ct, Rings: [][]gm.F{cat(pos(20, 0), pos(30, 0), pos(30, 10), pos(20, 0))}}
		mp := gm.G{T: gm.MultiPoint, CT: ct, Mem: []gm.G{pt, {T: gm.Point, CT: ct, Co: pos(3, 4)}}}
		mpe := gm.G{T: gm.MultiPoint, CT: ct, Mem: []gm.G{ept, pt}}
		emp := gm.G{T: gm.MultiPoint, CT: ct}
		mls := gm.G{T: gm.MultiLineString, CT: ct, Mem: []gm.G{ls, els, {T: gm.LineString, CT: ct, Co: cat(pos(5, 5), pos(6, 7))}}}
		emls := gm.G{T: gm.MultiLineString, CT: ct}
		mpoly := gm.G{T: gm.MultiPolygon, CT: ct, Mem: []gm.G{poly, poly2}}
		mpolye := gm.G{T: gm.MultiPolygon, CT: ct, Mem: []gm.G{epoly, poly2}}
		empoly := gm.G{T: gm.MultiPolygon, CT: ct}
		egc := gm.G{T: gm.GeometryCollection, CT: ct}
		gc := gm.G{T: gm.GeometryCollection, CT: ct, Mem: []gm.G{pt, ls, poly2}}
		gcn := gm.G{T: gm.GeometryCollection, CT: ct, Mem: []gm.G{mp, gm.G{T: gm.GeometryCollection, CT: ct, Mem: []gm.G{ept, mls, egc}}, mpoly}}
		out = append(out, pt, ept, ls, els, poly, epoly, mp, mpe, emp, mls, emls, mpoly, mpolye, empoly, egc, gc, gcn)
	}
	return out
}

var c08CorpusCache []c08Seed

func c08Corpus() []c08Seed {
	if c08CorpusCache != nil {
		return c08CorpusCache
	}
	var out []c08Seed
	for i, m := range c08Models() {
		name := fmt.Sprintf("m%d:%s:%s", i, m.T, gm.CTName(m.CT))
		for oi, orders := range [][]bool{nil, {true}, {false, true, true, false}} {
			w := &codec.WKBWriter{Orders: orders}
			w.Write(m)
			out = append(out, c08Seed{format: "wkb", data: w.Buf, fields: w.Fields, name: fmt.Sprintf("%s:order%d", name, oi)})
		}
		g := m.ToGeom()
		out = append(out, c08Seed{format: "wkt", data: []byte(g.AsText()), name: name})
		if m.CT&2 == 0 { // M is not expressible
			if b, err := g.MarshalJSON(); err == nil {
				out = append(out, c08Seed{format: "geojson", data: b, name: name})
				fb, _ := json.Marshal(geom.GeoJSONFeature{Geometry: g, ID: "id1", Properties: map[string]interface{}{"a": 1.5}, ForeignMembers: map[string]interface{}{"x": []interface{}{1.0, "y"}}})
				out = append(out, c08Seed{format: "geojson", data: fb, name: name + ":feature"})
				if i%5 == 0 {
					fc, _ := json.Marshal(geom.GeoJSONFeatureCollection{{Geometry: g}, {Geometry: g, ID: 7.0}})
					out = append(out, c08Seed{format: "geojson", data: fc, name: name + ":fc"})
				}
			}
		}
		for oi := 0; oi < 4; oi++ {
			var opts []geom.TWKBWriterOption
			if oi&1 != 0 {
				opts = append(opts, geom.TWKBSizeHeader())
			}
			if oi&2 != 0 {
				opts = append(opts, geom.TWKBBoundingBoxHeader())
			}
			if oi == 3 && len(m.Mem) > 0 && !m.IsEmpty() {
				ids := make([]int64, len(m.Mem))
				for k := range ids {
					ids[k] = int64(100 + k)
				}
				opts = append(opts, geom.TWKBIDList(ids))
			}
			if oi == 2 {
				opts = append(opts, geom.TWKBCloseRings())
			}
			if b, err := geom.MarshalTWKB(g, 1, append(opts, geom.TWKBPrecisionZ(1), geom.TWKBPrecisionM(2))...); err == nil {
				out = append(out, c08Seed{format: "twkb", data: b, name: fmt.Sprintf("%s:opt%d", name, oi)})
			}
		}
	}
	// hand-written GeoJSON with 2- and 3-element positions mixed inside one document (it decodes as 2D): the
	// dimensionality decision is global, so a single edit elsewhere (a short or over-long position in a later
	// member) meets a decoder that has already seen both lengths
	for i, doc := range []string{
		`{"type":"GeometryCollection","geometries":[{"type":"Point","coordinates":[1,2]},{"type":"Point","coordinates":[1,2,3]},{"type":"LineString","coordinates":[[1,2],[3,4,5]]},{"type":"MultiPoint","coordinates":[[0,0],[1,1,1]]},{"type":"GeometryCollection","geometries":[{"type":"Polygon","coordinates":[[[0,0,1],[1,0],[1,1,1],[0,0]]]},{"type":"Point","coordinates":[5,6]}]}]}`,
		`{"type":"MultiLineString","coordinates":[[[0,0,0],[1,1,1]],[[2,2],[3,3]],[[4,4,4],[5,5]]]}`,
		`{"type":"MultiPolygon","coordinates":[[[[0,0],[1,0],[1,1],[0,0]]],[[[5,5,1],[6,5,1],[6,6,1],[5,5,1]]],[[[8,8],[9,8,2],[9,9],[8,8]]]]}`,
		`{"type":"Feature","geometry":{"type":"GeometryCollection","geometries":[{"type":"Point","coordinates":[1,2,3]},{"type":"Point","coordinates":[1,2]},{"type":"MultiPoint","coordinates":[[7,7],[8,8]]}]},"properties":{}}`,
	} {
		out = append(out, c08Seed{format: "geojson", data: []byte(doc), name: fmt.Sprintf("mixed-dimensions-%d", i)})
	}
	c08CorpusCache = out
	return out
}

func uvarint(v uint64) []byte {
	var buf [binary.MaxVarintLen64]byte
	n := binary.PutUvarint(buf[:], v)
	return buf[:n]
}

func splice(d []byte, off, n int, repl []byte) []byte {
	out := make([]byte, 0, len(d)-n+len(repl))
	out = append(out, d[:off]...)
	out = append(out, repl...)
	return append(out, d[off+n:]...)
}

var c08HostileNumerals = []string{"1e999", "-1e999", "0x1p3", "1_0", "1e", "NaN", "Inf", "-", "1e-999", ".", "1.", ".5", "00", "1" + strings.Repeat("0", 400), "0." + strings.Repeat("0", 400) + "1", "1e+", "0b1", "0o7", "0x", "١"}

// c08Enumerate yields the complete, stated corruption set over the corpus.
func c08Enumerate(cx *h.Ctx, yield func(C08Case)) []string {
	emit := func(format string, d []byte, fault string) {
		if len(d) > 65536 {
			d = d[:65536]
		}
		yield(C08Case{Format: format, Hex: hex.EncodeToString(d), Fault: fault})
	}
	boundary := []byte{0, 1, 0x7f, 0x80, 0xff}
	counts := []uint32{0, 1, 1<<31 - 1, 1 << 31, 1<<32 - 1, 0x0fffffff, 0x01000000, 0x00100000}
	for _, s := range c08Corpus() {
		d := s.data
		emit(s.format, d, "valid")
		// every truncation
		for n := 0; n < len(d); n++ {
			emit(s.format, d[:n], "truncation")
		}
		switch s.format {
		case "wkb":
			isField := map[int]bool{}
			for _, f := range s.fields {
				for k := 0; k < f.Len; k++ {
					isField[f.Off+k] = true
				}
			}
			for i := range d {
				if isField[i] {
					for v := 0; v < 256; v++ {
						if byte(v) != d[i] {
							emit("wkb", splice(d, i, 1, []byte{byte(v)}), "byte-substitution-header")
						}
					}
				} else {
					for _, v := range boundary {
						if v != d[i] {
							emit("wkb", splice(d, i, 1, []byte{v}), "byte-substitution-body")
						}
					}
				}
			}
			for _, f := range s.fields {
				if f.Kind != "count" && f.Kind != "type" {
					continue
				}
				for _, c := range counts {
					var b [4]byte
					binary.LittleEndian.PutUint32(b[:], c)
					emit("wkb", splice(d, f.Off, 4, b[:]), "count-overwrite-le")
					binary.BigEndian.PutUint32(b[:], c)
					emit("wkb", splice(d, f.Off, 4, b[:]), "count-overwrite-be")
				}
			}
		case "twkb":
			for i := range d {
				for v := 0; v < 256; v++ {
					if byte(v) != d[i] {
						emit("twkb", splice(d, i, 1, []byte{byte(v)}), "byte-substitution")
					}
				}
			}
			// varint fields: every byte that starts a varint (previous byte has no continuation bit), after the 2 header bytes
			for i := 2; i < len(d); i++ {
				if d[i-1]&0x80 != 0 && i > 2 {
					continue
				}
				n := 1
				for i+n-1 < len(d) && d[i+n-1]&0x80 != 0 {
					n++
				}
				if i+n > len(d) {
					n = len(d) - i
				}
				for k := 0; k < 64; k++ {
					emit("twkb", splice(d, i, n, uvarint(1<<uint(k))), "varint-overwrite")
				}
				emit("twkb", splice(d, i, n, uvarint(1<<64-1)), "varint-overwrite")
				emit("twkb", splice(d, i, n, uvarint(1<<63-1)), "varint-overwrite")
				emit("twkb", splice(d, i, n, []byte{0xff, 0xff, 0xff, 0xff, 0xff, 0xff, 0xff, 0xff, 0xff, 0xff, 0x01}), "varint-overlong")
			}
		case "wkt":
			for i := range d {
				for _, v := range boundary {
					if v != d[i] {
						emit("wkt", splice(d, i, 1, []byte{v}), "byte-substitution")
					}
				}
			}
			toks, err := codec.TokenizeWKT(string(d))
			if err != nil {
				break
			}
			join := func(ts []codec.WKTTok) []byte { return []byte(codec.JoinWKT(ts, []string{" "})) }
			for i := range toks {
				del := append(append([]codec.WKTTok(nil), toks[:i]...), toks[i+1:]...)
				emit("wkt", join(del), "token-deletion")
				dup := append(append(append([]codec.WKTTok(nil), toks[:i+1]...), toks[i]), toks[i+1:]...)
				emit("wkt", join(dup), "token-duplication")
				if i+1 < len(toks) {
					sw := append([]codec.WKTTok(nil), toks...)
					sw[i], sw[i+1] = sw[i+1], sw[i]
					emit("wkt", join(sw), "token-swap")
				}
				if toks[i].Kind == "num" {
					for _, hn := range c08HostileNumerals {
						r := append([]codec.WKTTok(nil), toks...)
						r[i] = codec.WKTTok{Kind: "num", Text: hn}
						emit("wkt", join(r), "numeral-replacement")
					}
				}
			}
		case "geojson":
			for i := range d {
				for _, v := range boundary {
					if v != d[i] {
						emit("geojson", splice(d, i, 1, []byte{v}), "byte-substitution")
					}
				}
			}
			var doc interface{}
			if json.Unmarshal(d, &doc) != nil {
				break
			}
			deep := strings.Repeat("[", 10001) + strings.Repeat("]", 10001)
			repls := []string{`null`, `7`, `"x"`, `[]`, `{}`, `[[]]`, `true`, `[1]`, `[1,"2"]`, `[[1,2],[3]]`, `1e999`, deep, `{"type":"Point","coordinates":[1,2]}`, `"Point"`, `"GeometryCollection"`}
			var paths [][]interface{}
			var walk func(v interface{}, p []interface{})
			walk = func(v interface{}, p []interface{}) {
				paths = append(paths, append([]interface{}(nil), p...))
				switch x := v.(type) {
				case map[string]interface{}:
					for k, c := range x {
						walk(c, append(p, k))
					}
				case []interface{}:
					for i, c := range x {
						if i > 6 {
							break
						}
						walk(c, append(p, i))
					}
				}
			}
			walk(doc, nil)
			// deterministic order
			sortPaths(paths)
			for _, p := range paths {
				for _, r := range repls {
					emit("geojson", c08JSONReplace(doc, p, json.RawMessage(r), false), "structural-edit")
				}
				if len(p) > 0 {
					emit("geojson", c08JSONReplace(doc, p, nil, true), "member-deletion")
				}
			}
		}
	}
	return []string{
		"corpus of valid encodings (17 shapes x 4 coordinate types; WKB in 3 byte-order patterns, TWKB with 4 header option sets, WKT, GeoJSON + Feature + FeatureCollection): every truncation",
		"WKB: all 256 values at every byte-order/type/count byte, {0,1,0x7f,0x80,0xff} elsewhere; every type/count field overwritten with 0,1,2^31-1,2^31,2^32-1,0x0fffffff,2^24,2^20 in both byte orders",
		"TWKB: all 256 values at every byte; every varint overwritten with 2^k (k=0..63), 2^63-1, 2^64-1 and an 11-byte overlong varint",
		"WKT: boundary byte substitutions; every single token deleted, duplicated, swapped with its neighbour; every numeral replaced by 20 hostile numerals",
		"GeoJSON: boundary byte substitutions; every node replaced by each of 15 values (null, scalars, wrong depth, 10001-deep array, nested geometry); every member/element deleted",
	}
}

func sortPaths(paths [][]interface{}) {
	key := func(p []interface{}) string { return fmt.Sprint(p...) + fmt.Sprint(len(p)) }
	for i := 1; i < len(paths); i++ {
		for j := i; j > 0 && key(paths[j]) < key(paths[j-1]); j-- {
			paths[j], paths[j-1] = paths[j-1], paths[j]
		}
	}
}

// c08JSONReplace returns the document with the node at path replaced (or deleted).
func c08JSONReplace(doc interface{}, path []interface{}, repl json.RawMessage, del bool) []byte {
	var rec func(v interface{}, p []interface{}) interface{}
	rec = func(v interface{}, p []interface{}) interface{} {
		if len(p) == 0 {
			return repl
		}
		switch x := v.(type) {
		case map[string]interface{}:
			out := map[string]interface{}{}
			for k, c := range x {
				if k == p[0] {
					if len(p) == 1 && del {
						continue
					}
					out[k] = rec(c, p[1:])
				} else {
					out[k] = c
				}
			}
			return out
		case []interface{}:
			var out []interface{}
			for i, c := range x {
				if i == p[0] {
					if len(p) == 1 && del {
						continue
					}
					out = append(out, rec(c, p[1:]))
				} else {
					out = append(out, c)
				}
			}
			if out == nil {
				out = []interface{}{}
			}
			return out
		}
		return v
	}
	b, _ := json.Marshal(rec(doc, path))
	return b
}

// ---------------- random search ----------------

func c08Gen(t *rapid.T, cx *h.Ctx) C08Case {
	format := rapid.SampledFrom([]string{"wkb", "twkb", "wkt", "geojson"}).Draw(t, "format")
	mode := rapid.IntRange(0, 5).Draw(t, "mode")
	var data []byte
	fault := ""
	corpus := c08Corpus()
	pick := func() c08Seed {
		for {
			s := corpus[rapid.IntRange(0, len(corpus)-1).Draw(t, "seed")]
			if s.format == format {
				return s
			}
		}
	}
	switch mode {
	case 0: // arbitrary bytes
		n := rapid.IntRange(0, 96).Draw(t, "n")
		if rapid.IntRange(0, 30).Draw(t, "big") == 0 {
			n = rapid.IntRange(1000, 65536).Draw(t, "nbig")
		}
		data = rapid.SliceOfN(rapid.Byte(), n, n).Draw(t, "bytes")
		fault = "random-bytes"
	case 1: // plausible header then arbitrary bytes
		tail := rapid.SliceOfN(rapid.Byte(), 0, 80).Draw(t, "tail")
		switch format {
		case "wkb":
			bo := byte(rapid.IntRange(0, 1).Draw(t, "bo"))
			code := uint32(rapid.IntRange(1, 7).Draw(t, "gt") + 1000*rapid.IntRange(0, 3).Draw(t, "ctc"))
			var b [4]byte
			if bo == 0 {
				binary.BigEndian.PutUint32(b[:], code)
			} else {
				binary.LittleEndian.PutUint32(b[:], code)
			}
			data = append(append([]byte{bo}, b[:]...), tail...)
		case "twkb":
			data = append([]byte{byte(rapid.IntRange(1, 7).Draw(t, "gt")) | byte(rapid.IntRange(0, 15).Draw(t, "prec"))<<4, byte(rapid.IntRange(0, 31).Draw(t, "meta"))}, tail...)
		case "wkt":
			kw := rapid.SampledFrom([]string{"POINT", "LINESTRING", "POLYGON", "MULTIPOINT", "MULTILINESTRING", "MULTIPOLYGON", "GEOMETRYCOLLECTION"}).Draw(t, "kw")
			alphabet := []string{"(", ")", ",", " ", "1", "-2.5", "EMPTY", "Z", "M", "ZM", "POINT", "1e3", "((", "))", "0 0", "1 1", "GEOMETRYCOLLECTION", "LINESTRING"}
			parts := rapid.SliceOfN(rapid.SampledFrom(alphabet), 0, 30).Draw(t, "parts")
			data = []byte(kw + " " + strings.Join(parts, " "))
		default:
			ty := rapid.SampledFrom([]string{"Point", "LineString", "Polygon", "MultiPoint", "MultiLineString", "MultiPolygon", "GeometryCollection", "Feature", "FeatureCollection"}).Draw(t, "ty")
			frag := []string{"[", "]", "1", "2.5", ",", "null", "{}", "[]", "[1,2]", "[1,2,3]", "\"x\"", "[[1,2],[3,4]]", "[[[0,0],[1,0],[1,1],[0,0]]]"}
			parts := rapid.SliceOfN(rapid.SampledFrom(frag), 0, 12).Draw(t, "frag")
			key := rapid.SampledFrom([]string{"coordinates", "geometries", "geometry", "features"}).Draw(t, "key")
			data = []byte(`{"type":"` + ty + `","` + key + `":` + strings.Join(parts, "") + `}`)
		}
		fault = "plausible-header+random"
	case 2, 3: // multi-edit of a corpus entry
		s := pick()
		data = append([]byte(nil), s.data...)
		ne := rapid.IntRange(1, 4).Draw(t, "nedits")
		for e := 0; e < ne && len(data) > 0; e++ {
			i := rapid.IntRange(0, len(data)-1).Draw(t, "pos")
			switch rapid.IntRange(0, 3).Draw(t, "edit") {
			case 0:
				data[i] = rapid.Byte().Draw(t, "val")
			case 1:
				data = splice(data, i, 1, nil)
			case 2:
				data = splice(data, i, 0, rapid.SliceOfN(rapid.Byte(), 1, 4).Draw(t, "ins"))
			default:
				j := rapid.IntRange(i, len(data)).Draw(t, "end")
				chunk := append([]byte(nil), data[i:j]...)
				data = splice(data, i, 0, chunk)
			}
		}
		fault = "corpus-multi-edit"
	case 4: // generated valid structure, encoded, then one field overwritten
		g := gen.Structure(t, gen.Opts{CT: -1, XY: gen.FiniteFloat, ZM: gen.AnyFloat})
		switch format {
		case "wkb":
			w := &codec.WKBWriter{Orders: rapid.SliceOfN(rapid.Bool(), 1, 4).Draw(t, "orders")}
			w.Write(g)
			data = w.Buf
			if len(w.Fields) > 0 && rapid.Bool().Draw(t, "overwrite") {
				f := w.Fields[rapid.IntRange(0, len(w.Fields)-1).Draw(t, "field")]
				if f.Len == 4 {
					var b [4]byte
					v := rapid.SampledFrom([]uint32{0, 1, 2, 3, 1 << 20, 1 << 24, 1 << 28, 1<<31 - 1, 1 << 31, 1<<32 - 1}).Draw(t, "cnt")
					if f.BE {
						binary.BigEndian.PutUint32(b[:], v)
					} else {
						binary.LittleEndian.PutUint32(b[:], v)
					}
					data = splice(data, f.Off, 4, b[:])
				}
			}
		case "wkt":
			data = []byte(g.ToGeom().AsText())
		case "geojson":
			data, _ = g.ToGeom().MarshalJSON()
		default:
			data, _ = geom.MarshalTWKB(g.ToGeom(), rapid.IntRange(-8, 7).Draw(t, "p"), geom.TWKBPrecisionZ(1), geom.TWKBPrecisionM(1))
		}
		fault = "generated-structure"
	default: // concatenations / repetitions of corpus entries (deep and wide inputs)
		s := pick()
		rep := rapid.IntRange(2, 40).Draw(t, "rep")
		switch format {
		case "wkt":
			inner := string(s.data)
			for i := 0; i < rep; i++ {
				inner = "GEOMETRYCOLLECTION(" + inner + ")"
			}
			data = []byte(inner)
		case "geojson":
			inner := string(s.data)
			for i := 0; i < rep; i++ {
				inner = `{"type":"GeometryCollection","geometries":[` + inner + `]}`
			}
			data = []byte(inner)
		case "wkb":
			if rapid.Bool().Draw(t, "greedynest") {
				// collections nested as deep as the length allows, every level claiming as many members as the bytes
				// after its header could hold: each count passes a per-level plausibility check, the sum must not
				// become quadratic
				total := rapid.SampledFrom([]int{900, 9000, 30000, 65529}).Draw(t, "greedylen")
				div := rapid.SampledFrom([]int{5, 9, 21, 100}).Draw(t, "greedydiv")
				var buf []byte
				for len(buf)+9 <= total {
					rem := total - len(buf) - 9
					buf = append(buf, 1, 7, 0, 0, 0)
					buf = binary.LittleEndian.AppendUint32(buf, uint32(rem/div))
				}
				data = append(buf, make([]byte, total-len(buf))...)
			} else {
				data = bytes.Repeat(s.data, rep)
			}
		case "twkb":
			if rapid.Bool().Draw(t, "greedynest") {
				total := rapid.SampledFrom([]int{900, 9000, 30000, 65529}).Draw(t, "greedylen")
				var buf []byte
				for len(buf)+4 <= total {
					rem := total - len(buf) - 4
					buf = append(buf, 0x07, 0x00)
					buf = binary.AppendUvarint(buf, uint64(rem/2))
				}
				data = append(buf, make([]byte, total-len(buf))...)
			} else {
				data = bytes.Repeat(s.data, rep)
			}
		default:
			data = bytes.Repeat(s.data, rep)
		}
		fault = "nesting/repetition"
	}
	if len(data) > 65536 {
		data = data[:65536]
	}
	return C08Case{Format: format, Hex: hex.EncodeToString(data), Fault: fault}
}

func TestC08(t *testing.T) {
	p := h.Prop[C08Case]{
		ID:              "C08",
		WholeCheckLimit: 300 * time.Second,
		Rule:            "fault enumeration + search. Enumerated (complete in the thorough tier, every 7th case in quick): every truncation, byte substitution (all 256 values at header/count/type bytes, boundary values elsewhere), count/varint overwrite, WKT token edit and hostile numeral, GeoJSON structural edit over a corpus of valid encodings of 17 shapes x 4 coordinate types in WKB (3 byte-order patterns), TWKB (4 header sets), WKT, GeoJSON(+Feature, FeatureCollection). Random (rapid): arbitrary bytes up to 64 KiB, plausible header + random tail, multi-edits of corpus entries, generated structures with one count overwritten, deep nesting/repetition. Each input goes through every decoder entry point of its format (validating and NoValidate, Scan/UnmarshalJSON adapters, TWKB header readers): no panic, no process death (the shard runs under ulimit -v and journals the in-flight input), heap allocation <= 1 MiB + 2048 x len(input) per call, validating decoders return only geometries that pass Validate, every returned geometry re-encodes in WKT/WKB/GeoJSON/TWKB without panic. non-trivial = the input passes the decoder's first structural check (byte order + type code / type nibble / leading keyword / JSON object with a type member)",
		Assumptions:     []string{"allocation is measured with runtime/metrics /gc/heap/allocs:bytes (single-threaded shard) and every over-budget candidate is re-measured with runtime.ReadMemStats on an identical second call; the cheap counter may under-report up to ~2 MB of small allocations", "process death is detected by the driver from the shard's exit status and the in-flight journal", "slow inputs are not violations (C08 has no time clause)"},
		Gen:             c08Gen,
		Check:           c08Check,
		Enumerate: func(cx *h.Ctx, yield func(C08Case)) []string {
			for _, sd := range c08DegenerateSeeds() {
				yield(C08Case{Format: sd.format, Hex: hex.EncodeToString(sd.data), Fault: "valid-syntax-invalid-geometry"})
			}
			if cx.Thorough {
				return c08Enumerate(cx, yield)
			}
			i := 0
			names := c08Enumerate(cx, func(c C08Case) {
				i++
				if i%7 == int(cx.Seed%7+7)%7 {
					yield(c)
				}
			})
			for k := range names {
				names[k] = "[quick: deterministic 1/7 subsample, offset VERIF_SEED mod 7] " + names[k]
			}
			return names
		},
	}
	h.Run(t, p)
}

// c08DegenerateSeeds: well-formed encodings of geometries that are invalid only in XY - positions that differ in Z or M
// alone (a line with one distinct XY point, a ring collapsed onto a point or a segment). A validating decoder must
// not hand them out. Run in both tiers, unedited.
func c08DegenerateSeeds() []c08Seed {
	var out []c08Seed
	for i, w := range []string{
		"LINESTRING Z (1 2 3,1 2 4)", "LINESTRING M (1 2 3,1 2 4)", "LINESTRING ZM (1 2 3 4,1 2 5 6)", "LINESTRING Z (1 2 3,1 2 4,1 2 5)",
		"MULTILINESTRING Z ((0 0 0,5 5 5),(1 2 3,1 2 4))", "MULTILINESTRING M (EMPTY,(1 2 3,1 2 4))",
		"GEOMETRYCOLLECTION Z (POINT Z (0 0 0),LINESTRING Z (1 2 3,1 2 4))",
		"GEOMETRYCOLLECTION ZM (GEOMETRYCOLLECTION ZM (MULTILINESTRING ZM ((1 2 3 4,1 2 5 6))))",
		"POLYGON Z ((0 0 1,0 0 2,0 0 3,0 0 1))", "POLYGON Z ((0 0 1,4 0 2,0 0 3,0 0 1))",
		"MULTIPOLYGON M (((0 0 1,4 0 1,0 4 1,0 0 1)),((9 9 1,9 9 2,9 9 3,9 9 1)))",
	} {
		g, err := geom.UnmarshalWKT(w, geom.NoValidate{})
		if err != nil {
			panic("c08DegenerateSeeds: " + err.Error())
		}
		name := fmt.Sprintf("degenerate-xy-%d", i)
		out = append(out, c08Seed{format: "wkt", data: []byte(w), name: name}, c08Seed{format: "wkb", data: g.AsBinary(), name: name})
		if g.CoordinatesType() == geom.DimXYZ {
			if b, err := g.MarshalJSON(); err == nil {
				out = append(out, c08Seed{format: "geojson", data: b, name: name})
			}
		}
		if b, err := geom.MarshalTWKB(g, 0, geom.TWKBPrecisionZ(0), geom.TWKBPrecisionM(0), geom.TWKBCloseRings()); err == nil {
			out = append(out, c08Seed{format: "twkb", data: b, name: name})
		}
	}
	return out
}

module verif

go 1.23

require (
	github.com/peterstace/simplefeatures v0.0.0
	pgregory.net/rapid v1.3.0
)

replace github.com/peterstace/simplefeatures => /repo

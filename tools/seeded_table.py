#!/usr/bin/env python3
"""Regenerates the seeded-change table of DESIGN.md (between the SEEDED-TABLE markers) from seeded/*/meta.json."""
import json, glob, os, re
root = os.path.dirname(os.path.dirname(os.path.abspath(__file__)))
rows = []
def key(d):
    b = os.path.basename(d); p, n = b.split('-'); return (p, int(n))
for d in sorted(glob.glob(root + '/seeded/C*-*'), key=key):
    m = json.load(open(d + '/meta.json'))
    vr = m.get('verif_result') or {}
    title = (m.get('title') or '').replace('|', '/')
    if len(title) > 110: title = title[:110]
    # agents that reused the property title: fall back to the first sentence of what_it_breaks
    wb = (m.get('what_it_breaks') or '').replace('|', '/').replace('\n', ' ')
    cls = vr.get('failure_class') or ''
    det = 'yes' if vr.get('detected') else 'NO'
    if vr.get('detected') and vr.get('detected_by_quick') is False:
        det = 'no - thorough only'
    if vr.get('history') or 'strengthened' in (vr.get('note') or ''): det += ' (after strengthening)'
    sid0 = os.path.basename(d).split('-')[0]
    if vr.get('detected') and vr.get('check') and sid0 not in vr['check']:
        det = 'by the sibling check ' + vr['check'].replace('./check ', '')
    rows.append((os.path.basename(d), title, wb, cls, det, vr.get('seconds')))
props = {json.loads(l)['id']: json.loads(l)['title'] for l in open(root + '/properties.jsonl')}
out = ['| id | change | failure class reported | detected by quick | time |', '|---|---|---|---|---|']
for sid, title, wb, cls, det, sec in rows:
    if title == props.get(sid.split('-')[0], '')[:110] and wb:
        title = wb[:110]
    out.append('| %s | %s | %s | %s | %ss |' % (sid, title, cls[:70], det, sec))
table = '\n'.join(out)
p = root + '/DESIGN.md'
s = open(p).read()
s2 = re.sub(r'<!-- SEEDED-TABLE-BEGIN -->.*?<!-- SEEDED-TABLE-END -->', '<!-- SEEDED-TABLE-BEGIN -->\n' + table + '\n<!-- SEEDED-TABLE-END -->', s, flags=re.S)
open(p, 'w').write(s2)
print(len(rows), 'rows;', sum(1 for r in rows if r[4].startswith('NO')), 'undetected;', sum(1 for r in rows if r[4].startswith('no - thorough')), 'thorough only')

#!/opt/veriftools/pyvenv/bin/python
import json,jsonschema,sys,glob
jsonschema.validate(json.load(open('/verif/MANIFEST.json')), json.load(open('/root/.vp/MANIFEST.schema.json')))
print("manifest ok")
es=json.load(open('/root/.vp/EVIDENCE.schema.json'))
for f in sorted(glob.glob('/verif/evidence/C*.json')):
    jsonschema.validate(json.load(open(f)), es); print("evidence ok", f)
ps=json.load(open('/root/.vp/PROPERTIES.schema.json'))

#!/bin/bash
# Runs every check of a tier sequentially; prints a one-line verdict per property; full output in logs/<ID>.<tier>.log
TIER="${1:-quick}"; shift
IDS="${@:-C01 C02 C03 C04 C05 C06 C07 C08 C09 C10 C11 C12 C13 C14 C15 C16 C17 C18 C19 C20}"
cd "$(dirname "$0")/.."
mkdir -p logs
for id in $IDS; do
  s=$(date +%s)
  ./check $id $TIER > logs/$id.$TIER.log 2>&1; rc=$?
  e=$(date +%s)
  echo "$id rc=$rc $((e-s))s $(grep -E '^(OK|VIOLATION|INCONCLUSIVE)' logs/$id.$TIER.log | head -2 | tr '\n' ' ')"
done

#!/bin/bash
# Runs every check of a tier sequentially; prints a one-line verdict per property.
TIER="${1:-quick}"; shift
IDS="${@:-C01 C02 C03 C04 C05 C06 C07 C08 C09 C10 C11 C12 C13 C14 C15 C16 C17 C18 C19 C20}"
cd "$(dirname "$0")/.."
for id in $IDS; do
  s=$(date +%s)
  out=$(./check $id $TIER 2>&1); rc=$?
  e=$(date +%s)
  echo "$id rc=$rc $((e-s))s $(echo "$out" | grep -E '^(OK|VIOLATION|INCONCLUSIVE)' | head -2 | tr '\n' ' ')"
done

#!/bin/bash
# usage: tools/try_seeded.sh <patch.diff> <ID> [quick|thorough]  -- applies a seeded change to /repo, runs the check, reverts.
set -u
P="$1"; ID="$2"; TIER="${3:-quick}"
cd /repo || exit 2
if [ -n "$(git status --porcelain)" ]; then echo "repo dirty"; exit 2; fi
git apply "$P" || { echo "patch does not apply"; exit 2; }
cd /verif
START=$(date +%s)
./check "$ID" "$TIER" > /tmp/try_seeded.$$.log 2>&1
rc=$?
END=$(date +%s)
grep -E "^(VIOLATION|OK|INCONCLUSIVE|KNOWN|--- failure)" /tmp/try_seeded.$$.log | head -8
grep -A3 -E "^--- failure" /tmp/try_seeded.$$.log | head -12 | cut -c1-400
echo "rc=$rc secs=$((END-START))"
rm -f /tmp/try_seeded.$$.log
git -C /repo checkout -- . 
git -C /repo status --porcelain
exit $rc

#!/bin/bash
# Runs the repository's own suite with the verif build tag OFF and compares the
# set of passing tests with /root/.vp/BASELINE.json stable_pass. exit 0 = every
# stable_pass test passed.
export GOPROXY=off GOSUMDB=off GOTOOLCHAIN=local
OUT=$(mktemp)
(cd /repo && go test -mod=mod -json -vet=off -count=1 -timeout 25m ./... > "$OUT" 2>/dev/null)
python3 - "$OUT" <<'PY'
import json,sys
passed=set()
for l in open(sys.argv[1], errors='replace'):
    try: e=json.loads(l)
    except Exception: continue
    if e.get('Action')=='pass' and e.get('Test'):
        passed.add(e['Package']+'::'+e['Test'])
base=json.load(open('/root/.vp/BASELINE.json'))['stable_pass']
missing=[t for t in base if t not in passed]
print(f"baseline stable_pass={len(base)} passed_now={len(passed)} missing={len(missing)}")
for t in missing[:40]: print("MISSING", t)
sys.exit(1 if missing else 0)
PY
rc=$?
rm -f "$OUT"
exit $rc

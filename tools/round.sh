#!/bin/bash
# usage: tools/round.sh <ID> <pkg> <round tag e.g. r2> <worktree> <first new index>
# Confirms /tmp/mut/out/<ID><tag>-{1,2,3} and runs the quick check against each confirmed change (scratch worktree).
ID="$1"; PKG="$2"; TAG="$3"; WT="$4"; N="$5"
cd /verif
for i in 1 2 3; do
  O=/tmp/mut/out/${ID}${TAG}-$i
  [ -f $O/patch.diff ] || { echo "$O missing"; continue; }
  SID=${ID}-$N; N=$((N+1))
  echo "== $SID <- $O"
  tools/confirm_seeded.sh $O $WT $PKG $SID | tail -3
  [ -d seeded/$SID ] || continue
  tools/try_seeded_wt.sh seeded/$SID/patch.diff $ID quick > /tmp/round.$SID.log 2>&1
  cat /tmp/round.$SID.log | cut -c1-300
done

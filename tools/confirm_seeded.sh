#!/bin/bash
# usage: tools/confirm_seeded.sh <outdir with patch.diff demo_test.go meta.json> <worktree> <pkg dir (e.g. rtree)> <seeded id>
# Confirms in a scratch worktree: suite passes with the change, demo fails with it and passes without it.
# On success copies the artefacts to /verif/seeded/<id>/ with a confirmation record.
set -u
export GOPROXY=off GOSUMDB=off GOTOOLCHAIN=local GOFLAGS=-mod=mod
OUT="$1"; WT="$2"; PKG="$3"; ID="$4"
cd "$WT" || exit 2
git checkout -q -- . ; git clean -fdq
git apply "$OUT/patch.diff" || { echo "FAIL: patch does not apply"; exit 1; }
go build ./... 2>/dev/null
SUITE=$(go test -vet=off -count=1 ./rtree ./geom ./carto 2>&1 | tail -5)
if echo "$SUITE" | grep -q "^FAIL\|^---"; then echo "FAIL: suite fails with change"; echo "$SUITE"; git checkout -q -- .; exit 1; fi
DEMO=$(ls "$OUT"/*_test.go | head -1)
NAME=$(grep -o "func Test[A-Za-z0-9_]*" "$DEMO" | head -1 | sed 's/func //')
cp "$DEMO" "$PKG/zz_demo_seeded_test.go"
WITH=$(go test -vet=off -count=1 -run "^$NAME\$" ./$PKG 2>&1 | tail -3)
git checkout -q -- .
WITHOUT=$(go test -vet=off -count=1 -run "^$NAME\$" ./$PKG 2>&1 | tail -3)
rm -f "$PKG/zz_demo_seeded_test.go"
echo "with: $(echo "$WITH" | tr '\n' ' ' | cut -c1-200)"
echo "without: $(echo "$WITHOUT" | tr '\n' ' ' | cut -c1-200)"
if echo "$WITH" | grep -q "^ok"; then echo "FAIL: demo passes with change"; exit 1; fi
if ! echo "$WITHOUT" | grep -q "^ok"; then echo "FAIL: demo does not pass without change"; exit 1; fi
mkdir -p /verif/seeded/$ID
cp "$OUT/patch.diff" /verif/seeded/$ID/patch.diff
cp "$DEMO" /verif/seeded/$ID/demo_test.go.txt
python3 - "$OUT/meta.json" /verif/seeded/$ID/meta.json "$PKG" "$NAME" <<'PY'
import json,sys
m=json.load(open(sys.argv[1]))
m['confirmed_by_verif_author']={"suite":"go test -vet=off -count=1 ./rtree ./geom ./carto passed with the change applied","demo":"go test -run ^%s$ ./%s fails with the change and passes without it (demo copied into the package dir of a scratch worktree)"%(sys.argv[4],sys.argv[3])}
json.dump(m,open(sys.argv[2],'w'),indent=1)
PY
echo "CONFIRMED $ID"

#!/bin/bash
# usage: tools/try_seeded_wt.sh <patch.diff> <ID> [quick|thorough]
# Same as try_seeded.sh but leaves /repo alone: a scratch copy of /verif is pointed (go.mod replace) at a scratch
# worktree of /repo with the change applied.  For use while other checks are running against /repo.
set -u
P="$(readlink -f "$1")"; ID="$2"; TIER="${3:-quick}"
S=/tmp/vtry.$$
mkdir -p $S
git -C /repo worktree add --detach $S/repo HEAD >/dev/null 2>&1 || { echo "worktree failed"; exit 2; }
git -C $S/repo apply "$P" || { echo "patch does not apply"; git -C /repo worktree remove --force $S/repo; rm -rf $S; exit 2; }
rsync -a --exclude bin --exclude evidence --exclude .git --exclude seeded /verif/ $S/verif/
sed -i "s#=> /repo#=> $S/repo#" $S/verif/go.mod
START=$(date +%s)
( cd $S/verif && ./check "$ID" "$TIER" ) > $S/log 2>&1
rc=$?
END=$(date +%s)
grep -E "^(VIOLATION|OK|INCONCLUSIVE|KNOWN|--- failure)" $S/log | head -8
grep -A3 -E "^--- failure" $S/log | head -12 | cut -c1-400
echo "rc=$rc secs=$((END-START))"
git -C /repo worktree remove --force $S/repo
rm -rf $S
exit $rc

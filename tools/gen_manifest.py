#!/usr/bin/env python3
"""Generates /verif/MANIFEST.json from the table below (kept in one place so the
manifest stays valid and the not_applicable list stays current)."""
import json, subprocess, os
ALL = ["C%02d" % i for i in range(1, 21)]
HOOK_COMMITS = ["ae25360"]
checks = {}
def add(pid, level, text, note, technique, design_ref):
    checks[pid] = dict(
        property_id=pid,
        quick_cmd="./check %s quick" % pid,
        thorough_cmd="./check %s thorough" % pid,
        evidence_file="evidence/%s.json" % pid,
        replay_cmd_template="./check %s --replay {path}" % pid,
        engine="verifdrv",
        level_claimed=dict(category=level, text=text, design_ref=design_ref),
        level_note=note,
        technique=technique,
    )

add("C11", "exploration",
    "Generated-input search with a linear-scan oracle: every size 0..40 is enumerated over 7 layouts, query boxes and every stop position; rapid draws multisets up to 300 (thorough 5000) boxes over 7 layouts and 3 coordinate classes with scripted callbacks. Each search result is compared with the exact expectation (set of hits, exactly-once, non-decreasing exact rational distance, no call after a non-nil return, error identity, Count, Extent) and the verif-tag hook checks the internal node invariants after load and after every search. Exploration is the right level: the quantifier is over unbounded item multisets and only the small sizes can be enumerated.",
    "Trusted: the linear-scan oracle, math/big, rapid v1.3.0, the add-only VerifCheck hook. Holds on everything generated; absence of defects outside the generated sizes/layouts is not shown.",
    "property-based testing (rapid) + exhaustive small-size enumeration vs linear-scan model",
    "DESIGN.md C11")

NOT_YET = "check not built yet in this session (build in progress; see DESIGN.md section 7)"
manifest = dict(
    version=1,
    setup_cmd="./check --setup",
    hooks=dict(
        guard="verif (Go build tag)",
        enable="checks build the harness with `go test -c -tags verif` against /repo via a replace directive",
        baseline_off_cmd="tools/baseline_off.sh",
        source_commits=HOOK_COMMITS,
        add_only=True,
    ),
    engines=[dict(name="verifdrv", path="cmd/verifdrv", serves_properties=sorted(checks),
                  kind_free_text="Go driver: rebuilds props test binary from /repo working tree (tag verif), replays regress/ and known findings, runs 16 rapid shards seeded from VERIF_SEED, merges evidence, native go fuzz in thorough where registered")],
    checks=[checks[k] for k in sorted(checks)],
    notes="All checks: exit 0 held, 1 + VIOLATION line, 2 inconclusive (build error/timeout). known_findings.json lists fixed/open genuine defects; regress/<ID>/ holds their minimised inputs.",
    not_applicable=[dict(property_id=p, reason=NOT_YET) for p in ALL if p not in checks],
)
json.dump(manifest, open(os.path.join(os.path.dirname(__file__), "..", "MANIFEST.json"), "w"), indent=1)
print("claimed:", sorted(checks))

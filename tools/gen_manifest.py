#!/usr/bin/env python3
"""Generates /verif/MANIFEST.json from the table below (kept in one place so the
manifest stays valid and the not_applicable list stays current)."""
import json, subprocess, os
ALL = ["C%02d" % i for i in range(1, 21)]
HOOK_COMMITS = ["ae25360"]
checks = {}
def add(pid, level, text, note, technique, design_ref):
    checks[pid] = dict(
        property_id=pid,
        quick_cmd="./check %s quick" % pid,
        thorough_cmd="./check %s thorough" % pid,
        evidence_file="evidence/%s.json" % pid,
        replay_cmd_template="./check %s --replay {path}" % pid,
        engine="verifdrv",
        level_claimed=dict(category=level, text=text, design_ref=design_ref),
        level_note=note,
        technique=technique,
    )

add("C11", "exploration",
    "Generated-input search with a linear-scan oracle: every size 0..40 is enumerated over 8 layouts, query boxes and every stop position; rapid draws multisets up to 300 (thorough 5000) boxes over 7 layouts and 3 coordinate classes, a third of them mapped to non-dyadic or tiny (1e-170) ordinates, plus enumerated sizes 1023..5000 around the depth-6/7 boundaries, with scripted callbacks (nil, Stop, Stop wrapped by %w / two %w verbs / errors.Join, a foreign error). Each search result is compared with the exact expectation (set of hits, exactly-once, non-decreasing exact rational distance up to the float64 rounding of a squared distance, no call after a non-nil return, error identity, Count, Extent) and the verif-tag hook checks the internal node invariants after load and after every search. Exploration is the right level: the quantifier is over unbounded item multisets and only the small sizes can be enumerated.",
    "Trusted: the linear-scan oracle, math/big, rapid v1.3.0, the add-only VerifCheck hook. Holds on everything generated; absence of defects outside the generated sizes/layouts is not shown.",
    "property-based testing (rapid) + exhaustive small-size enumeration vs linear-scan model",
    "DESIGN.md C11")


add("C04", "exploration",
    "Generated-input search over geometry models (7 types x 4 coordinate types, empties at every position, nesting depth 4, zero values, all float64 classes incl. NaN/Inf in Z/M) x per-element byte order x trailing bytes. Oracles: an independent WKB writer/reader written from the ISO spec and bit-wise structural comparison of model trees; library decode must invert library encode and the independent mixed-endian encoding, re-encode must reproduce bytes, decoded values must own their data (the input buffer is overwritten afterwards, at several alignments), Append works into destinations with spare capacity and twice in a row, the []byte returned by Value() is not reused, a copy held of a Scan destination survives the next Scan, a NULL row leaves nothing of the previous row in a NullGeometry, validity does not depend on Z/M, enumerated collections of 100..1000 members and polygons of 255..1000 rings decode, Value/Scan of Geometry, NullGeometry and all 7 concrete types (destinations pre-populated with another value) must round trip and reject other types. Encoder results belong to the caller: they are re-read after later encodings, and overwritten before the encoder is called again (AsBinary, Value, AppendWKB(nil), Geometry and concrete types).",
    "Trusted: independent codec (internal/codec/wkb.go), gm model conversion (read-back checked per case), rapid. Scan paths are exercised only on cases the library validates (valid-by-construction family, about 80% of cases).",
    "property-based testing (rapid): round-trip + differential against an independent codec",
    "DESIGN.md C04")
add("C05", "exploration",
    "Generated-input search over geometry models with all finite float64 classes x AppendWKT prefixes x token-level re-spellings (keyword case, separators, bare and parenthesised MultiPoint members mixed in one text, plain and exponent numerals mixed) x trailing tokens. Oracles: independent OGC-grammar WKT parser/printer, structural bit-wise comparison, a shortest-decimal test that tries the one-digit-shorter candidates, the independent WKB writer for WKT/WKB agreement; closed sequences whose closing position equals the first only numerically (0 against -0), polygons holding empty rings beside non-empty ones (EMPTY at the ring level); plus enumerated zero values of every Go type, collections with 31..200 members, and hostile texts (NaN/Inf numerals, mixed dimensions) that must be rejected. Encoder results are re-read after later renderings and overwritten before AppendWKT(nil) is called again.",
    "Trusted: independent WKT grammar (internal/codec/wkt.go), strconv.ParseFloat correct rounding, rapid.",
    "property-based testing (rapid): round-trip + grammar-based metamorphic re-spelling",
    "DESIGN.md C05")
add("C18", "exploration",
    "Generated-input search over triples A, B=mutate(A), C=mutate(B) where each mutation changes exactly one respect (one ulp, swap, rotation, reversal, emptiness, coordinate type, wrapping, zero sign, reorder, drop/duplicate, jitter). Oracles: WKB equality via the independent writer (no options), a brute-force order-insensitive matcher with exact rational ring-simplicity (IgnoreOrder), exact distances for the ToleranceXY premises; reflexivity/symmetry/transitivity on the triple; stored option values applied repeatedly. Enumerated: collections of 127..257 distinct members reordered / with one member replaced by a copy of another. A shell that trades places with a hole is not an order IgnoreOrder ignores.",
    "Trusted: independent WKB writer, exact rational kernel (internal/exact/rat.go), rapid. Open known finding F18 (rings at magnitudes < 1e-150 or > 1e150) is excluded by class and counted.",
    "property-based testing (rapid): single-difference mutant pairs vs model equality",
    "DESIGN.md C18")


add("C06", "exploration",
    "Three generated families: valid geometry models -> MarshalJSON checked by encoding/json and an RFC 7946 structure validator, and UnmarshalGeoJSON / json.Unmarshal into Geometry and all 7 concrete types (destinations pre-populated with another value) (a null document matches none); the bytes MarshalJSON returned are re-read after further direct MarshalJSON calls; results compared with the harness-computed image (M dropped, empty Points omitted from MultiPoints, Z kept iff a position exists); grammar-generated GeoJSON documents (positions of length 0..5, wrong nesting, non-numeric elements, null/missing members, unknown types) with the expected outcome computed from the document; Features/FeatureCollections with generated ids, properties and foreign members (names incl. ones that need JSON escaping) compared as decoded JSON, decode destinations pre-populated with another feature / longer collection, malformed features rejected. Encoder results are overwritten by the caller before MarshalJSON is called again. Enumerated: geometries of 127..257 and 1000 points / members / rings, FeatureCollections of 128..258 features.",
    "Trusted: encoding/json, the RFC 7946 validator and document oracle in props/c06_test.go. Documents RFC 7946 leaves open (null coordinates, GeometryCollection without geometries, nulls nested in coordinates) are only required to be handled without panic / to decode to the empty geometry.",
    "property-based testing (rapid): round-trip against a format-loss model + grammar-based document generation",
    "DESIGN.md C06")
add("C07", "exploration",
    "Generated valid geometries with ordinates k/10^q x XY precision -8..7 x Z/M precisions x every subset of {size, bbox, id list, closed rings} in a drawn option order x optional concatenation. An independent varint-level TWKB reader returns the integers and headers; exact rational rounding (math/big) gives the acceptable integers, the nearest float64 of K/10^p the expected decoded value; size header = bytes that follow, bbox header = min/max of the encoded integers and = envelope/Z/M ranges of the decoded geometry, id list verbatim, header-only readers agree, out-of-range precisions and id-count mismatches rejected, concatenated streams split by the size header. Encoder results are re-read after later encodings and overwritten before MarshalTWKB is called again. Enumerated: counts of 127..129, 300 and 16383..16385 (points, members, rings, id-list entries: two- and three-byte varints).",
    "Trusted: independent TWKB reader (internal/codec/twkb.go), math/big. Domain restricted to |ordinate x 10^p| < 2^52 (beyond it float64 cannot resolve the grid and the int64 varint overflows); ring structure is not compared when rounding merges a ring's last encoded vertex with its first (counted).",
    "property-based testing (rapid): exact-arithmetic rounding oracle + independent decoder",
    "DESIGN.md C07")


add("C08", "fault_enumeration",
    "A stated corruption set is enumerated over a corpus of valid encodings (17 shapes x 4 coordinate types in WKB x 3 byte-order patterns, TWKB x 4 header sets, WKT, GeoJSON + Feature + FeatureCollection): every truncation, every byte substitution (all 256 values at header/count/type bytes, boundary values elsewhere), every count field overwritten with boundary counts in both byte orders, every TWKB varint overwritten with 2^k / 2^64-1 / overlong, every WKT token deleted/duplicated/swapped and every numeral replaced by hostile numerals, every GeoJSON node replaced by 15 values or deleted - about 3.3 million inputs, all of them in the thorough tier, a rotating 1/7 in quick - plus rapid-generated arbitrary bytes, plausible headers with random tails, multi-edits, generated structures with overwritten counts and deep nesting. Every input goes through every decoder entry point of its format; contract: error xor geometry, no panic, no process death (shards run under ulimit -v 4 GiB and journal the in-flight input), heap allocation <= 1 MiB + 2048 x len(input), validating decoders only return geometries that pass Validate, every returned geometry re-encodes in all four formats without panic. Thorough adds native go fuzzing of the four decoders seeded with the corpus. Well-formed encodings of geometries that are degenerate in XY only (positions differing in Z/M alone) are decoded unedited in both tiers.",
    "Trusted: Go runtime allocation counters (cheap counter + precise re-measurement of candidates), the driver's death detection. Slow inputs are not violations. The enumerated set is complete only for the stated corpus and fault list.",
    "fault enumeration over a corpus + property-based/random search (rapid) + native fuzzing (thorough)",
    "DESIGN.md C08")


add("C03", "exploration",
    "Generated-input search on dense integer grids (side 3..6) with geometries built without validation: raw rings/lines (random or angularly sorted lattice points, reused vertices, unclosed rings, repeated vertices), valid geometries traced from triangulated-grid subsets with one breaking edit, shells with holes traced from triangle subsets (touching chains/cycles of holes: multi-touch, nested, disconnected interior), NaN/Inf injection (up to three values, also in different positions), chains of holes linked vertex to vertex from the shell; plus an exhaustive sub-space (every triangle/rectangle on a 4x4 grid as an extra ring, every start vertex and direction) and wide polygons / MultiPolygons (127..257 rings / members; the last one duplicated, outside, edge-sharing, overlapping, nested or corner-touching). Simplify, the one validating operation, must fail exactly when the oracle rejects what it returns with NoValidate. The verdict of Validate (on Geometry and the concrete type) must equal a definitional oracle in exact rational arithmetic and must not change under ring rotation/reversal, hole/member permutation, translation, reflection; IsSimple/IsRing/IsClosed must equal their definitional values; the validating WKT/WKB/GeoJSON/TWKB decoders must accept exactly the valid inputs; the verdict must not change when Z/M payload is added; an inscribed family (a ring through corners/edge midpoints of another, same bounding box).",
    "Trusted: the exact kernel (internal/exact: rational arithmetic, pairwise segment intersection, slab-cell union-find for interior connectedness), unit-tested on hand cases; its invariance under the representation change is asserted per case.",
    "property-based testing (rapid) + exhaustive small-space enumeration vs an exact-arithmetic definitional oracle; metamorphic representation changes",
    "DESIGN.md C03")


add("C01", "exploration",
    "Generated ordered pairs of valid geometries (all 7x7 type pairs, overlapping collection members, empties) on triangulated integer grids that coincide, are offset by half a cell or shifted, under an injective integer map (optionally an exact dyadic affine image), a hole-nesting family, and a general-position float family (random 53-bit mantissas in a window: crossing points are not representable, the library must round its nodes), and a concurrent family (3..14 integer segments through one non-lattice point); repeated consecutive vertices; every operation repeated on the same operands carrying Z/M/ZM payload; UnionMany lists of up to 50 operands. An exact rational arrangement of both operands gives, for every vertex, sub-edge and slab trapezoid, its membership in A and B; the expected result of each operation is the closed Boolean combination of those cells with its exact area, remainder length and isolated-point count. Every library result (Union, Intersection, Difference both orders, SymmetricDifference, argument orders swapped, UnaryUnion, Union(x,x), UnionMany) must be error-free, valid (oracle and Validate), contain exactly the expected face probes, have every expected remainder edge/point within tau, match the three measures and have the canonical shape. Because every operation is compared with the same exact point set, the Boolean-algebra laws hold as a consequence. Enumerated: MultiLineString / MultiPolygon operands of 130 members in a row against a line / polygon meeting one of the last two.",
    "Trusted: exact kernel (internal/exact). Strict domain (exact clearance >= 1e-6 x magnitude) only; probes closer than tau = 1e-9 x magnitude to an arrangement edge are skipped and counted.",
    "property-based testing (rapid) vs an exact-arithmetic arrangement oracle",
    "DESIGN.md C01")
add("C02", "exploration",
    "Same pair generator (lattice, hole-nesting and general-position float families; identical operands also spelled as a collection with an empty member of a higher dimension or with every line traced out and partly back) with pairwise exactly-disjoint collection members. DE-9IM oracle: every cell of the exact arrangement is located in I/B/E of each operand by the OGC definitions and M[x][y] is the largest dimension of a cell located (x,y). Relate(a,b) must equal it, Relate(b,a) its transpose, the nine named predicates the documented pattern lists evaluated by an independent matcher (Crosses/Overlaps with dimensions that ignore empty members), plus Contains/Within, Covers/CoveredBy, Disjoint/Intersects, Equals(a,a) relations; RelateMatches against the independent matcher on random (also malformed) matrix/pattern strings. Evidence reports the number of distinct matrices seen. Enumerated: operands of 130 and 260 members in a row against a point / line / polygon meeting one of the last two, both argument orders.",
    "Trusted: exact kernel. Strict domain only.",
    "property-based testing (rapid) vs an exact-arithmetic DE-9IM oracle",
    "DESIGN.md C02")


add("C09", "exploration",
    "C01's pair generator (lattice, hole-nesting and general-position float families, plus a third geometry) and a dense family with 20..2000 primitives per operand; enumerated operands of 127..257 members in a row against a small geometry on / near / crossing one of the last two. Intersects must equal the exact intersects (exact segment-pair intersection or exact containment of a vertex), be symmetric, equal not-Disjoint and equal non-emptiness of Intersection; Distance must be symmetric, defined iff both operands are non-empty, zero iff they intersect exactly, within 1e-9 x magnitude of the exact minimum distance (rational arithmetic, square root at 200 bits; float brute force for the dense family), not below the envelope distance, and obey d(a,c) <= d(a,b)+diam(b)+d(b,c).",
    "Trusted: exact kernel; float brute force for the dense family (integer inputs).",
    "property-based testing (rapid) vs exact-arithmetic and brute-force oracles",
    "DESIGN.md C09")
add("C10", "exploration",
    "Programs of 5..40 API calls drawn by reflection over the whole public read API (every exported value-receiver method of Geometry, the concrete types, Envelope, Sequence; 28 free functions) on a shared pool of 4 operands (built by the public constructors or obtained from the WKT/WKB/GeoJSON/TWKB decoders), plus a fixed baseline of read-only observations (text, binary, dumps, summary, envelope, boundary, reverse, force, JSON) of every operand and Validate on 1..3 geometries built without validation. Purity: canonical rendering of every operand unchanged after every call, after overwriting returned slices, after the concurrent phase; constructors do not retain slices; NewSequence's float slice never written; shared R-tree unchanged; decoder input buffers (WKB little-endian / big-endian / mixed byte order from the independent writer, TWKB, GeoJSON, Scan) are byte-identical after repeated and concurrent decodes of one shared buffer, which all return the same geometry. Determinism: every call repeated 8x/32x bit-identically, 1 case in 20 replayed in a fresh process. Concurrency: the program issued from 2..16 goroutines (GOMAXPROCS 2/4/16) in a -race binary with halt_on_error; results must equal the sequential transcript and the race detector must stay silent. One case in four uses a shared-endpoint pair (2..4 lines meeting at one vertex with drawn start/end combinations, the other operand touching exactly that vertex) on which every overlay / relate function is called repeatedly in both argument orders.",
    "Schedules are sampled, not enumerated (the Go scheduler cannot be controlled from a property library); the race detector's happens-before analysis flags conflicting unsynchronised accesses that occur in a run. Trusted: reflection-based argument synthesis respects documented preconditions.",
    "property-based testing (rapid): generated API programs, repetition, differential process, race detector",
    "DESIGN.md C10")
add("C12", "exploration",
    "Envelope algebra over the integer lattice {-2..2}^2 incl. degenerate and empty envelopes: all ordered pairs enumerated (both tiers), all triples in thorough, every method against integer interval arithmetic; a float family (triples over per-case pools of non-dyadic, 1e15+fraction, 1e-300/subnormal, 1e300 and signed-zero ordinates with derived touching/nested boxes: predicates, joins and Contains compared exactly incl. one-ulp neighbours, Width/Height/Center/Area/Distance with the correctly rounded exact rational value); and generated geometries of every type/coordinate type: Envelope() is exactly the min/max of the control points (Geometry, concrete type, Sequence), empty iff the geometry is, invariant under Reverse/Force*/member rotation, join of members, Envelope(Union) = join within 1e-9, also for UnionMany over 129..350 operands.",
    "Trusted: integer interval arithmetic in props/c12_test.go, math/big for the float family (Distance is compared only while the squared gaps neither overflow nor underflow).",
    "exhaustive enumeration of a finite lattice + property-based testing (rapid)",
    "DESIGN.md C12")
add("C13", "exploration",
    "Point multisets (1..200 integer points, collinear / on a square border / scattered, with repetitions) wrapped in every geometry type and re-ordered; general-position float points; every subset of 1..6 points of the 4x4 grid. The hull must satisfy a characterisation checked in exact arithmetic (type by affine rank; closed CCW ring of strict left turns; vertices are control points; every control point on or left of every edge), be idempotent bit-for-bit, independent of order/multiplicity and of Z/M payload, equal to the hull from the concrete type's method, and still read the same after hulls of other geometries have been computed; rotated rectangles must be rectangles covering the hull, have a side on a hull edge and match the exact minimum area / width over edge-aligned rectangles.",
    "Trusted: exact orientation predicate. Float points that are not in general position (relative 1e-6) are skipped and counted. Library calls run under a watchdog: a call that does not return is reported as a hang only if it repeats when re-run alone.",
    "property-based testing (rapid) + exhaustive small-space enumeration vs an exact characterisation",
    "DESIGN.md C13")
add("C14", "exploration",
    "Valid geometries of every type (triangulated-grid shapes and comb / side-by-side-hole shapes; lattice and exact dyadic float images): Area vs the exact sum of slab trapezoids (cross-checked with the exact shoelace value), signed area after ForceCCW/ForceCW/Reverse, Area(WithTransform f) = TransformXY(f).Area() = area x |det f| for affine f and = TransformXY(f).Area() for a non-affine f, SignedArea and WithTransform together in both argument orders = signed area x det f, Length homogeneous under exact scalings by 2^-600 and 2^+520, Length and length-weighted centroid at 200 bits, exact area-weighted centroid / point average, on Geometry and the concrete types; invariance under ring rotation, reversal, member permutation, Z/M; translation; additivity. Enumerated: polygons with 127..257 holes, Multi* with as many members.",
    "Trusted: exact kernel. Tolerance 1e-9 x magnitude (squared for area).",
    "property-based testing (rapid) vs exact-arithmetic measures + metamorphic relations",
    "DESIGN.md C14")
add("C15", "exploration",
    "Valid geometries of every type (triangulated-grid shapes and comb / side-by-side-hole shapes whose scan lines see several solid stretches and wider gaps): Boundary(g) has lower dimension or is empty, an empty boundary itself, every vertex and segment midpoint of it is located Boundary in g by the exact OGC locator, its points are exactly the odd-degree end points and its segments exactly g's ring segments, a collection's boundary is the ordered list of its members' non-empty boundaries; boundary and point on surface do not change when Z/M payload is added; PointOnSurface(g) is empty iff g is, finite, XY, exactly interior for areal g and on a member of the highest dimension otherwise; Dimension/IsEmpty equal the structural values. Enumerated: stars of 64..257 lines sharing one end point.",
    "Trusted: exact kernel.",
    "property-based testing (rapid) vs the exact OGC point locator",
    "DESIGN.md C15")
add("C16", "exploration",
    "Geometries of 7 types x 4 coordinate types with unique per-vertex Z/M tags (empties, nesting, zero values): a recursive walker asserts one CoordinatesType() for the geometry and everything reachable after construction and after every operation; mixed-type constructors reduce to the common subset; Z/M fields a coordinate type does not have read zero; Slice views never write to their parent sequence; the flat-coordinate constructors build the same geometries and, like the Multi*/collection constructors, neither keep nor change the caller's slices; slices returned by accessors (Dump, DumpRings, ...) are the caller's; Centroid/ConvexHull/PointOnSurface/Envelope of the concrete types agree with Geometry's; NewPolygon reduces rings of different types; ring closing positions may carry Z/M of their own; ForceCoordinatesType/Force2D equal the harness model exactly; Reverse/ForceCW/ForceCCW/AsMulti*/Dump keep the multiset of full positions and every line/ring as it was or exactly reversed; set operations with an empty operand in either position return XY; DumpCoordinates order; TransformXY/SnapToGrid touch XY only; Densify keeps tagged originals and interpolates Z/M; Simplify emits only tagged originals; WKB/WKT round trips; XY-only operations return XY throughout.",
    "Trusted: gm model conversion (read-back checked).",
    "property-based testing (rapid): tagged-vertex tracking against a harness model",
    "DESIGN.md C16")
add("C17", "exploration",
    "Valid lineal/areal geometries with tagged vertices and drawn parameters (distances and thresholds relative to the diameter or exact integer lengths, fractions incl. break points +-1 ulp, n -1..50, scalars of every float class x decimal places -320..320). Exact-arithmetic checks: Densify (originals in order, inserted points on their segment, no gap > d, measures unchanged, d <= 0 panics), Simplify (dynamic-programme embedding: subsequence with every dropped vertex within t of the line through its bracketing kept vertices; valid or error), Interpolate (arc-length position at 200 bits, Z/M, counts), SnapToGrid (odd, finite, within half a step + 2 ulp, idempotent below 2^40 steps), Reverse (involution), ForceCW/CCW (exact ring orientations, idempotent).",
    "Trusted: exact kernel primitives, math/big.",
    "property-based testing (rapid) vs exact-arithmetic contracts",
    "DESIGN.md C17")
add("C19", "exploration",
    "Nine projections x drawn configurations (centre/origin incl. exactly and nearly polar centres for the azimuthal ones, standard parallels in both hemispheres and orders, radius, zoom; setters called in either order, after a previous configuration, with the projection used between two configurations, or left at their documented defaults) x points (centre itself, standard parallels, graticule, random) in each implementation's well-conditioned domain, plus the enumerated graticule for fixed configurations: Forward finite, Reverse(Forward(p)) within 1e-9 degrees (NaN fails), equal-area / conformal (rotation, not reflection) / equidistant character by central-difference Jacobians, standard parallels true to scale, web Mercator square/centre/orientation.",
    "Trusted: math package. Singular configurations (equal or symmetric standard parallels, cos(p1)=0) are excluded.",
    "property-based testing (rapid) + graticule enumeration: round-trip and metamorphic Jacobian identities",
    "DESIGN.md C19")
add("C20", "exploration",
    "Every exported value-receiver method (found by reflection; 351 distinct) and 28 free functions invoked with receivers/arguments from an empties zoo (zero values, typed empties in 4 coordinate types, collections of empties, nested) and real geometries: no panic; documented neutral answers for empty receivers; geom.Geometry{} vs an explicit empty GeometryCollection give identical canonical results; transparency: g (optionally nested in extra collections) vs g+ (empty members inserted at drawn positions and nesting depths, also inside inner non-empty collections) agree on measures, envelope (also as carried by the TWKB bounding-box header), hull, distance, intersects, DE-9IM, all predicates and the point sets of all set operations.",
    "Trusted: argument synthesis respects documented preconditions (valid indices, MustAsX on the matching type, Densify > 0); point-set equality by the exact kernel. Free functions not in the table are listed in the evidence (uncovered_api).",
    "property-based testing (rapid) over a reflection-enumerated API: totality + differential + metamorphic",
    "DESIGN.md C20")

NOT_YET = "check not built yet in this session (build in progress; see DESIGN.md section 7)"
manifest = dict(
    version=1,
    setup_cmd="./check --setup",
    hooks=dict(
        guard="verif (Go build tag)",
        enable="checks build the harness with `go test -c -tags verif` against /repo via a replace directive",
        baseline_off_cmd="tools/baseline_off.sh",
        source_commits=HOOK_COMMITS,
        add_only=True,
    ),
    engines=[dict(name="verifdrv", path="cmd/verifdrv", serves_properties=sorted(checks),
                  kind_free_text="Go driver: rebuilds props test binary from /repo working tree (tag verif), replays regress/ and known findings, runs 16 rapid shards seeded from VERIF_SEED, merges evidence, native go fuzz in thorough where registered")],
    checks=[checks[k] for k in sorted(checks)],
    notes="All 20 properties are claimed. All checks: exit 0 held, 1 + VIOLATION line, 2 inconclusive (build error/timeout). known_findings.json lists fixed/open genuine defects; regress/<ID>/ holds their minimised inputs.",
    not_applicable=[dict(property_id=p, reason=NOT_YET) for p in ALL if p not in checks],
)
json.dump(manifest, open(os.path.join(os.path.dirname(__file__), "..", "MANIFEST.json"), "w"), indent=1)
print("claimed:", sorted(checks))
